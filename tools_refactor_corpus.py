#!/venv/bin/python -I
"""Silence test of the checks on behaviour-preserving refactorings (a self-audit, never part of a verdict).

  tools_refactor_corpus.py [--jobs N] [--props C01,C02] DIR_OR_DIFF ...

Every *.diff is applied to a scratch copy of /repo/src (under $TMPDIR, removed at once); every property's quick
check is run on it with --repo.  A refactoring that leaves behaviour unchanged must leave every check at exit 0:
exit 1 is a false alarm, exit 2 an unmodelled construct (undecided) -- both are printed with the first report line.
"""
import json
import os
import shutil
import subprocess
import sys
import tempfile
from concurrent.futures import ThreadPoolExecutor

HERE = os.path.dirname(os.path.abspath(__file__))
ALL = ["C%02d" % i for i in range(1, 21)]


def run(diff, props):
    tmp = tempfile.mkdtemp(prefix="ginverif_refac_")
    out = []
    try:
        # the committed HEAD of /repo (not the working tree: seeded patches may be applied there meanwhile)
        ar = subprocess.run("git -C /repo archive HEAD src | tar -x -C %s" % tmp, shell=True, capture_output=True, text=True)
        if ar.returncode != 0:
            return [(diff, "-", "STALE", ar.stderr.strip()[:160])]
        r = subprocess.run(["git", "apply", os.path.abspath(diff)], cwd=tmp, capture_output=True, text=True)
        if r.returncode != 0:
            return [(diff, "-", "STALE", r.stderr.strip()[:160])]
        env = dict(os.environ)
        env["GINVERIF_NO_EVIDENCE"] = "1"
        env["GINVERIF_REPLAY_DIR"] = os.path.join(tmp, "replay")
        for p in props:
            r = subprocess.run([os.path.join(HERE, "check"), p, "--repo", tmp, "--tier", "quick", "--jobs", "2"], capture_output=True, text=True, env=env, cwd=HERE)
            if r.returncode != 0:
                lines = [l for l in r.stdout.splitlines() if l.startswith("  ") or l.startswith("ANALYSIS")]
                out.append((diff, p, "FALSE-ALARM" if r.returncode == 1 else "UNDECIDED", (lines[0].strip() if lines else r.stdout.strip()[-200:] or r.stderr.strip()[-200:])[:260]))
        if not out:
            out.append((diff, "*", "SILENT", ""))
        return out
    finally:
        shutil.rmtree(tmp, ignore_errors=True)


def main(argv):
    jobs, props, paths = 6, ALL, []
    i = 0
    while i < len(argv):
        if argv[i] == "--jobs":
            jobs = int(argv[i + 1]); i += 2; continue
        if argv[i] == "--props":
            props = argv[i + 1].split(","); i += 2; continue
        paths.append(argv[i]); i += 1
    diffs = []
    for p in paths:
        if os.path.isdir(p):
            diffs += sorted(os.path.join(p, f) for f in os.listdir(p) if f.endswith(".diff"))
        else:
            diffs.append(p)
    bad = 0
    with ThreadPoolExecutor(jobs) as ex:
        for res in ex.map(lambda d: run(d, props), diffs):
            for r in res:
                print("%-40s %-4s %-11s %s" % (os.path.relpath(r[0], HERE) if r[0].startswith(HERE) else r[0], r[1], r[2], r[3]), flush=True)
                if r[2] != "SILENT":
                    bad += 1
    print("refactorings: %d, reports that are not silent: %d" % (len(diffs), bad))
    return 1 if bad else 0


if __name__ == "__main__":
    sys.exit(main(sys.argv[1:]))
