#!/bin/bash
# round 8, phase A (parallelisable): the demonstration on a scratch worktree with the patch (must fail) and on a clean
# scratch worktree of the same commit (must pass).  Phase B (seeded_confirm8b.sh) applies the patch to /repo and runs the checks.
id=$1
sd=/tmp/seed8_$id; cw=/tmp/cw8_$id; cc=/tmp/cc8_$id
for d in $cw $cc; do git -C /repo worktree remove --force $d 2>/dev/null; done
git -C /repo worktree add -q --detach $cw HEAD || exit 1
git -C /repo worktree add -q --detach $cc HEAD || exit 1
git -C $cw apply $sd/patch.diff || { echo "$id PATCH DOES NOT APPLY"; git -C /repo worktree remove --force $cw; git -C /repo worktree remove --force $cc; exit 1; }
(cd $cw && JAX_PLATFORMS=cpu PYTHONPATH=$cw/src timeout 3000 /venv/bin/python $sd/demo.py > /tmp/demo_mod_r8$id.log 2>&1; echo "$id demo with patch exit=$? (expect non-zero)")
(cd $cc && JAX_PLATFORMS=cpu PYTHONPATH=$cc/src timeout 3000 /venv/bin/python $sd/demo.py > /tmp/demo_orig_r8$id.log 2>&1; echo "$id demo clean exit=$? (expect 0)")
git -C /repo worktree remove --force $cw; git -C /repo worktree remove --force $cc
