#!/venv/bin/python -I
"""Regenerate seeded/README.md from the meta.json files (table) plus the fixed notes below."""
import glob
import json
import os

HERE = os.path.dirname(os.path.abspath(__file__))

HEAD = """# Independently seeded changes

Each sub-directory holds a change to WilsonGregory/ginjax written by a fresh sub-agent that was given only
the text of one property and its own scratch git worktree of `/repo` (never `/verif`): `patch.diff`, the
demonstration `demo.py` (exits 0 on the unmodified tree, non-zero with the patch) and `meta.json` (what it
breaks, what it needs in order to manifest, which tests the agent ran, and what I ran to confirm it).
Round 1 = one change per property; rounds 2 to 7 (`-r2-` ... `-r7-` in the name) = further, different
changes per property, the agent being told what the earlier rounds had done so that it would pick another mechanism
(round 3 additionally asked for subtle changes around corner values and rarely used options, round 4 for breakage
that needs something unusual -- larger sizes or counts, D=3 only, rare keyword arguments, coinciding sizes, a
sequence of calls -- so that small spot checks are unlikely to hit it).

Procedure used to confirm each one (`seeded_confirm.sh` ... `seeded_confirm6.sh`; round 7: `seeded_confirm7a.sh` for the demonstration on two scratch worktrees, `seeded_confirm7b.sh` for the checks on `/repo`): run the demo on a scratch
worktree with the patch (must fail) and on `/repo` (must pass); `git -C /repo apply patch.diff`; run the quick
checks; `git -C /repo checkout -- .`.  None of these changes is ever committed to `/repo`.  All of them are
replayed by `./selftest` (as `seeded:<name>`) next to the hand-written mutants.

"""

NOTES = """
## What the seeds taught

Of the 80 independent changes (four per property), 54 were reported by the named property's check as first
written (13 / 12 / 15 / 14 of 20 in rounds 1 / 2 / 3 / 4).  Twenty-six were not -- missed (exit 0) or undecided (exit 2) --
and the checks were strengthened (never loosened) until they were; each strengthening is a wider box, a stronger
oracle, a new rule or a newly modelled library function, not a special case for the seed:

Round 1
* `C01-same-padding-transposed-asymmetric` -- missed: no box combined image dilation with a *string* padding; C01 and C04 now sweep `'SAME'`/default padding with `lhs_dilation`.
* `C03-memo-key-group-order` -- undecided (exit 2): the new CACHE rule (memo keys must determine the memoised result) now reports it; the tail rule accepts a memo store.
* `C09-affine-pseudoscalar-norm-again` -- reported by C08 and C07 but not by C09 itself, which only referred to them; C09 now re-decides a compact set of the parameter-generic obligations (C09.PARAM).
* `C10-groupaverage-assumes-identity-first` -- missed: every swept operator list started with the identity; rotated / reversed listings were added.
* `C14-component-tensor-major` -- missed: the oracle required batched == per-image and "some plane"; it now checks the documented component order.
* `C19-best-loss-min-tracking` -- undecided (exit 2): the path normal form did not recognise the re-formulated method; a semantic transition check on representative states now decides.
* `C20-batchnorm-wrapper-drops-flags` -- missed by the quick tier only (the batch-norm variant lived in the thorough box); the quick box now contains it.

Round 2
* `C02-r2-square-fast-path` -- missed by the quick tier: D=3 boxes with two equal extents joined it.
* `C03-r2-rectify-sign-zero` -- undecided (exit 2): the RESCALE rule could not bound `jnp.sign(...)`; `rectify` is now evaluated exactly on every generated filter (C03.AXI.rectify).
* `C04-r2-zero-padding-treated-as-default` -- missed: integer padding 0 was not in the box.
* `C07-r2-unet3d-upsample-flip` -- missed: the U-Net box was 2-D only; a D=3 U-Net with a vector signature joined the quick box (11 s).
* `C09-r2-stopgrad-in-constructor` -- missed: the taint run renamed symbols under `stop_gradient` during construction too; marking is now limited to the forward pass (outside a trace `stop_gradient` is the identity).
* `C13-r2-from-images-leading-axes` -- missed: `from_images` was only swept with the default layout.
* `C15-r2-pool-2d-not-2powd` -- missed: `downsample` was 0/1 only (where 2d = 2^d); 2 and 3 joined the box.
* `C19-r2-falsy-zero-loss` -- missed: no representative state had loss 0; 0 and every numeric literal of `stop()` (with its neighbours) are now loss representatives.

Round 3
* `C05-r3-multicontract-trace-descending-pairs` -- undecided (exit 2): the re-implementation used `jnp.trace`, which the interpreter did not model; `trace`, `diagonal`, `rot90`, the `*stack` family, `append`, `full_like` ... were added.
* `C06-r3-same-padding-even-image-dilation` -- missed by C06 (reported by C01 and C04): C06 swept image dilation only with explicit padding; SAME / default / integer / VALID joined.
* `C10-r3-groupaverage-threads-state` -- missed: the uninterpreted inner model ignored the auxiliary state; it is now a function of (input, state) returning a new state, and the wrapper must hand every transformed copy the caller's state.
* `C11-r3-falsy-padding-zero` -- missed by C11 (reported by C04): the layer box had no integer padding; 0, 1, 2 joined (with image dilation and anisotropic stride).
* `C17-r3-choice-with-replacement` -- undecided (exit 2): `jax.random.choice` was not modelled; without replacement it is a permutation prefix, with replacement the draw is recorded and reported.

Round 4
* `C03-r4-group-sum-skips-first-operator` -- missed: every swept operator list started with the identity; reversed and rotated listings of the groups joined the box.
* `C06-r4-moveaxis-in_c-to-2` -- missed by C06 (reported by C01, C04, C11; three agents produced this same one-line change independently): C06's D=3 signature had one channel per type; it has two now.
* `C11-r4-torus-wrap-single-period` -- missed: no box had a wrap wider than the image (filter dilation > extent); the shared option box has one now (C04 reports it too).
* `C16-r4-predictions-zipped-positionally` -- missed: the uninterpreted model emitted its output types in input order; models emitting them reversed / sorted joined the box.
* `C17-r4-reshape-pmap-round-robin` -- undecided (exit 2): `jax.lax.slice_in_dim` was not modelled; `slice_in_dim`, `slice`, `dynamic_slice_in_dim`, `index_in_dim` were added.
* `C19-r4-stop-checked-after-epoch` -- undecided (exit 2): the AST rule for the training loop did not recognise the do-while form; `ml.train` is now abstractly interpreted with recording stubs for its collaborators and fed loss histories (epochs trained and model handed back vs the statement), whatever the loop looks like.

Rounds 5, 6 and 7 (55 further changes; rounds 5-7 asked for breakage that needs a multi-step sequence on one object, two
cooperating sites, a second call after a first one, a model after a training step, unusual counts or degenerate
sizes).  The table above gives, per change, whether it was reported at once or what was strengthened; the recurring
lessons were
* *state across calls*: no single-call obligation can see a stale memo or a stale lazily derived attribute; the STATE
  rules (S1 shared-memo mutation, S2 stale derived attribute incl. self-validating caches with a lossy guard, S3 memo key
  that does not determine the result, incl. `id()` keys) and the PURITY rule (no in-place change of the operands of an API
  call) were built for them (`C05-r6`, `C15-r6`, `C12-r7`, `C17-r7`);
* *what happens to a model after a training step*: pytree round trips (sorted dict keys), trainable leaves that must not
  be trainable, donated buffers (`C09-r5`, `C06-r6`, `C07-r6`, `C06-r7`, `C07-r7`, `C19-r7`: C09.STRUCT, C06/C07.TAINT, C19.DONATE);
* *degenerate and large sizes*: 1-pixel filters, extent 1, single-type signatures, 33 trajectories, seed bases > 512
  (`C03-r5`, `C04-r7`, `C20-r7`, `C15-r7`);
* *an oracle that was too narrow*: stateless inner model (`C16-r7`), default epsilon only (`C18-r7`), fresh stopping
  conditions only (`C09-r7`), operands transformed by the specification instead of the library's own action (`C01-r7`),
  wrappers covered by an AST rule only (`C03-r7`).
Three of the round-7 changes also exposed checks of mine that were too eager (false-alarm shapes, corrected in the rule,
see DESIGN.md 4): the first PURITY rule flagged every lazily filled attribute, `C09.TRAIN.update` flagged an update moved
into a helper function, `C19.TRAIN.return` flagged any return expression other than the literal attribute.

The C20 round-2 agent also noticed, independently, the defect repaired as F13 (output types in order of first
reachability when the bank lacks a filter type).

## Test-suite with the repairs

The unedited suite was run on `/repo` HEAD `6f4abbc` (all `fix:` commits F1-F14 applied) in a scratch worktree:
`JAX_PLATFORMS=cpu /venv/bin/python -m pytest -ra -q -p no:cacheprovider --timeout=900 --continue-on-collection-errors`
→ `106 passed, 4 warnings in 698.40s` (and `106 passed` at `647f153` and `d0f3a8e` before).
"""


def main():
    rows = []
    for d in sorted(glob.glob(os.path.join(HERE, "seeded", "*", "meta.json"))):
        m = json.load(open(d))
        name = os.path.basename(os.path.dirname(d))
        needs = " ".join(str(m.get("needs_to_manifest", m.get("needs", ""))).split())[:230].replace("|", "/")
        caught = " ".join(str(m.get("confirmed_by_me", {}).get("caught_by", "")).split()).replace("|", "/")
        rows.append("| `%s` | %s | %s | %s |" % (name, m.get("property"), needs, caught))
    out = HEAD + "| seeded change | property | needs to manifest (agent's words, shortened) | caught by |\n|---|---|---|---|\n" + "\n".join(rows) + "\n" + NOTES
    open(os.path.join(HERE, "seeded", "README.md"), "w").write(out)
    print("wrote seeded/README.md with %d rows" % len(rows))


if __name__ == "__main__":
    main()
