#!/venv/bin/python -I
"""Regenerates MANIFEST.json from the table below (keeps it valid and in sync with the rule modules)."""
import json, os, sys

HERE = os.path.dirname(os.path.abspath(__file__))
props = [json.loads(l) for l in open(os.path.join(HERE, "properties.jsonl"))]

# id -> (technique, level text, level note, design ref)
CLAIMS = {
 "C12": ("abstract interpretation of the repo's AST over a symbolic element-provenance domain (keyed-pairing oracle) + AST positional-pairing rule (ORDER)",
         "Decides for every swept construction history (insertion orders, append/copy/concat/from_vector/pytree round trip, 0-2 leading axes, D=1..3, type sets incl. equal-sized blocks) that (a op b)[t] is exactly a[t] op b[t] as element provenance -- hence for all array values -- and that operands with different type sets are rejected. The sweep is finite; the thorough tier enumerates all n!^2 order pairs for n<=4.",
         "Trusted: the transfer functions of ginverif.arr as models of NumPy/JAX reshape/concatenate/slicing; JAX sorts dict keys when flattening pytrees; tolerance semantics of allclose not decided.", "3/C12"),
 "C18": ("abstract interpretation of the repo's AST over a polynomial element domain (result term == stated definition) + AST positional-pairing rule (ORDER)",
         "Decides that each loss's result term equals its stated definition evaluated on blocks paired by type, as an identity of polynomials / opaque-function terms in the symbolic block elements (so for all values), for every insertion order and pytree round trip of either argument, every reduce mode, equal arguments giving identically 0.",
         "Trusted: jnp.linalg.norm = sqrt(sum of squares); argmax is an uninterpreted selection; floating-point rounding and the size of eps not decided. Invariance under g follows from the definition (Frobenius norm + spatial sum) and is not re-derived.", "3/C18"),
 "C13": ("abstract interpretation of the repo's AST over a symbolic element-provenance domain (round trip == identity) + AST rules PYTREE (flatten fields cover constructor parameters) and SAVELOAD (matching serialise pair)",
         "Decides for every swept configuration (ordered type signatures k<=3, channels 1-4, D=1..3, non-square extents, 0-3 leading axes, every split axis / expansion size / device count, chains of three operations) that each inverse pair composes to the identity as exact element provenance with types, D and boundary flags preserved -- i.e. for all array values.",
         "Trusted: NumPy/JAX re-layout semantics as modelled in ginverif.arr; JAX sorts dict keys in pytrees; equinox (de)serialisation is only checked to be the matching pair on binary handles -- bit-for-bit save/load is not decided statically.", "3/C13"),
 "C15": ("abstract interpretation of the repo's AST over a symbolic element-provenance domain (windowed blocks == fields named by the statement)",
         "Decides, for every (T,p,f,dt,s,downsample,signature,constants,batched) in the swept box, that the window count is T-s-(p+f-1)dt, that every element of every input/target block is exactly the field at time s+w+j*dt resp. s+w+(p+j)*dt per channel in time order, that constants reach inputs only, that down-sampling is the 2^D patch mean on both, and that the batched variant is the trajectory-major stack -- as exact provenance, hence for all field values.",
         "Trusted: arange/broadcast/integer-array-indexing and conv_general_dilated semantics as modelled. The box is finite (thorough: T<=12 for the index families; T in {5,6,8} for the blocks); the index formulas are not proved for symbolic T.", "3/C15"),
 "C16": ("abstract interpretation of the repo's AST with the model as an uninterpreted function symbol (rollout == sliding-window recurrence)",
         "Decides for rollout lengths 1-4, 1-4 past steps and signatures with dynamic-only, mixed and constant-only types that the n-step rollout equals n explicit applications of an arbitrary model under the stated window update (drop oldest, append prediction as newest, constants unchanged at their position, input type order kept). The model is an uninterpreted symbol of its entire input, so this holds for every model.",
         "Trusted: re-layout semantics as modelled; future_steps != 1 is rejected by the code and outside the statement.", "3/C16"),
 "C17": ("abstract interpretation of the repo's AST with the shuffling permutation as an opaque symbol vector (aligned-slice oracle) + AST reaching rule",
         "Decides for L in 4..9, every B<=L incl. non-divisible, 1-3 co-batched multi-images with different type sets, device counts and key None/opaque that there are floor(L/B) batches and that every batch of every multi-image and type is rows idx[iB:(i+1)B] of ONE shared index vector regrouped (n_dev,B/n_dev); disjointness of slices of one bijection gives 'at most once per epoch'.",
         "Trusted: jax.random.permutation returns a bijection of range(L); jax.devices() length.", "3/C17"),
 "C02": ("abstract interpretation of the repo's AST over a symbolic element-provenance domain (result == defining formula of the group action, for every group element)",
         "Decides for every g in B_D (D=1,2,3: 2, 8, 48 elements), boxes with pairwise distinct extents and extent 1, k<=3, both parities and the three entry points (array, GeometricImage, MultiImage with 0-2 leading axes) that the result equals det(g)^p g^{(x)k} A(g^-1(x'-c')+c) element for element, that D,k,p are kept and that extents and per-axis boundary flags are carried with their axes; composition on sampled pairs; make_all_operators returns exactly the signed permutation matrices.",
         "Trusted: einsum and integer-array indexing semantics as modelled. Identity, inverse, linearity, bijection and norm preservation are corollaries of the defining formula and not re-derived. Shapes are a finite set (not symbolic).", "3/C02"),
 "C14": ("abstract interpretation (per-leading-index result == single-image operation) + AST call-graph rule for cross-batch collectives",
         "Decides for 0-3 leading axes and D=1..3 that times_group_element, norm, average_pool, to_images and (batch_)get_component give at each leading index exactly the single-image operation on that image (component selection against the documented order: sorted types, channel-major, tensor-minor, per time step), and that no jax.lax collective or named batch axis is used by layers/models except BatchNorm under its use_batch_norm guard.",
         "Trusted: jax.vmap applies its function independently per entry (so per-entry independence of vmapped models reduces to the absence of collectives); BatchNorm is cross-batch by design.", "3/C14"),
 "C19": ("abstract interpretation of the stop methods from one representative of every order type of (loss, best, best-min_delta) x (counter, patience) x value kind, compared with the stated transition function (induction over histories) + control-flow path enumeration / KIND class table as a second, syntactic view + AST role rules on train()",
         "Decides the patience-based conditions as a transition function, semantically (any re-formulation of the method is interpreted, for Python floats, NumPy float32/float64 scalars and JAX scalars alike) and syntactically (strict `loss < best - min_delta` on the monitored argument; on improvement best:=loss, best_model:=model, counter:=0; otherwise counter+=1 only; result counter>patience) and EpochStop (best_model:=model on every path, result epoch>=epochs); since every history is a sequence of such transitions the all-histories quantifier is discharged by induction, with no length bound. KIND decides that no early-exit guard diverts a Python float, NumPy float32/float64 scalar or JAX scalar. train(): roles of the stop() arguments, one epoch increment per iteration, returns stop_condition.best_model.",
         "Trusted: real-number semantics of < on losses (NaN not considered); float()/item() preserve the value; the isinstance class table (float ⊇ {Python float, np.float64}, np.floating ⊇ NumPy float scalars, jax.Array ⊇ JAX scalars). Real training runs are not executed.", "3/C19"),
 "C04": ("abstract interpretation of the repo's AST down to a modelled lax.conv_general_dilated, over a polynomial element domain (result == direct-sum definition as a polynomial identity)",
         "Decides for every swept option combination (5 padding kinds, all 2^D torus-flag patterns for D=2, stride, filter dilation, image dilation, odd/even/non-square filters, several channels and batch entries, tensor orders, D=2,3) that convolve / convolve_contract / convolve_with / average_pool produce exactly the bilinear polynomial of the statement's direct sum with the standard output size; identities of polynomials hold for all real inputs. Even filters with TORUS/SAME/default padding must be rejected.",
         "Trusted: the model of lax.conv_general_dilated (dimension numbers, feature groups, padding, strides, dilations) and jnp.pad(wrap) in ginverif.shims; float32 casts/rounding not modelled; the option box is finite.", "3/C04"),
 "C11": ("abstract interpretation of the repo's AST over a polynomial element domain with symbolic weights, biases and filter bank (output block == defining sum + prescribed bias term; emitted types == reachable targets)",
         "Decides for the swept signatures (several key orders, unequal channel counts), the five documented bias settings, padding modes, stride, dilations, torus flags, banks with a missing filter type and both code paths (individual_convolve via __call__, fast_convolve) that every output block equals the defining sum as a polynomial identity in inputs, weights, biases and filters, and that no reachable requested block is dropped.",
         "Trusted: conv/einsum models; initial random values are irrelevant because parameters are symbols; the signature/option box is finite.", "3/C11"),
 "C10": ("abstract interpretation of the repo's AST with the inner model as an uninterpreted function symbol (wrapper(h.x) == h.wrapper(x) as exact terms; group-average definition; round trips)",
         "Decides for B_2 and four subgroups, all h in G, signatures incl. pseudo-types, that GroupAverage equals (1/|G|) sum_g g^-1.M(g.x) and commutes with every h for an uninterpreted inner model M (hence for every model), and returns the inner result when averaging is off; for Climate1D: from1d(to1d(x)) == x for every insertion order, extents and step counts, the longitude flip becomes the 1-D reflection, get_1d_signature agrees with to1d, and the wrapper commutes with the equator reflection for an uninterpreted 1-D model; ModelWrapper around the identity restores its input.",
         "Trusted: the operators handed to GroupAverage are closed under product (the caller's premise); D=2 groups only; the group action itself is C02.", "3/C10"),
 "C06": ("abstract interpretation of the repo's AST on x and g.x over a polynomial element domain with symbolic parameters and a generic symbolic invariant filter bank (layer(g.x) == g.layer(x) as a polynomial identity)",
         "Decides, as an identity of polynomials in pixels, weights, biases and filter seeds -- hence for every parameter value, initial or trained -- that ConvContract commutes with the generators of B_D (which implies all 8/48 elements) for signatures with unequal channels and pseudo-types, the five bias modes, TORUS/SAME/explicit padding, filter and image dilation, mixed torus flags, D=2,3, and with cyclic shifts on fully toroidal inputs.",
         "Trusted: conv/einsum models; the supplied bank is group-invariant (the generated family is C03's subject); grids are cubic here (non-square transport is C01/C02); the configuration box is finite.", "3/C06"),
 "C01": ("abstract interpretation of the repo's AST on (g.A, g.C) and (A, C) over a polynomial element domain ((g.A)*(g.C) == g.(A*C) as a bilinear polynomial identity; options travel with their axes)",
         "Decides, as an identity of bilinear polynomials in a fully symbolic image and a fully symbolic non-invariant filter -- hence for all real images and filters -- that convolution commutes with the generators of B_D (implying all 8/48 elements) with result type (k+k', p+p'), for toroidal wrap, zero SAME, VALID and symmetric explicit padding incl. even-sided filters, filter dilation, image dilation, all torus-flag patterns and non-square images when flags/dilations/paddings travel with their axes, and with cyclic shifts on wrapped axes; convolve_with declares parity p+p'.",
         "Trusted: conv/pad models; unit stride (as in the statement); the configuration box is finite.", "3/C01"),
 "C05": ("abstract interpretation of the repo's AST on operands and their g-transforms (op(g.a,g.b) == g acting with the declared (k,parity) on op(a,b), as exact terms); induction over expression trees",
         "Decides for every operation of the algebra, operand types k<=3 (D=2) / k<=2 (D=3), both parities and all index choices that the result's declared (k, parity) is exactly how it transforms under the generators of B_D incl. a reflection (so parity bookkeeping errors are visible); since every operation preserves typing, every finite expression is type-sound by induction, without a depth bound. Also decides rejection of mismatched operands, parity mod 2, symmetry of contractions and commutativity of the product up to transposition.",
         "Trusted: einsum/tensordot models; norm = sqrt(sum of squares); the induction step (composition of type-preserving operations).", "3/C05"),
 "C08": ("abstract interpretation of the repo's AST on x and g.x with all learnable parameters symbolised (block(g.x) == g.block(x) as exact terms; eigh modelled up to its signed-permutation covariance; arg-max as order-free selection)",
         "Decides for GroupNorm/LayerNorm (scalar and eigh-whitened vector paths), VectorNeuronNonlinear, MaxNormPool, max_pool, average_pool and unpool, for every accepted type incl. pseudo-scalars/vectors, group counts dividing the channels, default eps, several activations, D=2,3, that the block commutes with the generators of B_D (hence the whole group) as an identity of terms in which every scale, bias and mixing weight is a free symbol -- i.e. for every parameter value -- and that pooling/unpooling commute with shifts by the patch length.",
         "Trusted axioms: A8 (covariance of eigh under signed permutations; degenerate spectra not decided), A10 (arg-max picks the maximal comparator; ties not decided), the definition of eqx.nn.GroupNorm; activations are uninterpreted functions.", "3/C08"),
 "C07": ("abstract interpretation of model constructors and __call__ on x and g.x with symbolised parameters and a generic invariant bank (model(g.x) == g.model(x) as exact terms; large polynomials interned as signed symbols) + EFFECT AST rule",
         "Decides for the swept architecture box (UNet, ResNet, DilResNet, ConvBlock in both activation orders, with/without normalisation, bias modes, activations, signatures incl. pseudo-types, depth, blocks, down-samplings, mixed torus flags, D=2 and a D=3 block/ResNet) that the whole network commutes with the generators of B_D -- every learnable parameter being a free symbol -- and with cyclic shifts (one pixel for ResNets, the pooling factor for the U-Net); EFFECT decides for all of models.py that conventional constructs are control-dependent on `not equivariant`.",
         "Trusted: axioms A8/A10 (C08), conv/einsum models, invariance of the supplied banks (C03); interning of large polynomials is sound for equalities between two runs of the same code; the architecture box is finite.", "3/C07"),
 "C20": ("shape/type-level abstract interpretation of model constructors and __call__ over the constructor box (output signature == requested signature; abstract shape errors) + tracked flatten/unflatten round trip",
         "Decides for the swept constructor box in equivariant and conventional mode (classes, depth, blocks, down-samplings, convolutions per level, normalisation incl. batch norm, bias, activation, kernel size, D=2,3, non-square extents, mixed flags, signatures with several types, pseudo-types and unequal channels) that the output holds exactly the requested types, channel counts and order with the input's spatial shape, D and flags; internal channel/shape inconsistencies surface as abstract errors at the offending statement.",
         "Trusted: shape summaries of eqx.nn.Conv/ConvTranspose/GroupNorm/BatchNorm; banks contain every needed filter type (the 'reachable through present filters' clause is only exercised with complete banks); equivariant group norm is documented as unavailable for k>1.", "3/C20"),
 "C09": ("taint analysis by abstract interpretation (symbols passing through stop_gradient are renamed; no output may depend on an unwrapped filter-bank symbol) + AST who-may-write and train_step/train role rules + a compact set of the parameter-generic equivariance obligations of C06-C08 (all learnable parameters symbolised)",
         "Decides the structural part that makes the guarantee independent of the parameter values: every dependence of a layer or network output on the invariant filter bank passes through jax.lax.stop_gradient (so the bank's gradient is identically zero and an optimiser changes it at most by weight decay's common rescaling), the bank field is written only in ConvContract.__init__, the gradient is taken at and with respect to the model argument, and the model is changed only through optim.update + eqx.apply_updates; together with C06-C08 (equivariance for every value of every other learnable leaf) the returned model is equivariant after any training history.",
         "Trusted: optax/equinox update semantics (leaf values change, structure and static fields do not; weight decay is a common rescaling); zero-gradient leaves are not moved otherwise. No training run is executed.", "3/C09"),
 "C03": ("exact partial evaluation of the data-free generator in the abstract interpreter (rational arithmetic) + exact linear algebra on the amplitude matrix (invariance, rank, character-formula dimension) + AST/CF rules on the rescaling tail, the pass-through wrappers and memoisation keys (CACHE)",
         "Decides exactly, for B_D, the rotation subgroup, the axis-flip group, C4 and the trivial group, D=2,3, odd and even M, k up to 4 (thorough), both parities, that the rows that become filters are each fixed by every group element, linearly independent over Q, and as many as the dimension of the fixed subspace given by the character formula -- hence a basis of the invariant filters; AST rules decide that the remainder of the function and normalize/rectify only rescale by non-zero factors or permute, that filters carry the function's parity and D, that the wrappers drop nothing, and (CACHE) that every memoisation key in the generator and symbol modules determines the memoised result, so a second call with another group/size cannot receive a stale family.",
         "Trusted: the real float32 run reproduces the exact small-integer group average and np.unique separates exactly equal rows; callers pass a group. The generator has no data input, so its exact evaluation over the configuration box is a decision for those instances, not a sample of a continuous quantifier.", "3/C03"),
}

NA_REASON = "check not built yet in this session (build in progress); see DESIGN.md section 3 for the planned static rule"

def main():
    checks = []
    na = []
    for p in props:
        pid = p["id"]
        if pid in CLAIMS and os.path.isfile(os.path.join(HERE, "ginverif", "rules", pid.lower() + ".py")):
            tech, text, note, ref = CLAIMS[pid]
            checks.append({
                "property_id": pid,
                "quick_cmd": "./check %s --tier quick" % pid,
                "thorough_cmd": "./check %s --tier thorough" % pid,
                "evidence_file": "/verif/evidence/%s.json" % pid,
                "replay_cmd_template": "./check %s --replay {path}" % pid,
                "engine": "ginverif",
                "level_claimed": {"category": "other", "text": text, "design_ref": "DESIGN.md " + ref},
                "level_note": note,
                "technique": tech,
            })
        else:
            na.append({"property_id": pid, "reason": NA.get(pid, NA_REASON)})
    m = {
        "version": 1,
        "setup_cmd": "/venv/bin/python -I -c \"import compileall,sys; sys.exit(0 if compileall.compile_dir('ginverif', quiet=1) else 1)\"",
        "hooks": {"guard": "GINJAX_VERIF", "enable": "none needed: every check is a static analysis of /repo's working tree; no instrumentation exists in /repo", "baseline_off_cmd": "cd /repo && /venv/bin/python -m pytest -ra -q -p no:cacheprovider --timeout=900 --continue-on-collection-errors", "source_commits": [], "add_only": True},
        "engines": [
            {"name": "ginverif", "path": "/verif/ginverif", "serves_properties": [c["property_id"] for c in checks], "kind_free_text": "stdlib-only static analyser: program model + AST rule engines + abstract interpreter (AXI) over the repository's own ASTs with symbolic arrays; never imports jax/numpy/ginjax"}
        ],
        "checks": checks,
        "not_applicable": na,
        "notes": "All checks parse /repo's working tree on every run; exit 0 = held, 1 = VIOLATION, 2 = ANALYSIS-ERROR (cannot decide; never a verdict). Genuine defects found and repaired are listed in KNOWN_FINDINGS.json as fixed entries.",
    }
    json.dump(m, open(os.path.join(HERE, "MANIFEST.json"), "w"), indent=1)
    print("claimed:", [c["property_id"] for c in checks], "n/a:", len(na))

NA = {}

if __name__ == "__main__":
    main()
