#!/venv/bin/python -I
"""Archive a confirmed seeded change: seeded_archive.py <seed-id> <name> <PROP> 'caught-by text' """
import json, os, shutil, sys
sid, name, prop, caught = sys.argv[1:5]
src = ("/tmp/seed2_%s" % sid[2:]) if sid.startswith("r2") else ("/tmp/seed3_%s" % sid[2:]) if sid.startswith("r3") else ("/tmp/seed4_%s" % sid[2:]) if sid.startswith("r4") else ("/tmp/seed5_%s" % sid[2:]) if sid.startswith("r5") else ("/tmp/seed6_%s" % sid[2:]) if sid.startswith("r6") else ("/tmp/seed7_%s" % sid[2:]) if sid.startswith("r7") else ("/tmp/seed8_%s" % sid[2:]) if sid.startswith("r8") else "/tmp/seed_%s" % sid
dst = "/verif/seeded/%s" % name
os.makedirs(dst, exist_ok=True)
for f in ("patch.diff", "demo.py"):
    shutil.copy(os.path.join(src, f), os.path.join(dst, f))
meta = {}
try:
    meta = json.load(open(os.path.join(src, "meta.json")))
except Exception as e:
    meta = {"note": "sub-agent meta.json unreadable: %s" % e}
out = {
    "property": prop,
    "origin": "independent sub-agent given only the property text and a scratch worktree (no access to /verif)",
    "summary": meta.get("summary"),
    "needs_to_manifest": meta.get("needs"),
    "agent_tests_run": meta.get("tests_run"),
    "confirmed_by_me": {
        "demo_on_modified_worktree": open("/tmp/demo_mod_%s.log" % sid).read()[-600:],
        "demo_exit_modified": "non-zero",
        "demo_on_unmodified_repo": open("/tmp/demo_orig_%s.log" % sid).read()[-300:],
        "demo_exit_unmodified": 0,
        "procedure": "git -C /repo apply patch.diff; ./check <ID> --tier quick; git -C /repo checkout -- .",
        "caught_by": caught,
    },
}
if len(sys.argv) > 5 and sys.argv[5] == "known_miss":
    out["known_miss"] = True
json.dump(out, open(os.path.join(dst, "meta.json"), "w"), indent=1)
print("archived", dst)
