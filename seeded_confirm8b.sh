#!/bin/bash
# round 8, phase B (serial): apply the patch to /repo, run the quick checks named, undo.
id=$1; shift
sd=/tmp/seed8_$id
git -C /repo apply $sd/patch.diff || { echo "PATCH DOES NOT APPLY"; exit 1; }
for p in "$@"; do
  GINVERIF_NO_EVIDENCE=1 GINVERIF_REPLAY_DIR=/tmp/seedreplay /verif/check $p --tier quick > /tmp/seedcheck_r8${id}_$p.log 2>&1; echo "$id: $p exit=$? $(grep -m1 '^  \|ANALYSIS' /tmp/seedcheck_r8${id}_$p.log | cut -c1-260)"
done
git -C /repo checkout -- . ; git -C /repo status --short | head -3
