#!/bin/bash
# like seeded_confirm.sh but for round 7 (seed dir /tmp/seed7_<id>)
id=$1; prop=$2; shift 2
sd=/tmp/seed7_$id; cw=/tmp/cw7_$id
git -C /repo worktree remove --force $cw 2>/dev/null
git -C /repo worktree add -q $cw HEAD || exit 1
git -C $cw apply $sd/patch.diff || { echo "PATCH DOES NOT APPLY"; git -C /repo worktree remove --force $cw; exit 1; }
echo "== demo with the patch (expect non-zero)"
(cd $cw && JAX_PLATFORMS=cpu PYTHONPATH=$cw/src timeout 2400 /venv/bin/python $sd/demo.py > /tmp/demo_mod_r7$id.log 2>&1; echo "exit=$?")
git -C /repo worktree remove --force $cw
echo "== demo on /repo (expect 0)"
(cd /repo && JAX_PLATFORMS=cpu PYTHONPATH=/repo/src timeout 2400 /venv/bin/python $sd/demo.py > /tmp/demo_orig_r7$id.log 2>&1; echo "exit=$?")
git -C /repo apply $sd/patch.diff || { echo "PATCH DOES NOT APPLY"; exit 1; }
for p in $prop "$@"; do
  GINVERIF_NO_EVIDENCE=1 GINVERIF_REPLAY_DIR=/tmp/seedreplay /verif/check $p --tier quick > /tmp/seedcheck_r7${id}_$p.log 2>&1; echo "$p exit=$? $(grep -m1 '^  \|ANALYSIS' /tmp/seedcheck_r7${id}_$p.log | cut -c1-250)"
done
git -C /repo checkout -- . ; git -C /repo status --short | head -3
