#!/venv/bin/python -I
"""Union of the branch self-audit over all evidence files: if-tests of interpreted repository functions that no
property's sweep sees with both outcomes.  Usage: tools_branch_audit.py [evidence-dir]"""
import glob
import json
import os
import re
import sys

d = sys.argv[1] if len(sys.argv) > 1 else os.path.join(os.path.dirname(os.path.abspath(__file__)), "evidence")
state = {}
for f in sorted(glob.glob(os.path.join(d, "C*.json"))):
    cov = json.load(open(f))["coverage"].get("branch_coverage", {})
    pid = os.path.basename(f)[:-5]
    for s in cov.get("one_sided", []):
        m = re.match(r"(.*?): `(.*)` only (true|false)$", s)
        k = (m.group(1), m.group(2))
        state.setdefault(k, set()).add(m.group(3))
    for s in cov.get("unreached", []):
        m = re.match(r"(.*?): `(.*)`$", s)
        state.setdefault((m.group(1), m.group(2)), set())
# a test seen both ways by some property does not appear in that property's lists; detect by absence
both = set()
for f in sorted(glob.glob(os.path.join(d, "C*.json"))):
    cov = json.load(open(f))["coverage"].get("branch_coverage", {})
    listed = set()
    for s in cov.get("one_sided", []) + cov.get("unreached", []):
        m = re.match(r"(.*?): `(.*?)`", s)
        listed.add((m.group(1), m.group(2)))
    interp = set(json.load(open(f))["coverage"].get("functions_interpreted", []))
    for k in list(state):
        fn = k[0].split(" ", 1)[1]
        if k not in listed and any(n.endswith(fn) for n in interp):
            both.add(k)
n = 0
for k in sorted(state):
    if k in both or state[k] == {"true", "false"}:
        continue
    n += 1
    print("%-95s `%s` %s" % (k[0], k[1], ("only " + "/".join(sorted(state[k]))) if state[k] else "never reached"))
print("%d if-tests are not seen with both outcomes by any property's sweep" % n)
