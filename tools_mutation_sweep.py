#!/venv/bin/python -I
"""Systematic mutation sweep (a self-audit of the checks' detection power, not a check).

Generates first-order AST mutants (comparison boundaries and negations, arithmetic operators, small integer
constants +-1, boolean flips, and/or, dropped `not` / unary minus, deleted expression statements) inside every
function of /repo/src/ginjax that some property's evidence lists as interpreted or analysed, writes each into a
scratch copy of src/ and runs the quick checks of the properties that cover the function (cheapest first)
until one reports a violation.

Outcome per mutant: killed (exit 1 by some property), undecided (only exit 2), survived (all exit 0).
Survivors are either equivalent mutants, code outside every property's statement, or gaps in the swept boxes;
they are written to the output file for triage.

Usage: tools_mutation_sweep.py [--jobs N] [--only <substring of function name>] [--limit N] [--out FILE]
"""
import ast
import copy
import glob
import json
import os
import shutil
import subprocess
import sys
import tempfile
from concurrent.futures import ThreadPoolExecutor

HERE = os.path.dirname(os.path.abspath(__file__))
SRC = "/repo/src"
COST = {"C01": 2.8, "C02": 4.5, "C03": 11.5, "C04": 6.7, "C05": 2.5, "C06": 7.0, "C07": 21.7, "C08": 3.2, "C09": 3.9, "C10": 2.4, "C11": 6.6, "C12": 0.9, "C13": 1.0, "C14": 1.0, "C15": 1.9, "C16": 1.8, "C17": 2.6, "C18": 1.4, "C19": 1.0, "C20": 5.8}

MAX_OWNERS = 4

CMP = {ast.Lt: ast.LtE, ast.LtE: ast.Lt, ast.Gt: ast.GtE, ast.GtE: ast.Gt, ast.Eq: ast.NotEq, ast.NotEq: ast.Eq, ast.Is: ast.IsNot, ast.IsNot: ast.Is, ast.In: ast.NotIn, ast.NotIn: ast.In}
BIN = {ast.Add: [ast.Sub], ast.Sub: [ast.Add], ast.Mult: [ast.Add, ast.Pow], ast.Pow: [ast.Mult], ast.Mod: [ast.Mult], ast.FloorDiv: [ast.Mult], ast.Div: [ast.Mult]}


OPS = "A"  # "A": operators / constants / statements; "B": paired-name swaps, einsum specs, moveaxis arguments
PAIRS = [("in_", "out_"), ("past", "future"), ("train", "val"), ("_a", "_b"), ("_x", "_y"), ("idx1", "idx2"), ("first", "last"), ("lhs", "rhs"), ("input", "output"), ("input", "target")]


def partner(name):
    for a, b in PAIRS:
        for x, y in ((a, b), (b, a)):
            if x.startswith("_"):
                if name.endswith(x):
                    return name[: -len(x)] + y
            elif x in name:
                return name.replace(x, y, 1)
    return None


def einsum_mutations(spec):
    out = []
    if "->" in spec:
        lhs, rhs = spec.split("->")
        letters = [i for i, ch in enumerate(rhs) if ch.isalpha()]
        if len(letters) >= 2:
            r = list(rhs)
            i, j = letters[-2], letters[-1]
            r[i], r[j] = r[j], r[i]
            out.append(lhs + "->" + "".join(r))
        ops = lhs.split(",")
        l0 = [i for i, ch in enumerate(ops[0]) if ch.isalpha()]
        if len(l0) >= 2:
            o = list(ops[0])
            i, j = l0[0], l0[1]
            o[i], o[j] = o[j], o[i]
            out.append(",".join(["".join(o)] + ops[1:]) + "->" + rhs)
    return [x for x in out if x != spec]


def owners():
    own = {}
    for f in sorted(glob.glob(os.path.join(HERE, "evidence", "C*.json"))):
        d = json.load(open(f))
        cov = d["coverage"]
        for n in list(cov.get("functions_interpreted", [])) + list(cov.get("functions_analysed", [])):
            own.setdefault(n, set()).add(d["property_id"])
    return own


def module_name(path):
    rel = os.path.relpath(path, SRC)[:-3].replace(os.sep, ".")
    return rel[:-9] if rel.endswith(".__init__") else rel


class Gen(object):
    """Enumerates mutation points of one module; apply(i) returns the mutated source."""

    def __init__(self, path, own):
        self.path = path
        self.src = open(path).read()
        self.tree = ast.parse(self.src)
        self.mod = module_name(path)
        self.points = []  # (qualname, props, description, applier)
        self._walk_defs(self.tree.body, "", own)

    def _walk_defs(self, body, prefix, own):
        for st in body:
            if isinstance(st, ast.ClassDef):
                self._walk_defs(st.body, prefix + st.name + ".", own)
            elif isinstance(st, (ast.FunctionDef, ast.AsyncFunctionDef)):
                q = prefix + st.name
                props = set()
                for n, ps in own.items():
                    if n == self.mod + "." + q or n.startswith(self.mod + "." + q + "."):
                        props |= ps
                if props:
                    self._points_in(st, q, props)

    def _points_in(self, fn, q, props):
        skip = set()
        for a in ast.walk(fn):
            # annotations, docstrings, f-strings, raise / assert messages, decorators
            if isinstance(a, ast.arg) and a.annotation is not None:
                skip.update(id(x) for x in ast.walk(a.annotation))
            if isinstance(a, (ast.FunctionDef, ast.AsyncFunctionDef)):
                if a.returns is not None:
                    skip.update(id(x) for x in ast.walk(a.returns))
                for d in a.decorator_list:
                    skip.update(id(x) for x in ast.walk(d))
                if a.body and isinstance(a.body[0], ast.Expr) and isinstance(a.body[0].value, ast.Constant) and isinstance(a.body[0].value.value, str):
                    skip.add(id(a.body[0]))
                    skip.add(id(a.body[0].value))
            if isinstance(a, ast.AnnAssign):
                skip.update(id(x) for x in ast.walk(a.annotation))
            if isinstance(a, ast.JoinedStr):
                skip.update(id(x) for x in ast.walk(a))
            if isinstance(a, ast.Raise):
                skip.update(id(x) for x in ast.walk(a))
            if isinstance(a, ast.Assert) and a.msg is not None:
                skip.update(id(x) for x in ast.walk(a.msg))
            if isinstance(a, ast.Call) and isinstance(a.func, ast.Name) and a.func.id == "print":
                skip.update(id(x) for x in ast.walk(a))
        in_assert = set()
        for a in ast.walk(fn):
            if isinstance(a, ast.Assert):
                in_assert.update(id(x) for x in ast.walk(a))

        in_default = set()
        for a in ast.walk(fn):
            if isinstance(a, (ast.FunctionDef, ast.AsyncFunctionDef, ast.Lambda)):
                for dnode in list(a.args.defaults) + [d for d in a.args.kw_defaults if d is not None]:
                    in_default.update(id(x) for x in ast.walk(dnode))

        def add(node, desc, f):
            tag = " [in assert]" if id(node) in in_assert else (" [default argument]" if id(node) in in_default else "")
            self.points.append((q, props, "%s:%d %s%s" % (os.path.relpath(self.path, SRC), getattr(node, "lineno", 0), desc, tag), node, f))

        local_names = {a.id for a in ast.walk(fn) if isinstance(a, ast.Name)} | {a.arg for a in ast.walk(fn) if isinstance(a, ast.arg)}
        einsum_specs = set()
        for a in ast.walk(fn):
            if isinstance(a, ast.Call) and isinstance(a.func, ast.Attribute) and a.func.attr == "einsum" and a.args and isinstance(a.args[0], ast.Constant) and isinstance(a.args[0].value, str):
                einsum_specs.add(id(a.args[0]))
        for n in ast.walk(fn):
            if id(n) in skip:
                continue
            if OPS == "B" and isinstance(n, (ast.Compare, ast.BinOp, ast.BoolOp, ast.UnaryOp, ast.Expr)):
                continue
            if OPS == "B" and isinstance(n, ast.Constant) and not isinstance(n.value, str):
                continue
            if isinstance(n, ast.Compare) and len(n.ops) == 1 and type(n.ops[0]) in CMP:
                new = CMP[type(n.ops[0])]
                add(n, "`%s` -> %s" % (ast.unparse(n)[:60], new.__name__), lambda m, new=new: setattr(m, "ops", [new()]))
            elif isinstance(n, ast.BinOp) and type(n.op) in BIN:
                for new in BIN[type(n.op)]:
                    add(n, "`%s` -> %s" % (ast.unparse(n)[:60], new.__name__), lambda m, new=new: setattr(m, "op", new()))
            elif isinstance(n, ast.Constant) and isinstance(n.value, bool):
                add(n, "constant %r flipped" % n.value, lambda m: setattr(m, "value", not m.value))
            elif isinstance(n, ast.Constant) and isinstance(n.value, int) and -10 <= n.value <= 10:
                for dv in (1, -1):
                    add(n, "constant %d -> %d" % (n.value, n.value + dv), lambda m, dv=dv: setattr(m, "value", m.value + dv))
            elif isinstance(n, ast.BoolOp):
                new = ast.Or if isinstance(n.op, ast.And) else ast.And
                add(n, "`%s` -> %s" % (ast.unparse(n)[:60], new.__name__), lambda m, new=new: setattr(m, "op", new()))
            elif isinstance(n, ast.UnaryOp) and isinstance(n.op, (ast.Not, ast.USub)):
                add(n, "`%s` operator dropped" % ast.unparse(n)[:60], lambda m: setattr(m, "op", ast.UAdd()) if isinstance(m.op, ast.USub) else setattr(m, "__drop_not__", True))
            elif OPS == "B" and isinstance(n, ast.Name) and isinstance(n.ctx, ast.Load) and partner(n.id) in local_names:
                add(n, "name `%s` -> `%s`" % (n.id, partner(n.id)), lambda m: setattr(m, "id", partner(m.id)))
            elif OPS == "B" and isinstance(n, ast.Constant) and isinstance(n.value, str) and id(n) in einsum_specs:
                for new in einsum_mutations(n.value):
                    add(n, "einsum spec %r -> %r" % (n.value, new), lambda m, new=new: setattr(m, "value", new))
            elif OPS == "B" and isinstance(n, ast.Call) and isinstance(n.func, ast.Attribute) and n.func.attr in ("moveaxis", "swapaxes") and len(n.args) == 3:
                add(n, "`%s` source/destination swapped" % ast.unparse(n)[:60], lambda m: m.args.__setitem__(slice(1, 3), [m.args[2], m.args[1]]))
            elif isinstance(n, ast.Expr) and isinstance(n.value, ast.Call):
                add(n, "statement `%s` deleted" % ast.unparse(n)[:60], lambda m: setattr(m, "value", ast.Constant(value=None)))

    def apply(self, i):
        q, props, desc, node, f = self.points[i]
        # locate the node in a deep copy by walking both trees in parallel
        tree2 = copy.deepcopy(self.tree)
        target = None
        for a, b in zip(ast.walk(self.tree), ast.walk(tree2)):
            if a is node:
                target = b
                break
        f(target)
        if getattr(target, "__drop_not__", False):
            # replace `not x` by `x`: rewrite via a transformer
            class T(ast.NodeTransformer):
                def visit_UnaryOp(self, m):
                    self.generic_visit(m)
                    return m.operand if m is target else m

            tree2 = T().visit(tree2)
        ast.fix_missing_locations(tree2)
        return ast.unparse(tree2)


def run_mutant(job):
    idx, path, q, props, desc, source, jobs_per_check = job
    tmp = tempfile.mkdtemp(prefix="ginverif_sweep_")
    try:
        shutil.copytree(SRC, os.path.join(tmp, "src"))
        open(os.path.join(tmp, os.path.relpath(path, "/repo")), "w").write(source)
        env = dict(os.environ)
        env["GINVERIF_NO_EVIDENCE"] = "1"
        env["GINVERIF_REPLAY_DIR"] = os.path.join(tmp, "replay")
        undecided = []
        ran = []
        order = sorted(props, key=lambda p: COST.get(p, 5))
        if MAX_OWNERS == 99 and len(order) > 1:
            rest = [p for p in order if p != "C07"]
            order = rest if any(p in rest for p in ("C09", "C20")) or not set(order) <= {"C07", "C09", "C20"} else order
        if len(order) > MAX_OWNERS:
            # the cheapest owners decide; the whole-model properties (C07, C09, C20) re-run the layer-level
            # obligations at a much higher price and are only consulted for code that nothing else covers
            order = [p for p in order if p not in ("C07", "C09", "C20")][:MAX_OWNERS] or order[:MAX_OWNERS]
        for p in order:
            r = subprocess.run([os.path.join(HERE, "check"), p, "--repo", tmp, "--tier", "quick", "--jobs", str(jobs_per_check)], capture_output=True, text=True, env=env, cwd=HERE)
            ran.append(p)
            if r.returncode == 1:
                first = [l for l in r.stdout.splitlines() if l.startswith("  ")][:1]
                rule = first[0].split("  ")[3] if first and len(first[0].split("  ")) > 3 else "?"
                return dict(i=idx, fn=q, desc=desc, status="killed", by=p, rule=rule.strip()[:60], ran=ran)
            if r.returncode == 2:
                undecided.append(p)
        return dict(i=idx, fn=q, desc=desc, status="undecided" if undecided else "survived", by=None, undecided=undecided, ran=ran)
    finally:
        shutil.rmtree(tmp, ignore_errors=True)


def main(argv):
    jobs, only, limit, out, jpc, recheck = 8, None, None, os.path.join(HERE, "sweep_results", "selftest_sweep.json"), 2, None
    i = 0
    while i < len(argv):
        if argv[i] == "--jobs":
            jobs = int(argv[i + 1]); i += 2
        elif argv[i] == "--only":
            only = argv[i + 1]; i += 2
        elif argv[i] == "--limit":
            limit = int(argv[i + 1]); i += 2
        elif argv[i] == "--out":
            out = argv[i + 1]; i += 2
        elif argv[i] == "--ops":
            global OPS
            OPS = argv[i + 1]; i += 2
        elif argv[i] == "--recheck":
            recheck = argv[i + 1]; i += 2
        elif argv[i] == "--check-jobs":
            jpc = int(argv[i + 1]); i += 2
        else:
            raise SystemExit("unknown argument %s" % argv[i])
    own = owners()
    work = []
    for path in sorted(glob.glob(os.path.join(SRC, "ginjax", "**", "*.py"), recursive=True)):
        g = Gen(path, own)
        for k, (q, props, desc, node, f) in enumerate(g.points):
            if only and only not in (g.mod + "." + q):
                continue
            try:
                source = g.apply(k)
                ast.parse(source)
            except Exception as e:
                continue
            work.append((len(work), path, g.mod + "." + q, props, desc, source, jpc))
    if limit:
        step = max(1, len(work) // limit)
        work = work[::step]
    if recheck:
        # second pass: the mutants the capped first pass did not kill, against every owner (C07 only when it is
        # the sole whole-model owner left)
        prev = [json.loads(l) for l in open(recheck)]
        todo = {r["i"] for r in prev if r["status"] != "killed"}
        global MAX_OWNERS
        MAX_OWNERS = 99
        work = [w for w in work if w[0] in todo]
    print("mutants: %d" % len(work), flush=True)
    res = []
    with ThreadPoolExecutor(jobs) as ex:
        for n, r in enumerate(ex.map(run_mutant, work)):
            res.append(r)
            with open(out + "l", "a") as fh:
                fh.write(json.dumps(r) + "\n")
            if r["status"] != "killed":
                print("%-9s %s  %s  (ran %s)" % (r["status"].upper(), r["fn"], r["desc"], ",".join(r["ran"])), flush=True)
            if (n + 1) % 100 == 0:
                print("... %d/%d done, %d killed" % (n + 1, len(work), sum(1 for x in res if x["status"] == "killed")), flush=True)
    summary = {s: sum(1 for x in res if x["status"] == s) for s in ("killed", "undecided", "survived")}
    print("summary: %s" % summary)
    json.dump(dict(summary=summary, results=res), open(out, "w"), indent=1)
    return 0


if __name__ == "__main__":
    sys.exit(main(sys.argv[1:]))
