"""PURITY: the operations the properties speak about are functions of their arguments.

Every property is stated as "for every input ... the result is ...": the operands are values.  An operation that
changes an object it was handed *in place* (re-binds an attribute of an input image, inserts into / reorders the
block dict of an input multi-image, appends to an input list) makes every later use of that operand wrong -- a
multi-step failure (`c = a + b; d = a - b`) that no single-call comparison can see, because the result of the first
call is right.

How it is decided.  The abstract interpreter snapshots the mutable state reachable from the arguments of every call the
*harness* makes into the repository (an empty interpreter stack: the public API under analysis, never an internal
helper working on its own fresh locals) and compares after the call.  A change is a finding unless the callee is in
the contract table below: methods whose documented purpose is to update their receiver.  The table is frozen from the
delivered tree (each entry confirmed by reading the method and its docstring); it names methods, not call sites.

A refactoring that moves work into helpers, builds results incrementally in fresh objects, or mutates locals is
invisible to this rule (only objects that existed before the call and were handed in are watched).
"""

from .report import Finding

# (class-qualified method name) -> why mutation of the receiver (first argument) is its contract
RECEIVER_MUTATORS = {
    "__init__": "constructor fills its own object",
    "__post_init__": "constructor fills its own object",
    "__setitem__": "item assignment is an in-place update by definition",
    "MultiImage.append": "documented: appends a block to this multi-image (and returns it)",
    "MultiImage.__setitem__": "item assignment",
    "GeometricImage.__setitem__": "item assignment",
    "StopCondition.stop": "the stopping conditions are state machines: stop() records best loss / counter",
    "EpochStop.stop": "state machine",
    "TrainLoss.stop": "state machine",
    "ValLoss.stop": "state machine",
}

# functions that may change a named argument other than a receiver: qualname -> {argument: reason}
ARGUMENT_MUTATORS = {
    "train": {"stop_condition": "train() drives the stopping condition it was given by calling its stop() once per epoch (C19's state machine)"},
}


def _allowed(qual, what):
    name = qual.split(".")[-1]
    if qual in RECEIVER_MUTATORS or name in ("__init__", "__post_init__", "__setitem__"):
        # only the receiver may change
        return what.startswith("self")
    root = what.split(" ")[0].split(".")[0].split("[")[0]
    return root in ARGUMENT_MUTATORS.get(qual, {})


def apply(ctx):
    from . import engine

    events = set(ctx.mutations)
    for it, _w in engine._CACHE.values():
        events.update(it.mutations)
    ctx.ev.extra["purity"] = {
        "rule": "PURITY: no in-place change to the arguments of an API call made by an obligation, except receivers of the methods in the contract table",
        "contract_table": sorted(RECEIVER_MUTATORS),
        "in_place_changes_seen": sorted("%s.%s: %s" % (m, q, w) for m, q, w, _p, _l in events),
    }
    seen = set()
    for mod, qual, what, path, line in sorted(events, key=repr):
        if _allowed(qual, what):
            continue
        root = what.split(" ")[0].split(".")[0].split("[")[0]
        key = (qual, root)
        if key in seen:
            continue
        seen.add(key)
        ctx.add(Finding(ctx.prop, "%s.PURITY.input-mutated" % ctx.prop, qual, "the call changes the object it was handed in place: %s -- the properties are stated for operations on values; any later use of that operand sees the altered object" % what, path, line, None, "argument:%s" % root))
