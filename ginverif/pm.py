"""Program model: the repository's modules as ASTs with resolved names (stdlib only)."""

import ast
import os

from .report import AnalysisError


class Repo(object):
    def __init__(self, root, src_rel="src", package="ginjax"):
        self.root = root
        self.src = os.path.join(root, src_rel)
        self.package = package
        self.mods = {}  # dotted name -> (path, tree)
        self._aliases = {}
        self._load()

    def _load(self):
        base = os.path.join(self.src, self.package)
        if not os.path.isdir(base):
            raise AnalysisError("package directory %s not found" % base)
        for dirpath, dirnames, filenames in os.walk(base):
            dirnames[:] = [d for d in dirnames if not d.startswith(".") and d != "__pycache__"]
            for fn in sorted(filenames):
                if not fn.endswith(".py"):
                    continue
                path = os.path.join(dirpath, fn)
                rel = os.path.relpath(path, self.src)[:-3].replace(os.sep, ".")
                if rel.endswith(".__init__"):
                    rel = rel[: -len(".__init__")]
                with open(path) as f:
                    src = f.read()
                try:
                    tree = ast.parse(src, filename=path)
                except SyntaxError as e:
                    raise AnalysisError("cannot parse %s: %s" % (path, e))
                self.mods[rel] = (path, tree, src)

    # ------------------------------------------------------------------ lookup
    def module(self, name):
        if name not in self.mods:
            raise AnalysisError("anchor module %s not found" % name)
        return self.mods[name][1]

    def path(self, name):
        return self.mods[name][0]

    def source(self, name):
        return self.mods[name][2]

    def is_pkg(self, name):
        return self.mods[name][0].endswith("__init__.py")

    def func(self, modname, qualname, required=True):
        """qualname: 'f' or 'Class.method'."""
        tree = self.module(modname)
        parts = qualname.split(".")
        body = tree.body
        node = None
        for i, p in enumerate(parts):
            node = None
            for st in body:
                if isinstance(st, (ast.FunctionDef, ast.ClassDef)) and st.name == p:
                    node = st
            if node is None:
                if required:
                    raise AnalysisError("anchor %s.%s not found (looked for %r)" % (modname, qualname, p))
                return None
            body = node.body
        return node

    def cls(self, modname, name, required=True):
        n = self.func(modname, name, required)
        if n is not None and not isinstance(n, ast.ClassDef):
            raise AnalysisError("anchor %s.%s is not a class" % (modname, name))
        return n

    def functions(self, modname):
        """Yield (qualname, node) for all functions / methods of a module (one nesting level of classes)."""
        tree = self.module(modname)
        for st in tree.body:
            if isinstance(st, ast.FunctionDef):
                yield st.name, st
            elif isinstance(st, ast.ClassDef):
                for s2 in st.body:
                    if isinstance(s2, ast.FunctionDef):
                        yield st.name + "." + s2.name, s2

    # ------------------------------------------------------------------ name resolution
    def aliases(self, modname):
        """local name -> dotted target for imports of a module."""
        if modname in self._aliases:
            return self._aliases[modname]
        tree = self.module(modname)
        out = {}
        for st in ast.walk(tree):
            if isinstance(st, ast.Import):
                for al in st.names:
                    if al.asname:
                        out[al.asname] = al.name
                    else:
                        out[al.name.split(".")[0]] = al.name.split(".")[0]
            elif isinstance(st, ast.ImportFrom):
                base = st.module or ""
                if st.level:
                    parts = modname.split(".")
                    if not self.is_pkg(modname):
                        parts = parts[:-1]
                    if st.level > 1:
                        parts = parts[: -(st.level - 1)]
                    base = ".".join(parts + ([base] if base else []))
                for al in st.names:
                    out[al.asname or al.name] = base + "." + al.name
        self._aliases[modname] = out
        return out

    def canonical(self, dotted):
        """Follow re-exports: 'ginjax.geometric.convolve' -> 'ginjax.geometric.functional_geometric_image.convolve'."""
        seen = set()
        while dotted not in seen:
            seen.add(dotted)
            parts = dotted.split(".")
            moved = False
            for i in range(len(parts) - 1, 0, -1):
                mod = ".".join(parts[:i])
                if mod in self.mods:
                    al = self.aliases(mod)
                    head = parts[i]
                    if head in al and not self._defines(mod, head):
                        dotted = ".".join([al[head]] + parts[i + 1:])
                        moved = True
                    break
            if not moved:
                break
        return dotted

    def _defines(self, mod, name):
        for st in self.module(mod).body:
            if isinstance(st, (ast.FunctionDef, ast.ClassDef)) and st.name == name:
                return True
            if isinstance(st, ast.Assign):
                for t in st.targets:
                    if isinstance(t, ast.Name) and t.id == name:
                        return True
        return False

    def resolve(self, modname, node, local_names=()):
        """Dotted canonical name of a Name / Attribute chain, or None if it starts at a local."""
        chain = []
        n = node
        while isinstance(n, ast.Attribute):
            chain.append(n.attr)
            n = n.value
        if not isinstance(n, ast.Name):
            return None
        if n.id in local_names:
            return None
        chain.append(n.id)
        chain.reverse()
        al = self.aliases(modname)
        head = chain[0]
        if head in al:
            dotted = ".".join([al[head]] + chain[1:])
        elif self._defines(modname, head):
            dotted = ".".join([modname] + chain)
        else:
            dotted = ".".join(chain)
        return self.canonical(dotted)


def dotted(node):
    """Textual dotted name of a Name/Attribute chain (no resolution) or None."""
    chain = []
    n = node
    while isinstance(n, ast.Attribute):
        chain.append(n.attr)
        n = n.value
    if isinstance(n, ast.Name):
        chain.append(n.id)
        return ".".join(reversed(chain))
    return None


def norm_text(node):
    """Normalised statement text used to key findings (insensitive to formatting)."""
    try:
        return ast.unparse(node)
    except Exception:
        return "<?>"
