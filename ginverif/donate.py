"""DONATE: a value that is kept by reference must not be handed to a buffer-donating compiled function.

`jax.jit(..., donate_argnums / donate_argnames)`, `jax.pmap(..., donate_argnums)` and `eqx.filter_jit(donate="all" |
"all-except-first" | ...)` let XLA reuse the buffers of the donated arguments: after the call every array reachable from
them is *deleted* and any other reference to the same arrays is unusable.  C19 says the stopping conditions hand back
"the model from the epoch that achieved the best loss": `stop()` keeps that model by reference (`self.best_model =
model`), and the training loop goes on stepping from the same object.  If the step donates the model it was handed, the
first step after a best epoch destroys the kept model -- visible only when training stops *later* than the best epoch
and the returned model is then used.

Rule (AST + call graph over resolved names, nothing executed).
  retain   a function stores one of its parameters, by bare name, in an attribute of another parameter
           (`self.best_model = model`) -- a reference, not a copy;
  source   in a caller, a local name is passed at that parameter's position (`stop_condition.stop(model, ...)`, or an
           attribute store `stop_condition.best_model = model`) -- from here on the local is "kept by reference";
  flow     the same local (until re-bound) is passed to a repository function; the corresponding parameter is kept too
           (followed through the call graph, depth-bounded);
  sink     a kept name is passed at a donated position of a donating compiled function (decorator or wrapper form).
A finding needs all of retain + source + sink on resolved names, so a stop condition that stores a copy
(`jax.tree_util.tree_map(jnp.copy, model)`), a loop that hands `stop()` a copy, or a donation of anything else
(optimizer state, batches) is silent.  A built-in positive example keeps the rule from passing vacuously.
"""

import ast

from .pm import Repo
from .report import AnalysisError, Finding

JITS = {"jax.jit", "jax.pmap", "equinox.filter_jit", "equinox.filter_pmap", "jax.pjit", "jax.experimental.pjit.pjit"}
PARTIALS = {"functools.partial"}


def _params(fn):
    a = fn.args
    return [x.arg for x in list(a.posonlyargs) + list(a.args)]


def _donation_of_call(pm, mod, call, local_names=()):
    """If `call` is jit(...)/filter_jit(...)/partial(jit, ...) with a donation request: (spec dict, wrapped-function node or None)."""
    if not isinstance(call, ast.Call):
        return None
    r = pm.resolve(mod, call.func, local_names=local_names)
    args = list(call.args)
    if r in PARTIALS and args:
        r = pm.resolve(mod, args[0], local_names=local_names)
        args = args[1:]
    if r not in JITS:
        return None
    spec = {}
    for kw in call.keywords:
        if kw.arg in ("donate_argnums", "donate_argnames", "donate"):
            try:
                spec[kw.arg] = ast.literal_eval(kw.value)
            except Exception:
                spec[kw.arg] = "<non-literal>"
    if not spec:
        return None
    return spec, (args[0] if args else None)


def _donated_params(spec, params):
    out = set()
    d = spec.get("donate")
    if d is not None:
        if d in ("all", "warn", "<non-literal>", True):
            out |= set(params)
        elif d in ("all-except-first", "warn-except-first"):
            out |= set(params[1:])
    nums = spec.get("donate_argnums")
    if nums is not None and nums != "<non-literal>":
        for i in (nums if isinstance(nums, (tuple, list)) else (nums,)):
            if isinstance(i, int) and 0 <= i < len(params):
                out.add(params[i])
    names = spec.get("donate_argnames")
    if names is not None and names != "<non-literal>":
        for n in (names if isinstance(names, (tuple, list)) else (names,)):
            if n in params:
                out.add(n)
    return out


def _collect(pm):
    """functions: canonical name -> (mod, qual, node); donating: canonical name -> set(donated parameter names)"""
    funcs, donating = {}, {}
    for mod in sorted(pm.mods):
        if pm.is_pkg(mod):
            continue
        for qual, fn in pm.functions(mod):
            funcs["%s.%s" % (mod, qual)] = (mod, qual, fn)
            for d in fn.decorator_list:
                got = _donation_of_call(pm, mod, d)
                if got:
                    donating["%s.%s" % (mod, qual)] = _donated_params(got[0], _params(fn))
        # module-level wrapper form: name = jax.jit(f, donate_argnums=...)
        for st in pm.module(mod).body:
            if isinstance(st, ast.Assign) and len(st.targets) == 1 and isinstance(st.targets[0], ast.Name):
                got = _donation_of_call(pm, mod, st.value)
                if got and got[1] is not None:
                    target = pm.resolve(mod, got[1])
                    if target in funcs:
                        donating["%s.%s" % (mod, st.targets[0].id)] = _donated_params(got[0], _params(funcs[target][2]))
                        funcs.setdefault("%s.%s" % (mod, st.targets[0].id), funcs[target])
    return funcs, donating


def _retainers(funcs):
    """(method name, parameter index incl. self) pairs of functions that keep a parameter by reference in another parameter's attribute."""
    out = {}
    for name, (mod, qual, fn) in funcs.items():
        ps = _params(fn)
        for n in ast.walk(fn):
            if isinstance(n, ast.Assign) and isinstance(n.value, ast.Name) and n.value.id in ps:
                for t in n.targets:
                    if isinstance(t, ast.Attribute) and isinstance(t.value, ast.Name) and t.value.id in ps and t.value.id != n.value.id:
                        # the stored name must still be the parameter (not re-bound before the store)
                        rebound = any(isinstance(m, ast.Assign) and m.lineno < n.lineno and any(isinstance(e, ast.Name) and e.id == n.value.id for tt in m.targets for e in ast.walk(tt)) for m in ast.walk(fn))
                        if not rebound:
                            out.setdefault(qual.split(".")[-1], []).append((name, ps.index(n.value.id), t.attr, n.lineno))
    return out


def _stmts(fn):
    """statements of a function in source order (nested blocks flattened; a linear reading of the body)."""
    out = []

    def walk(body):
        for st in body:
            out.append(st)
            for fld in ("body", "orelse", "finalbody"):
                sub = getattr(st, fld, None)
                if isinstance(sub, list) and sub and isinstance(sub[0], ast.stmt) and not isinstance(st, (ast.FunctionDef, ast.ClassDef)):
                    walk(sub)
            for h in getattr(st, "handlers", []) or []:
                walk(h.body)

    walk(fn.body)
    return out


def _own_exprs(st):
    """expression nodes evaluated by the statement itself (not by nested statements)."""
    for fld, val in ast.iter_fields(st):
        if fld in ("body", "orelse", "finalbody", "handlers"):
            continue
        vals = val if isinstance(val, list) else [val]
        for v in vals:
            if isinstance(v, ast.AST):
                yield v


def scan(pm):
    funcs, donating = _collect(pm)
    retain = _retainers(funcs)
    found = []
    stats = dict(functions=len(funcs), donating_functions=len(donating), retaining_methods=sum(len(v) for v in retain.values()), kept_call_sites=0)

    def local_donating(mod, fn):
        """wrapper form inside a function: step = eqx.filter_jit(f, donate=...)"""
        out = {}
        for n in ast.walk(fn):
            if isinstance(n, ast.Assign) and len(n.targets) == 1 and isinstance(n.targets[0], ast.Name):
                got = _donation_of_call(pm, mod, n.value)
                if got and got[1] is not None:
                    target = pm.resolve(mod, got[1])
                    inner = funcs.get(target)
                    if inner is None and isinstance(got[1], ast.Name):
                        for m in ast.walk(fn):
                            if isinstance(m, ast.FunctionDef) and m.name == got[1].id:
                                inner = (mod, m.name, m)
                    if inner is not None:
                        out[n.targets[0].id] = _donated_params(got[0], _params(inner[2]))
        return out

    def follow(name, kept, chain, depth):
        """`kept`: parameter names of funcs[name] that are kept by reference elsewhere when the function is entered."""
        mod, qual, fn = funcs[name]
        locs = set(_params(fn))
        for n in ast.walk(fn):
            if isinstance(n, ast.Name) and isinstance(n.ctx, ast.Store):
                locs.add(n.id)
        ldon = local_donating(mod, fn)
        kept = set(kept)
        for st in _stmts(fn):
            for ex in _own_exprs(st):
                for c in ast.walk(ex):
                    if not isinstance(c, ast.Call):
                        continue
                    # source: obj.stop(model, ...) where some `stop` keeps that parameter by reference
                    if isinstance(c.func, ast.Attribute) and c.func.attr in retain:
                        for rname, pidx, attr, rline in retain[c.func.attr]:
                            i = pidx - 1  # bound call: self is implicit
                            if 0 <= i < len(c.args) and isinstance(c.args[i], ast.Name):
                                if c.args[i].id not in kept:
                                    kept.add(c.args[i].id)
                                    stats["kept_call_sites"] += 1
                                    chain = chain + ["%s:%d %s keeps `%s` by reference (%s line %d: .%s = parameter)" % (qual, c.lineno, ast.unparse(c.func), c.args[i].id, rname.split(".", 2)[-1], rline, attr)]
                    callee = None
                    don = None
                    if isinstance(c.func, ast.Name) and c.func.id in ldon:
                        don = ldon[c.func.id]
                        pnames = None
                    r = pm.resolve(mod, c.func)
                    if isinstance(c.func, ast.Name) and c.func.id in locs:
                        r = None  # a local name shadows the module-level one
                    if r in funcs:
                        callee = r
                    if callee is None and don is None:
                        continue
                    cps = _params(funcs[callee][2]) if callee else None
                    passed = {}
                    for i, a in enumerate(c.args):
                        if isinstance(a, ast.Name) and a.id in kept and cps is not None and i < len(cps):
                            passed[cps[i]] = a.id
                    for kw in c.keywords:
                        if kw.arg and isinstance(kw.value, ast.Name) and kw.value.id in kept:
                            passed[kw.arg] = kw.value.id
                    if callee is not None and callee in donating:
                        don = donating[callee]
                    if don:
                        if cps is None:
                            # local wrapper: positions only
                            hit = [a.id for i, a in enumerate(c.args) if isinstance(a, ast.Name) and a.id in kept]
                            hit = hit[:1] if hit else []
                            bad = {h: h for h in hit}
                        else:
                            bad = {p: v for p, v in passed.items() if p in don}
                        for p, v in bad.items():
                            found.append(dict(mod=mod, qual=qual, line=c.lineno, callee=callee or ast.unparse(c.func), param=p, name=v, chain=list(chain)))
                    if callee is not None and passed and depth < 5 and callee != name:
                        follow(callee, set(passed), chain + ["%s:%d passes `%s` to %s (parameter %s)" % (qual, c.lineno, ", ".join(sorted(set(passed.values()))), callee.split(".")[-1], ", ".join(sorted(passed)))], depth + 1)
            # attribute store source: other.attr = name  (a reference kept in another object)
            if isinstance(st, ast.Assign) and isinstance(st.value, ast.Name):
                for t in st.targets:
                    if isinstance(t, ast.Attribute) and isinstance(t.value, ast.Name) and t.value.id != st.value.id and t.value.id in _params(fn) and st.value.id not in kept:
                        kept.add(st.value.id)
                        stats["kept_call_sites"] += 1
                        chain = chain + ["%s:%d `%s` keeps `%s` by reference" % (qual, st.lineno, ast.unparse(t), st.value.id)]

    for name in sorted(funcs):
        mod, qual, fn = funcs[name]
        # entry points: functions that call a retainer or store a parameter in another object's attribute
        has_source = any(isinstance(c, ast.Call) and isinstance(c.func, ast.Attribute) and c.func.attr in retain for c in ast.walk(fn))
        if has_source:
            follow(name, set(), [], 0)
    # de-duplicate
    seen, uniq = set(), []
    for f in found:
        k = (f["mod"], f["qual"], f["callee"], f["param"])
        if k not in seen:
            seen.add(k)
            uniq.append(f)
    return uniq, stats


_POSITIVE = '''
import equinox as eqx
import jax

class Stop:
    def __init__(self):
        self.best_model = None
    def stop(self, model, loss):
        self.best_model = model
        return loss < 0

class CopyStop:
    def __init__(self):
        self.best = None
    def check(self, model, loss):
        self.best = jax.tree_util.tree_map(lambda a: a.copy(), model)
        return loss < 0

@eqx.filter_jit(donate="all-except-first")
def apply(grads, model, state):
    return model, state

@eqx.filter_jit(donate="all")
def apply_state_only(state):
    return state

def step(model, state, batch):
    grads = batch
    state = apply_state_only(state)
    model, state = apply(grads, model, state)
    return model, state

def train(model, state, cond, data):
    while not cond.stop(model, 1.0):
        for batch in data:
            model, state = step(model, state, batch)
    return cond.best_model

def train_copy(model, state, cond, data):
    while not cond.check(model, 1.0):
        for batch in data:
            model, state = step(model, state, batch)
    return cond.best
'''


class _MiniPM(Repo):
    def __init__(self, src):
        self.root = "<builtin>"
        self.src = "<builtin>"
        self.package = "example"
        self.mods = {"example": ("<builtin positive example>", ast.parse(src), src)}
        self._aliases = {}


def selfcheck():
    found, stats = scan(_MiniPM(_POSITIVE))
    keys = sorted((f["qual"], f["callee"].split(".")[-1], f["param"]) for f in found)
    if keys != [("step", "apply", "model")]:
        raise AnalysisError("DONATE rule self-check failed: the built-in positive example gives %s" % keys)
    return len(found)


def apply(ctx, prop="C19"):
    n_pos = selfcheck()
    found, stats = scan(ctx.pm)
    for f in found:
        what = "`%s` is still kept by reference (%s) when it is passed to %s, which donates the buffers of its parameter `%s`: after this call the kept model's arrays are deleted, so the model handed back by the stopping condition is unusable whenever training stops later than the epoch that kept it" % (f["name"], "; ".join(f["chain"]) or "kept by the caller", f["callee"].split(".")[-1], f["param"])
        ctx.add(Finding(prop, "%s.DONATE.kept-value-donated" % prop, f["qual"], what, ctx.pm.path(f["mod"]), f["line"], None, "donated:%s.%s" % (f["callee"].split(".")[-1], f["param"])))
    ctx.ev.instances("%s.DONATE.positive_example_reports" % prop, n_pos, floor=1)
    ctx.ev.instances("%s.DONATE.retaining_methods" % prop, stats["retaining_methods"], floor=1)
    ctx.ev.instances("%s.DONATE.kept_call_sites" % prop, stats["kept_call_sites"], floor=1)
    ctx.ev.extra["donate_rule"] = dict(stats, findings=len(found), rule="DONATE: no value kept by reference (stop() stores the model parameter) reaches a donated position of a jit / pmap / filter_jit wrapper (ginverif/donate.py)")
