"""Transfer functions for the external API the repository uses:
numpy / jax.numpy / jax / jax.lax / jax.random / jax.nn / equinox / typing ...

Everything here works on ``ginverif.arr.Arr`` (abstract) and configuration values;
nothing imports the real libraries.
"""

import functools
import itertools
import math
from fractions import Fraction

from . import arr as A
from .arr import Arr, Unsupported, AbstractError, as_arr, prod
from .poly import Poly, to_num, as_poly, pk, sym_id
from .interp import Obj, ClassVal, ArrayType, TracerType, Opaque, Func, BoundMethod, _MISSING


class NS(object):
    def __init__(self, _name, **kw):
        self.__dict__["_name"] = _name
        self.__dict__.update(kw)

    def __getattr__(self, k):
        if k.startswith("__") and k.endswith("__"):
            raise AttributeError(k)
        return Opaque(self.__dict__["_name"] + "." + k)

    def __repr__(self):
        return "<shim %s>" % self.__dict__["_name"]


# ----------------------------------------------------------------------------- pytrees


class World(object):
    """Per-interpreter state shared by the shims (trace, parameter counter, options)."""

    def __init__(self):
        self.interp = None
        self.trace = []
        self.param_counter = 0
        self.key_counter = 0
        self.n_devices = 1
        self.track = True  # track element provenance
        self.param_geo = None  # callback(name, shape) -> geo for fresh parameter arrays
        self.app_counter = 0
        self.trace_depth = 0  # > 0 while a jit / vmap wrapped function is being interpreted (arrays are tracers there)
        self.concrete_permutation = None  # case split: random.permutation returns this concrete bijection

    def fresh_param(self, shape, what="P"):
        self.param_counter += 1
        name = "%s%d" % (what, self.param_counter)
        shape = A._shape_arg(shape)
        geo = self.param_geo(name, shape) if self.param_geo else None
        if self.track:
            a = A.leaf(name, shape, geo)
        else:
            a = A.untracked(shape, geo)
            a.tag = name
        return a


class Key(object):
    def __init__(self, n):
        self.n = n

    def __repr__(self):
        return "<prng key %d>" % self.n


def is_pytree_obj(x):
    return isinstance(x, Obj) and x.cls.find("tree_flatten")[0] is not None and x.cls.pytree


def tree_map(fn, tree, sort_dicts=True):
    """Apply fn to every array leaf of a pytree; dict keys come back sorted (as in JAX)."""
    if isinstance(tree, Arr):
        return fn(tree)
    if tree is None:
        return None
    if isinstance(tree, tuple):
        return tuple(tree_map(fn, t, sort_dicts) for t in tree)
    if isinstance(tree, list):
        return [tree_map(fn, t, sort_dicts) for t in tree]
    if isinstance(tree, dict):
        keys = sorted(tree.keys()) if sort_dicts else list(tree.keys())
        return {k: tree_map(fn, tree[k], sort_dicts) for k in keys}
    if is_pytree_obj(tree):
        children, aux = tree.tree_flatten()
        new_children = tree_map(fn, tuple(children), sort_dicts)
        return tree.cls.interp.getattr(tree.cls, "tree_unflatten")(aux, new_children)
    if isinstance(tree, Obj):
        # equinox module / plain object: dataclass-like, map over attributes
        out = Obj(tree.cls)
        at = object.__getattribute__(tree, "attrs")
        oat = object.__getattribute__(out, "attrs")
        for k, v in at.items():
            oat[k] = tree_map(fn, v, sort_dicts)
        return out
    return tree  # static leaf (int, str, key, ...)


def tree_map_multi(fn, trees):
    """tree_map over several trees of identical structure (dict keys are matched by key, sorted)."""
    t0 = trees[0]
    if isinstance(t0, Arr):
        return fn(*trees)
    if t0 is None:
        return None
    if isinstance(t0, (tuple, list)):
        if any(len(t) != len(t0) for t in trees):
            raise AbstractError("tree_map: tree structures differ")
        out = [tree_map_multi(fn, [t[i] for t in trees]) for i in range(len(t0))]
        return tuple(out) if isinstance(t0, tuple) else out
    if isinstance(t0, dict):
        ks = sorted(t0.keys())
        for t in trees[1:]:
            if sorted(t.keys()) != ks:
                raise AbstractError("tree_map: dict keys differ: %s vs %s" % (ks, sorted(t.keys())))
        return {k: tree_map_multi(fn, [t[k] for t in trees]) for k in ks}
    if is_pytree_obj(t0):
        flat = [t.tree_flatten() for t in trees]
        for f in flat[1:]:
            if f[1] != flat[0][1]:
                raise AbstractError("tree_map: static (aux) data of the trees differ")
        children = tree_map_multi(fn, [tuple(f[0]) for f in flat])
        return t0.cls.interp.getattr(t0.cls, "tree_unflatten")(flat[0][1], children)
    if isinstance(t0, (int, Fraction, float, bool)):
        return fn(*trees)
    raise Unsupported("tree_map over several trees of type %s" % type(t0).__name__)


def tree_leaves(tree):
    out = []
    tree_map(lambda a: out.append(a) or a, tree)
    return out


def tree_stack(trees, axis=0):
    t0 = trees[0]
    if isinstance(t0, Arr):
        return A.stack(trees, axis)
    if t0 is None:
        return None
    if isinstance(t0, tuple):
        return tuple(tree_stack([t[i] for t in trees], axis) for i in range(len(t0)))
    if isinstance(t0, list):
        return [tree_stack([t[i] for t in trees], axis) for i in range(len(t0))]
    if isinstance(t0, dict):
        return {k: tree_stack([t[k] for t in trees], axis) for k in sorted(t0.keys())}
    if is_pytree_obj(t0):
        flat = [t.tree_flatten() for t in trees]
        children = tree_stack([tuple(f[0]) for f in flat], axis)
        return t0.cls.interp.getattr(t0.cls, "tree_unflatten")(flat[0][1], children)
    if isinstance(t0, (int, Fraction, bool)):
        return Arr((len(trees),), [to_num(t) if not isinstance(t, bool) else t for t in trees], "int" if isinstance(t0, int) else "float")
    raise Unsupported("vmap output of type %s" % type(t0).__name__)


def pytree_roundtrip(x):
    """What passing a value through jit / vmap boundaries does to it."""
    if is_pytree_obj(x) or isinstance(x, (dict, tuple, list)):
        return tree_map(lambda a: a, x)
    return x


def _var(x, axis, keepdims):
    a = as_arr(x)
    m = A.reduce_("mean", a, axis, True)
    d = a - m
    return A.reduce_("mean", d * d, axis, keepdims)


class Device(object):
    """A compute device: an immutable identity with the attributes jax exposes (id, platform, device_kind, process_index)."""

    def __init__(self, i, platform="cpu"):
        self.id = i
        self.platform = platform
        self.device_kind = platform
        self.process_index = 0
        self.host_id = 0

    def __repr__(self):
        return "Device(%s:%d)" % (self.platform, self.id)

    def __eq__(self, o):
        return isinstance(o, Device) and (o.id, o.platform) == (self.id, self.platform)

    def __hash__(self):
        return hash((self.platform, self.id))


def make_shims(world):
    W = world

    # ------------------------------------------------------------------ numpy-like namespace
    def array(x, dtype=None, **kw):
        a = as_arr(x)
        if dtype is not None:
            a = A.astype(a, dtype)
        elif a is x:
            a = Arr(a.shape, a.elems, a.dtype, a.geo)
        return a

    def copy(x):
        a = as_arr(x)
        r = Arr(a.shape, a.elems, a.dtype, a.geo)
        r.tag = a.tag
        return r

    def full(shape, fill_value, dtype=None):
        return A.full(shape, fill_value, dtype)

    def zeros_like(x, dtype=None):
        return A.zeros(as_arr(x).shape, dtype)

    def ones_like(x, dtype=None):
        return A.ones(as_arr(x).shape, dtype)

    def ew1(op):
        def f(x, *a, **k):
            return A.ew1(op, x)

        f.__name__ = op
        return f

    def ew2(op):
        def f(x, y, *a, **k):
            return A.ew2(op, x, y)

        f.__name__ = op
        return f

    def red(kind):
        def f(x, axis=None, keepdims=False, **k):
            return A.reduce_(kind, x, axis, keepdims)

        f.__name__ = kind
        return f

    def allclose(a, b, rtol=None, atol=None, **k):
        Aa, Bb = as_arr(a), as_arr(b)
        W.trace.append(("allclose", Aa, Bb, A._SITE[0]))
        try:
            A.broadcast_shapes(Aa.shape, Bb.shape)
        except AbstractError:
            raise
        if getattr(W, "allclose_mode", None) == "record":
            ff = getattr(W, "allclose_false_for", None)
            if ff is not None and ff(Aa, Bb):
                return Arr((), [False], "bool")
            return Arr((), [True], "bool")
        if Aa.elems is None or Bb.elems is None:
            return Arr((), [Poly.fn("allclose_unknown")], "bool")
        ia = A._bcast_index(Aa.shape, A.broadcast_shapes(Aa.shape, Bb.shape))
        ib = A._bcast_index(Bb.shape, A.broadcast_shapes(Aa.shape, Bb.shape))
        same = all(_same(Aa.elems[i], Bb.elems[j]) for i, j in zip(ia, ib))
        if same:
            return Arr((), [True], "bool")
        return Arr((), [Poly.fn("allclose", Poly.const(W._fresh_id()))], "bool")

    def _same(x, y):
        if isinstance(x, Poly) or isinstance(y, Poly):
            return as_poly(x).terms == as_poly(y).terms
        return x == y

    W._fresh_n = 0

    def _fresh_id():
        W._fresh_n += 1
        return W._fresh_n

    W._fresh_id = _fresh_id

    def multiply_reduce(x, *a, **k):
        r = 1
        for v in x:
            r = r * A._as_int(v)
        return r

    def remainder(a, b):
        return A.ew2("mod", a, b)

    def unique(x, axis=None, **k):
        a = as_arr(x)
        if not a.is_concrete():
            raise Unsupported("np.unique on symbolic data")
        if axis is None:
            vals = sorted(set(a.elems))
            return Arr((len(vals),), vals, a.dtype)
        if axis == 0 and a.ndim == 2:
            n = a.shape[1]
            rows = sorted(set(tuple(a.elems[i * n:(i + 1) * n]) for i in range(a.shape[0])))
            return Arr((len(rows), n), [e for r in rows for e in r], a.dtype)
        raise Unsupported("np.unique with this axis on abstract data")

    def argsort(x, **k):
        a = as_arr(x)
        if a.ndim == 1 and a.is_concrete():
            idx = sorted(range(a.shape[0]), key=lambda i: a.elems[i])
            return Arr((len(idx),), idx, "int")
        raise Unsupported("argsort of symbolic data")

    def isin(a, b, **k):
        a_, b_ = as_arr(a), as_arr(b)
        if a_.is_concrete() and b_.is_concrete():
            s = set(b_.elems)
            return Arr(a_.shape, [e in s for e in a_.elems], "bool")
        raise Unsupported("isin on symbolic data")

    def cross(a, b, **k):
        a_, b_ = as_arr(a), as_arr(b)
        if a_.shape[-1] == 2 and b_.shape[-1] == 2:
            return a_[..., 0] * b_[..., 1] - a_[..., 1] * b_[..., 0]
        if a_.shape[-1] == 3 and b_.shape[-1] == 3:
            c0 = a_[..., 1] * b_[..., 2] - a_[..., 2] * b_[..., 1]
            c1 = a_[..., 2] * b_[..., 0] - a_[..., 0] * b_[..., 2]
            c2 = a_[..., 0] * b_[..., 1] - a_[..., 1] * b_[..., 0]
            return A.stack([c0, c1, c2], -1)
        raise Unsupported("cross product of these shapes")

    def slogdet(m):
        d = A.det_concrete(m)
        sign = (d > 0) - (d < 0)
        return (Arr((), [sign], "float"), Arr((), [Poly.fn("logabsdet", Poly.const(d))], "float"))

    def eigh(m, symmetrize_input=True, **k):
        """Symmetric eigendecomposition as uninterpreted symbols, modelled *up to the covariance of eigh
        under signed permutations* (axiom A8): for h in B_n, eigvals(h C h^T) = eigvals(C) and
        eigvecs(h C h^T) = h eigvecs(C).  The symbols are attached to a canonical representative of the
        orbit of C, so the identity holds structurally; eigenvector sign/degeneracy is not modelled."""
        M = as_arr(m)
        n = M.shape[-1]
        W.trace.append(("eigh", M, A._SITE[0]))
        geo = A._geo_call("eigh", M)
        gv, gw = geo if geo is not None else (None, None)
        if M.elems is None:
            return (Arr(M.shape[:-1], None, "float", gv), Arr(M.shape, None, "float", gw))
        if M.ndim < 2 or M.shape[-2] != n:
            raise AbstractError("eigh of a non-square matrix")
        lead = prod(M.shape[:-2])
        vals, vecs = [], []
        if n <= 3:
            hs = []
            for perm in itertools.permutations(range(n)):
                for signs in itertools.product((1, -1), repeat=n):
                    hs.append((perm, signs))
        else:
            hs = [(tuple(range(n)), (1,) * n)]
        for b in range(lead):
            C = [as_poly(e) for e in M.elems[b * n * n:(b + 1) * n * n]]
            best = None
            for perm, signs in hs:
                # (h C h^T)[i][j] = s_i s_j C[perm_i][perm_j]   with h[i][perm_i] = s_i
                key = tuple(pk(C[perm[i] * n + perm[j]].scale(signs[i] * signs[j])) for i in range(n) for j in range(n))
                if best is None or key < best[0]:
                    best = (key, perm, signs)
            key, perm, signs = best
            kid = sym_id(("eighkey", key))
            for i in range(n):
                vals.append(Poly.fn("eigval", kid, i))
            # C = h^T C_can h  =>  eigvecs(C) = h^T U_can :  U[a][j] = sum_i h[i][a] U_can[i][j]
            rows = {}
            for i in range(n):
                rows[perm[i]] = (i, signs[i])
            for a in range(n):
                i, sg = rows[a]
                for j in range(n):
                    u = Poly.fn("eigvec", kid, i, j)
                    vecs.append(u if sg == 1 else -u)
        return (Arr(M.shape[:-1], vals, "float", gv), Arr(M.shape, vecs, "float", gw))

    def opaque_linalg(name):
        def f(*a, **k):
            arrs = [as_arr(x) for x in a if isinstance(x, Arr)]
            W.trace.append((name, arrs, A._SITE[0]))
            M = arrs[-1]
            geo = A._geo_call("opaque_linalg", name, arrs)
            if any(x.elems is None for x in arrs):
                return Arr(M.shape, None, "float", geo)
            key = sym_id(("linalgkey", tuple(tuple(pk(e) for e in x.elems) for x in arrs)))
            return Arr(M.shape, [Poly.fn(name, key, i) for i in range(M.size)], "float", geo)

        return f

    def linalg_inv(m):
        return A.inv_concrete(m)

    def linalg_det(m):
        return Arr((), [A.det_concrete(m)], "float")

    linalg = NS(
        "linalg",
        norm=A.linalg_norm,
        slogdet=slogdet,
        eigh=eigh,
        inv=linalg_inv,
        det=linalg_det,
        cholesky=opaque_linalg("cholesky"),
    )

    def np_transpose(a, axes=None):
        return A.transpose(a, axes)

    def np_sum(x, axis=None, keepdims=False, **k):
        if not isinstance(x, Arr) and isinstance(x, (list, tuple)) and x and not isinstance(x[0], (Arr, list, tuple)):
            pass
        return A.reduce_("sum", x, axis, keepdims)

    def maximum(a, b):
        return A.ew2("maximum", a, b)

    def minimum(a, b):
        return A.ew2("minimum", a, b)

    def clip(a, lo=None, hi=None, **k):
        r = as_arr(a)
        if lo is not None:
            r = maximum(r, lo)
        if hi is not None:
            r = minimum(r, hi)
        return r

    def split(a, n_or_idx, axis=0):
        a_ = as_arr(a)
        axis = A.norm_axis(axis, a_.ndim)
        n = a_.shape[axis]
        if isinstance(n_or_idx, int):
            if n % n_or_idx:
                raise AbstractError("array split does not result in an equal division")
            sizes = [n // n_or_idx] * n_or_idx
        else:
            idx = [0] + [A._as_int(i) for i in n_or_idx] + [n]
            sizes = [idx[i + 1] - idx[i] for i in range(len(idx) - 1)]
        return A.split_sizes(a_, sizes, axis)

    def shape_fn(a):
        return as_arr(a).shape

    def ndim_fn(a):
        return as_arr(a).ndim

    def size_fn(a):
        return as_arr(a).size

    def outer(a, b):
        return A.einsum("i,j->ij", A.reshape(a, (-1,)), A.reshape(b, (-1,)))

    def kron_unsupported(*a, **k):
        raise Unsupported("kron")

    def einsum(spec, *ops, **kw):
        kw.pop("precision", None)
        kw.pop("optimize", None)
        if not isinstance(spec, str):
            raise Unsupported("einsum with non-string subscripts")
        return A.einsum(spec, *ops)

    def tensordot(a, b, axes=2, **kw):
        return A.tensordot(a, b, axes)

    def dtype_marker(name):
        return name

    common = dict(
        array=array,
        asarray=array,
        copy=copy,
        zeros=A.zeros,
        ones=A.ones,
        full=full,
        zeros_like=zeros_like,
        ones_like=ones_like,
        arange=A.arange,
        eye=A.eye,
        identity=A.eye,
        reshape=A.reshape,
        transpose=np_transpose,
        moveaxis=A.moveaxis,
        trace=A.trace,
        diagonal=A.diagonal,
        kron=A.kron,
        linspace=A.linspace,
        indices=A.indices,
        meshgrid=A.meshgrid,
        cumprod=A.cumprod,
        diff=A.diff,
        tril=A.tril,
        triu=A.triu,
        rollaxis=A.rollaxis,
        array_split=A.array_split,
        delete=A.delete,
        count_nonzero=A.count_nonzero,
        sort=A.sort,
        take_along_axis=A.take_along_axis,
        vdot=lambda a, b: A.reduce_("sum", A.reshape(A.as_arr(a), (-1,)) * A.reshape(A.as_arr(b), (-1,))),
        logical_xor=ew2("ne"),
        rot90=A.rot90,
        vstack=A.vstack,
        hstack=A.hstack,
        dstack=A.dstack,
        append=A.append,
        full_like=A.full_like,
        flipud=lambda m: A.flip(m, 0),
        fliplr=lambda m: A.flip(m, 1),
        atleast_1d=lambda a: A.atleast_nd(a, 1),
        atleast_2d=lambda a: A.atleast_nd(a, 2),
        atleast_3d=lambda a: A.atleast_nd(a, 3),
        inner=lambda a, b: A.tensordot(a, b, axes=(-1, -1)) if A.as_arr(a).ndim and A.as_arr(b).ndim else A.as_arr(a) * A.as_arr(b),
        swapaxes=A.swapaxes,
        expand_dims=A.expand_dims,
        squeeze=A.squeeze,
        concatenate=A.concatenate,
        stack=A.stack,
        flip=A.flip,
        roll=A.roll,
        take=A.take,
        tile=A.tile,
        repeat=A.repeat,
        pad=A.pad,
        where=A.where,
        broadcast_to=A.broadcast_to,
        split=split,
        ravel=lambda a: A.reshape(a, (-1,)),
        einsum=einsum,
        tensordot=tensordot,
        matmul=A.matmul,
        dot=A.dot,
        outer=outer,
        diag=A.diag,
        cross=cross,
        sum=np_sum,
        mean=red("mean"),
        max=red("max"),
        min=red("min"),
        amax=red("max"),
        amin=red("min"),
        prod=red("prod"),
        argmax=red("argmax"),
        argmin=red("argmin"),
        any=red("any"),
        all=red("all"),
        cumsum=A.cumsum,
        var=lambda x, axis=None, keepdims=False, **k: _var(x, axis, keepdims),
        std=lambda x, axis=None, keepdims=False, **k: A.sqrt(_var(x, axis, keepdims)),
        abs=ew1("abs"),
        absolute=ew1("abs"),
        sign=ew1("sign"),
        sqrt=A.sqrt,
        square=ew1("square"),
        exp=ew1("exp"),
        log=ew1("log"),
        tanh=ew1("tanh"),
        sin=ew1("sin"),
        cos=ew1("cos"),
        rint=ew1("rint"),
        round=ew1("rint"),
        floor=ew1("floor"),
        ceil=ew1("ceil"),
        negative=ew1("neg"),
        isnan=ew1("isnan"),
        logical_not=ew1("not"),
        add=ew2("add"),
        subtract=ew2("sub"),
        multiply=ew2("mul"),
        divide=ew2("div"),
        true_divide=ew2("div"),
        power=ew2("pow"),
        remainder=remainder,
        mod=remainder,
        maximum=maximum,
        minimum=minimum,
        clip=clip,
        equal=ew2("eq"),
        not_equal=ew2("ne"),
        less=ew2("lt"),
        greater=ew2("gt"),
        less_equal=ew2("le"),
        greater_equal=ew2("ge"),
        floor_divide=ew2("floordiv"),
        logical_and=ew2("and"),
        logical_or=ew2("or"),
        allclose=allclose,
        isin=isin,
        unique=unique,
        argsort=argsort,
        shape=shape_fn,
        ndim=ndim_fn,
        size=size_fn,
        linalg=linalg,
        ndarray=ArrayType("ndarray"),
        float32=DType("float32", ("float32",)),
        float64=DType("float64", ("float64",)),
        floating=DType("floating", ("float32", "float64")),
        generic=DType("generic", ("float32", "float64")),
        number=DType("number", ("float32", "float64")),
        int32="int32",
        int64="int64",
        bool_="bool",
        dtype=dtype_marker,
        inf=float("inf"),
        pi=Fraction(355, 113),
        newaxis=None,
    )

    np_ns = NS("numpy", **common)
    np_ns.__dict__["multiply"] = _UfuncMultiply(ew2("mul"), multiply_reduce)
    jnp_ns = NS("jax.numpy", **common)
    jnp_ns.__dict__["multiply"] = _UfuncMultiply(ew2("mul"), multiply_reduce)

    # ------------------------------------------------------------------ jax.lax
    def stop_gradient(x):
        W.trace.append(("stop_gradient", x, A._SITE[0]))
        if getattr(W, "mark_stop_gradient", False):
            # taint mode: every symbol that passes through stop_gradient is renamed sg(symbol), so a
            # value reaching an output without the wrapper is visible in the output's term
            return tree_map(_mark_sg, x)
        return tree_map(lambda a: A.ew1("stop_gradient", a), x)

    def _mark_sg(a):
        if a.elems is None:
            return a
        el = []
        for e in a.elems:
            if isinstance(e, Poly):
                out = {}
                for m, c in e.terms.items():
                    m2 = tuple(sorted(sym_id(("sg", i)) for i in m))
                    out[m2] = out.get(m2, 0) + c
                el.append(Poly(out))
            else:
                el.append(e)
        return Arr(a.shape, el, a.dtype, a.geo)

    class Precision(object):
        HIGH = "HIGH"
        HIGHEST = "HIGHEST"
        DEFAULT = "DEFAULT"

    lax_linalg = NS(
        "jax.lax.linalg",
        cholesky=opaque_linalg("cholesky"),
        triangular_solve=opaque_linalg("triangular_solve"),
    )

    def lax_slice_in_dim(operand, start_index, limit_index, stride=1, axis=0):
        a = as_arr(operand)
        ax = A.norm_axis(A._as_int(axis), a.ndim)
        start = A._as_int(start_index)
        limit = a.shape[ax] if limit_index is None else A._as_int(limit_index)
        if start < 0 or limit > a.shape[ax] or start > limit:
            raise AbstractError("slice_in_dim: [%d:%d] is out of bounds for axis of size %d" % (start, limit, a.shape[ax]))
        return a[(slice(None),) * ax + (slice(start, limit, A._as_int(stride)),)]

    def lax_slice(operand, start_indices, limit_indices, strides=None):
        a = as_arr(operand)
        strides = strides or (1,) * a.ndim
        if len(start_indices) != a.ndim or len(limit_indices) != a.ndim:
            raise AbstractError("lax.slice: one start / limit index per axis is required")
        for s0, l0, n in zip(start_indices, limit_indices, a.shape):
            if A._as_int(s0) < 0 or A._as_int(l0) > n or A._as_int(s0) > A._as_int(l0):
                raise AbstractError("lax.slice: indices out of bounds")
        return a[tuple(slice(A._as_int(s0), A._as_int(l0), A._as_int(st)) for s0, l0, st in zip(start_indices, limit_indices, strides))]

    def lax_dynamic_slice_in_dim(operand, start_index, slice_size, axis=0):
        a = as_arr(operand)
        ax = A.norm_axis(A._as_int(axis), a.ndim)
        size = A._as_int(slice_size)
        start = max(0, min(A._as_int(start_index), a.shape[ax] - size))  # jax clamps dynamic slices
        return a[(slice(None),) * ax + (slice(start, start + size),)]

    def lax_index_in_dim(operand, index, axis=0, keepdims=True):
        a = as_arr(operand)
        ax = A.norm_axis(A._as_int(axis), a.ndim)
        i = A._as_int(index)
        r = a[(slice(None),) * ax + (slice(i, i + 1) if i != -1 else slice(i, None),)]
        return r if keepdims else A.squeeze(r, ax)

    def lax_pad(operand, padding_value, padding_config):
        """lax.pad with (low, high, interior) per axis; negative low / high crop."""
        a = as_arr(operand)
        if len(padding_config) != a.ndim:
            raise AbstractError("lax.pad: one (low, high, interior) triple per axis is required")
        out = a
        for ax, cfg3 in enumerate(padding_config):
            lo, hi, interior = (A._as_int(v) for v in cfg3)
            if interior < 0:
                raise AbstractError("lax.pad: negative interior padding")
            n = out.shape[ax]
            if interior and n > 1:
                pieces = []
                for i in range(n):
                    pieces.append(A.take(out, [i], ax))
                    if i < n - 1:
                        pieces.append(A.full(out.shape[:ax] + (interior,) + out.shape[ax + 1:], padding_value))
                out = A.concatenate(pieces, ax)
            pw = [(0, 0)] * out.ndim
            pw[ax] = (max(lo, 0), max(hi, 0))
            out = A.pad(out, tuple(pw), mode="constant", constant_values=padding_value)
            if lo < 0 or hi < 0:
                m = out.shape[ax]
                out = out[(slice(None),) * ax + (slice(-lo if lo < 0 else 0, m + hi if hi < 0 else m),)]
        return out

    def lax_fori_loop(lower, upper, body_fun, init_val, **k):
        lo, hi = A._as_int(lower), A._as_int(upper)
        val = init_val
        for i in range(lo, hi):
            val = body_fun(i, val)
        return val

    def lax_scan(f, init, xs=None, length=None, reverse=False, **k):
        if xs is None:
            n = A._as_int(length)
            items = [None] * n
        else:
            leaves = tree_leaves(xs)
            if not leaves:
                raise Unsupported("lax.scan over a pytree without array leaves")
            n = leaves[0].shape[0]
            items = [tree_map(lambda a, i=i: a[i], xs) for i in range(n)]
        order = list(range(n))[::-1] if reverse else list(range(n))
        carry, ys = init, [None] * n
        for i in order:
            carry, y = f(carry, items[i])
            ys[i] = y
        if n and ys[0] is not None:
            ys = tree_map_multi(lambda *zs: A.stack(list(zs), 0), ys)
        else:
            ys = None
        return carry, ys

    def lax_cond(pred, true_fun, false_fun, *operands, **k):
        p = as_arr(pred) if isinstance(pred, Arr) else pred
        if isinstance(p, Arr):
            if not p.is_concrete():
                raise Unsupported("lax.cond on a data-dependent predicate")
            p = bool(p.elems[0])
        return true_fun(*operands) if p else false_fun(*operands)

    def lax_map(f, xs, batch_size=None):
        # jax.lax.map(f, xs) applies f to every slice of the leading axis of every leaf of xs and stacks the results:
        # semantically vmap(f)(xs) (the sequential schedule and batch_size only change how it is executed)
        return VmapWrap(W, f, 0, 0, None)(xs)

    lax = NS(
        "jax.lax",
        map=lax_map,
        stop_gradient=stop_gradient,
        pad=lax_pad,
        rev=lambda operand, dimensions: A.flip(operand, tuple(dimensions)),
        transpose=lambda operand, permutation: A.transpose(operand, tuple(permutation)),
        reshape=lambda operand, new_sizes, dimensions=None: A.reshape(operand, tuple(new_sizes)),
        concatenate=lambda operands, dimension: A.concatenate(list(operands), dimension),
        expand_dims=lambda operand, dimensions: functools.reduce(lambda a, d: A.expand_dims(a, d), sorted(dimensions), as_arr(operand)),
        squeeze=lambda operand, dimensions: A.squeeze(operand, tuple(dimensions)),
        select=lambda pred, on_true, on_false: A.where(pred, on_true, on_false),
        fori_loop=lax_fori_loop,
        scan=lax_scan,
        cond=lax_cond,
        conv=lambda lhs, rhs, window_strides, padding, **k: conv_general_dilated(W, lhs, rhs, window_strides, padding),
        conv_with_general_padding=lambda lhs, rhs, window_strides, padding, lhs_dilation=None, rhs_dilation=None, **k: conv_general_dilated(W, lhs, rhs, window_strides, padding, lhs_dilation, rhs_dilation),
        slice_in_dim=lax_slice_in_dim,
        slice=lax_slice,
        dynamic_slice_in_dim=lax_dynamic_slice_in_dim,
        index_in_dim=lax_index_in_dim,
        conv_general_dilated=lambda *a, **k: conv_general_dilated(W, *a, **k),
        conv_general_dilated_patches=lambda *a, **k: conv_general_dilated_patches(W, *a, **k),
        Precision=Precision,
        linalg=lax_linalg,
    )

    # ------------------------------------------------------------------ jax.random
    def rsplit(key, num=2):
        out = []
        for _ in range(A._as_int(num)):
            W.key_counter += 1
            out.append(Key(W.key_counter))
        return out

    def runiform(key, shape=(), minval=0.0, maxval=1.0, **k):
        return W.fresh_param(shape, "U")

    def rnormal(key, shape=(), **k):
        return W.fresh_param(shape, "U")

    def rpermutation(key, x, **k):
        if isinstance(x, Arr) and x.ndim == 1 and x.is_concrete() and list(x.elems) == list(range(x.shape[0])):
            x = x.shape[0]
        if isinstance(x, Arr) and x.ndim == 0 and x.is_concrete():
            x = A._as_int(x)
        if isinstance(x, (int,)):
            n = x
            W.param_counter += 1
            name = "perm%d" % W.param_counter
            if W.concrete_permutation is not None:
                if sorted(W.concrete_permutation) != list(range(n)):
                    raise Unsupported("case split over permutations of range(%d) but range(%d) is shuffled" % (len(W.concrete_permutation), n))
                a = Arr((n,), list(W.concrete_permutation), "int")
                a.tag = name
                W.trace.append(("permutation", name, n, A._SITE[0]))
                return a
            a = Arr((n,), [Poly.leaf(name, (i,)) for i in range(n)], "int")
            a.tag = name
            W.trace.append(("permutation", name, n, A._SITE[0]))
            return a
        raise Unsupported("random.permutation of an array")

    def rchoice(key, a, shape=(), replace=True, p=None, axis=0, **k):
        """jax.random.choice: without replacement a prefix of a permutation; with replacement (the default) opaque
        draws that may coincide -- recorded so that rules relying on distinct indices can tell."""
        if isinstance(a, Arr) and a.ndim == 1 and a.is_concrete() and list(a.elems) == list(range(a.shape[0])):
            a = a.shape[0]
        if isinstance(a, Arr) and a.ndim == 0 and a.is_concrete():
            a = A._as_int(a)
        if not isinstance(a, int) or p is not None:
            raise Unsupported("random.choice of an array / with probabilities")
        shape = (A._as_int(shape),) if not isinstance(shape, (tuple, list)) else tuple(A._as_int(x) for x in shape)
        n_out = 1
        for x in shape:
            n_out *= x
        if not replace:
            if n_out > a:
                raise AbstractError("random.choice: cannot take %d samples without replacement from %d" % (n_out, a))
            full = rpermutation(key, a)
            return A.reshape(full[:n_out], shape)
        W.param_counter += 1
        name = "choice%d" % W.param_counter
        out = Arr(shape, [Poly.leaf(name, (i,)) for i in range(n_out)], "int")
        out.tag = name
        W.trace.append(("choice_with_replacement", name, a, A._SITE[0]))
        return out

    def rkey(seed=0):
        W.key_counter += 1
        return Key(W.key_counter)

    random = NS("jax.random", split=rsplit, uniform=runiform, normal=rnormal, permutation=rpermutation, choice=rchoice, PRNGKey=rkey, key=rkey)

    # ------------------------------------------------------------------ jax.nn
    def act(name):
        def f(x, *a, **k):
            return A.ew1(name, x)

        f.__name__ = name
        f.__axi_activation__ = name
        return f

    nn = NS("jax.nn", relu=act("relu"), gelu=act("gelu"), tanh=act("tanh"), sigmoid=act("sigmoid"), silu=act("silu"), elu=act("elu"), softplus=act("softplus"), leaky_relu=act("leaky_relu"))
    jnp_ns.__dict__["tanh"] = nn.tanh

    # ------------------------------------------------------------------ transformations
    def jit(f=None, static_argnums=None, static_argnames=None, **kw):
        if f is None:
            return functools.partial(jit, static_argnums=static_argnums, static_argnames=static_argnames, **kw)
        return JitWrap(W, f, static_argnums)

    def filter_jit(f=None, **kw):
        if f is None:
            return functools.partial(filter_jit, **kw)
        return JitWrap(W, f, None)

    def vmap(f, in_axes=0, out_axes=0, axis_name=None, **kw):
        return VmapWrap(W, f, in_axes, out_axes, axis_name)

    def filter_vmap(f=None, in_axes=None, out_axes=0, **kw):
        if f is None:
            return functools.partial(filter_vmap, in_axes=in_axes, out_axes=out_axes, **kw)
        return VmapWrap(W, f, "filter" if in_axes is None else in_axes, out_axes, None)

    def devices(*a):
        return [Device(i) for i in range(W.n_devices)]

    def register_pytree_node_class(cls):
        cls.pytree = True
        return cls

    def tree_leaves_fn(tree, is_leaf=None):
        return tree_leaves(tree)

    def tree_map_fn(f, tree, *rest, **kw):
        if rest:
            return tree_map_multi(f, [tree] + list(rest))
        return tree_map(f, tree)

    tree_util = NS(
        "jax.tree_util",
        register_pytree_node_class=register_pytree_node_class,
        tree_leaves=tree_leaves_fn,
        tree_map=tree_map_fn,
        tree_flatten=lambda t, **k: (tree_leaves(t), ("treedef", t)),
    )

    def ravel_pytree(tree):
        """jax.flatten_util.ravel_pytree: leaves in pytree order (dict keys sorted) raveled and concatenated; the
        second result rebuilds a tree of the same structure from such a vector."""
        leaves = tree_leaves(tree)
        sizes = [l.size for l in leaves]
        shapes = [l.shape for l in leaves]
        flat = A.concatenate([A.reshape(l, (-1,)) for l in leaves], 0) if leaves else A.as_arr([])

        def unravel(vec):
            if vec.ndim != 1 or vec.shape[0] != sum(sizes):
                raise AbstractError("unravel: expected a vector of %d elements, got shape %r" % (sum(sizes), vec.shape))
            pos = [0]
            idx = [0]

            def take(_leaf):
                i = idx[0]
                out = A.reshape(vec[pos[0]: pos[0] + sizes[i]], shapes[i])
                pos[0] += sizes[i]
                idx[0] += 1
                return out

            return tree_map(take, tree)

        return flat, unravel

    flatten_util = NS("jax.flatten_util", ravel_pytree=ravel_pytree)

    jax = NS(
        "jax",
        flatten_util=flatten_util,
        named_scope=TransparentContext(),
        default_matmul_precision=TransparentContext(),
        numpy=jnp_ns,
        lax=lax,
        random=random,
        nn=nn,
        jit=jit,
        vmap=vmap,
        devices=devices,
        tree_util=tree_util,
        tree=NS("jax.tree", map=tree_map_fn, leaves=tree_leaves_fn, flatten=lambda t, **k: (tree_leaves(t), ("treedef", t))),
        Array=ArrayType("jax.Array"),
        core=NS("jax.core", Tracer=TracerType(W)),
        Device=Device,
        typing=NS("jax.typing", ArrayLike=object),
    )

    # ------------------------------------------------------------------ equinox
    eqx_nn = NS(
        "equinox.nn",
        GroupNorm=lambda *a, **k: EqxGroupNorm(W, *a, **k),
        Conv=lambda *a, **k: EqxConv(W, False, *a, **k),
        ConvTranspose=lambda *a, **k: EqxConv(W, True, *a, **k),
        BatchNorm=lambda *a, **k: EqxBatchNorm(W, *a, **k),
        Identity=lambda *a, **k: EqxIdentity(),
        State=object,
        inference_mode=lambda m, value=True: m,
    )

    def eqx_field(**kw):
        return _Field(kw)

    def is_array(x):
        return isinstance(x, Arr)

    eqx = NS(
        "equinox",
        Module=EqxModuleBase,
        field=eqx_field,
        filter_jit=filter_jit,
        filter_vmap=filter_vmap,
        nn=eqx_nn,
        is_array=is_array,
        # structural no-ops for the analysis: filtering a pytree by a predicate keeps the tree
        filter=lambda tree, spec=None, **k: tree,
    )

    # ------------------------------------------------------------------ typing & misc
    class _T(object):
        def __init__(self, n):
            self.n = n

        def __getitem__(self, k):
            return self

        def __call__(self, *a, **k):
            return self

        def __or__(self, o):
            return self

        def __repr__(self):
            return "<typing %s>" % self.n

    def NewType(name, tp):
        return lambda x: x

    typing_names = "Any Callable Generator Optional Self Sequence Union Iterable Mapping Iterator Tuple List Dict Type TypeVar Literal".split()
    typing_ns = NS("typing", NewType=NewType, **{n: _T(n) for n in typing_names})
    abc_ns = NS("collections.abc", ItemsView=_T("ItemsView"), KeysView=_T("KeysView"), ValuesView=_T("ValuesView"), Sequence=_T("Sequence"), Callable=_T("Callable"))
    jaxtyping = NS("jaxtyping", ArrayLike=_T("ArrayLike"), Array=_T("Array"), Float=_T("Float"))

    shims = {
        "numpy": np_ns,
        "jax": jax,
        "jax.numpy": jnp_ns,
        "jax.lax": lax,
        "jax.random": random,
        "jax.nn": nn,
        "jax.tree_util": tree_util,
        "jax.flatten_util": flatten_util,
        "jax.typing": jax.typing,
        "equinox": eqx,
        "functools": functools,
        "dataclasses": NS("dataclasses", dataclass=_dataclass, field=lambda **kw: _Field(kw)),
        "itertools": itertools,
        "math": math,
        "operator": _operator_ns(W),
        "numbers": NS("numbers", Real=DType("Real", ("float32", "float64", "pyfloat")), Number=DType("Number", ("float32", "float64", "pyfloat"))),
        "typing": typing_ns,
        "typing_extensions": typing_ns,
        "collections": NS("collections", abc=abc_ns),
        "collections.abc": abc_ns,
        "jaxtyping": jaxtyping,
        "matplotlib": Opaque("matplotlib"),
        "optax": Opaque("optax"),
        "wandb": Opaque("wandb"),
        "time": Opaque("time"),
        "scipy": Opaque("scipy"),
        "argparse": Opaque("argparse"),
    }
    return shims


def _operator_ns(W):
    """The stdlib operator module, routed through the interpreter's own operator semantics (exact division,
    dunder dispatch on interpreted objects)."""
    import ast as _ast
    import operator as _op

    def b(node_cls):
        return lambda x, y: W.interp.binop(node_cls(), x, y)

    def c(node_cls):
        return lambda x, y: W.interp.compare(node_cls(), x, y)

    return NS(
        "operator",
        add=b(_ast.Add), sub=b(_ast.Sub), mul=b(_ast.Mult), truediv=b(_ast.Div), floordiv=b(_ast.FloorDiv), mod=b(_ast.Mod), pow=b(_ast.Pow), matmul=b(_ast.MatMult),
        and_=b(_ast.BitAnd), or_=b(_ast.BitOr), xor=b(_ast.BitXor),
        eq=c(_ast.Eq), ne=c(_ast.NotEq), lt=c(_ast.Lt), le=c(_ast.LtE), gt=c(_ast.Gt), ge=c(_ast.GtE), is_=c(_ast.Is), is_not=c(_ast.IsNot), contains=lambda x, y: W.interp.compare(_ast.In(), y, x),
        neg=lambda x: W.interp.binop(_ast.Sub(), 0, x), pos=lambda x: x, not_=lambda x: not W.interp.truth(x), truth=lambda x: W.interp.truth(x), index=_op.index,
        itemgetter=_op.itemgetter, getitem=lambda x, i: x[i],
        attrgetter=lambda *names: (lambda o: W.interp.getattr(o, names[0]) if len(names) == 1 else tuple(W.interp.getattr(o, n) for n in names)),
    )


class DType(str):
    """dtype / scalar-type marker: a string (so dtype arguments keep working) that also answers isinstance."""

    kinds = ()

    def __new__(cls, name, kinds=()):
        o = str.__new__(cls, name)
        o.kinds = tuple(kinds)
        return o

    def __axi_isinstance__(self, x):
        return getattr(x, "__axi_kind__", None) in self.kinds


class NpScalar(object):
    """A NumPy floating scalar (configuration-level value) of a given kind."""

    def __init__(self, value, kind):
        self.v = to_num(value)
        self.__axi_kind__ = kind
        self.__axi_is_pyfloat__ = kind == "float64"

    def _o(self, o):
        if isinstance(o, NpScalar):
            return o.v
        if isinstance(o, Arr):
            return o
        return o

    def __lt__(self, o):
        return self.v < self._o(o)

    def __le__(self, o):
        return self.v <= self._o(o)

    def __gt__(self, o):
        return self.v > self._o(o)

    def __ge__(self, o):
        return self.v >= self._o(o)

    def __eq__(self, o):
        return self.v == self._o(o)

    def __hash__(self):
        return hash(self.v)

    def __sub__(self, o):
        return NpScalar(self.v - self._o(o), self.__axi_kind__)

    def __rsub__(self, o):
        return NpScalar(self._o(o) - self.v, self.__axi_kind__)

    def __add__(self, o):
        return NpScalar(self.v + self._o(o), self.__axi_kind__)

    __radd__ = __add__

    def __mul__(self, o):
        return NpScalar(self.v * self._o(o), self.__axi_kind__)

    __rmul__ = __mul__

    def __truediv__(self, o):
        return NpScalar(Fraction(self.v) / self._o(o), self.__axi_kind__)

    def __float__(self):
        return float(self.v)

    def item(self):
        return self.v

    def __format__(self, spec):
        return str(self.v)

    def __repr__(self):
        return "np.%s(%s)" % (self.__axi_kind__, self.v)


class TransparentContext(object):
    __axi_transparent_context__ = True

    def __call__(self, *a, **k):
        return self


class _UfuncMultiply(object):
    def __init__(self, f, reduce_f):
        self._f = f
        self.reduce = reduce_f

    def __call__(self, *a, **k):
        return self._f(*a, **k)


class _Field(object):
    def __init__(self, kw):
        self.kw = kw


def _dataclass(cls=None, **options):
    """dataclasses.dataclass: the class gets the constructor generated from its annotated fields (as for equinox
    modules); comparison / repr helpers are not modelled."""

    def mark(c):
        c.dataclass_init = True
        return c

    return mark if cls is None else mark(cls)


class EqxModuleBase(object):
    """Marker for equinox.Module as an external base class.  A subclass without its own __init__ gets the
    dataclass-style constructor equinox would generate from the annotated fields."""

    name = "equinox.Module"

    @staticmethod
    def __axi_init__(interp, obj, args, kwargs):
        cls = obj.cls
        fields = []
        for c in reversed(cls.mro()):
            for fname in c.annotations:
                if fname not in fields:
                    fields.append(fname)
        attrs = object.__getattribute__(obj, "attrs")
        if len(args) > len(fields):
            raise AbstractError("%s() takes %d positional arguments but %d were given" % (cls.name, len(fields), len(args)))
        given = dict(zip(fields, args))
        for k, v in kwargs.items():
            if k not in fields:
                raise AbstractError("%s() got an unexpected keyword argument %r" % (cls.name, k))
            if k in given:
                raise AbstractError("%s() got multiple values for argument %r" % (cls.name, k))
            given[k] = v
        for f in fields:
            if f in given:
                attrs[f] = given[f]
                continue
            d, owner = cls.find(f)
            if owner is not None and isinstance(d, _Field):
                if "default" in d.kw:
                    attrs[f] = d.kw["default"]
                    continue
                if "default_factory" in d.kw:
                    attrs[f] = d.kw["default_factory"]()
                    continue
                owner = None
            if owner is None:
                raise AbstractError("%s() missing required argument %r" % (cls.name, f))
            attrs[f] = d


# ----------------------------------------------------------------------------- jit / vmap wrappers


class JitWrap(object):
    __axi_method__ = True

    def __init__(self, world, f, static_argnums):
        self.world = world
        self.f = f
        if static_argnums is None:
            static_argnums = ()
        if isinstance(static_argnums, int):
            static_argnums = (static_argnums,)
        self.static = tuple(static_argnums)
        self.__name__ = getattr(f, "__name__", "jitted")
        self.qualname = getattr(f, "qualname", self.__name__)

    def __call__(self, *args, **kwargs):
        interp = self.world.interp
        if interp is not None and interp.jit_roundtrip:
            args = tuple(a if i in self.static else pytree_roundtrip(a) for i, a in enumerate(args))
            kwargs = {k: pytree_roundtrip(v) for k, v in kwargs.items()}
            self.world.trace_depth += 1
            try:
                out = self.f(*args, **kwargs)
            finally:
                self.world.trace_depth -= 1
            return pytree_roundtrip(out)
        self.world.trace_depth += 1
        try:
            return self.f(*args, **kwargs)
        finally:
            self.world.trace_depth -= 1

    def __repr__(self):
        return "<jit %r>" % (self.f,)


class VmapWrap(object):
    __axi_method__ = True

    def __init__(self, world, f, in_axes, out_axes, axis_name):
        self.world = world
        self.f = f
        self.in_axes = in_axes
        self.out_axes = out_axes
        self.axis_name = axis_name
        self.__name__ = getattr(f, "__name__", "vmapped")

    def __call__(self, *args, **kwargs):
        n_args = len(args)
        in_axes = self.in_axes
        if in_axes == "filter":
            axes = [0 if tree_leaves(a) else None for a in args]
        elif isinstance(in_axes, (tuple, list)):
            axes = list(in_axes)
            if len(axes) != n_args:
                raise AbstractError("vmap in_axes has %d entries for %d positional arguments" % (len(axes), n_args))
        else:
            axes = [in_axes] * n_args
        kw_axes = {k: (0 if tree_leaves(v) else None) for k, v in kwargs.items()}
        n = None
        for a, ax in list(zip(args, axes)) + [(kwargs[k], kw_axes[k]) for k in kwargs]:
            if ax is None:
                continue
            if not isinstance(ax, int):
                raise Unsupported("vmap with a pytree of in_axes")
            for leaf in tree_leaves(a):
                if leaf.ndim == 0:
                    raise AbstractError("vmap over a 0-d array")
                m = leaf.shape[A.norm_axis(ax, leaf.ndim)]
                if n is None:
                    n = m
                elif n != m:
                    raise AbstractError("vmap got inconsistent sizes for array axes to be mapped: %d vs %d" % (n, m))
        if n is None:
            raise AbstractError("vmap must have at least one non-None value in in_axes")
        if n == 0:
            raise Unsupported("vmap over an empty axis")
        self.world.trace.append(("vmap", self.__name__, n, A._SITE[0]))
        outs = []
        for i in range(n):
            call_args = []
            for a, ax in zip(args, axes):
                if ax is None:
                    call_args.append(a)
                else:
                    call_args.append(tree_map(lambda leaf, ax=ax: A.getitem(leaf, (slice(None),) * A.norm_axis(ax, leaf.ndim) + (i,)), a))
            call_kw = {}
            for k, v in kwargs.items():
                if kw_axes[k] is None:
                    call_kw[k] = v
                else:
                    call_kw[k] = tree_map(lambda leaf: A.getitem(leaf, (i,)), v)
            self.world.trace_depth += 1
            try:
                outs.append(self.f(*call_args, **call_kw))
            finally:
                self.world.trace_depth -= 1
        oa = self.out_axes
        if not isinstance(oa, int):
            if isinstance(oa, (tuple, list)) and isinstance(outs[0], tuple) and len(oa) == len(outs[0]) and all(isinstance(x, int) for x in oa):
                return tuple(tree_stack([o[j] for o in outs], oa[j]) for j in range(len(oa)))
            raise Unsupported("vmap out_axes %r" % (oa,))
        return tree_stack(outs, oa)


# ----------------------------------------------------------------------------- convolution primitive


def _conv_perms(dn, nd):
    if dn is None:
        lhs_spec = "NC" + "".join(chr(ord("0") + i) for i in range(nd - 2))
        rhs_spec = "OI" + lhs_spec[2:]
        out_spec = lhs_spec
    else:
        lhs_spec, rhs_spec, out_spec = dn
    if not (len(lhs_spec) == len(rhs_spec) == len(out_spec) == nd):
        raise AbstractError("conv dimension_numbers %r do not match %d-d operands" % (dn, nd))

    def getperm(spec, pair, is_rhs):
        if spec.count(pair[0]) != 1 or spec.count(pair[1]) != 1:
            raise AbstractError("bad conv dimension spec %r" % spec)
        spatial = [i for i, c in enumerate(spec) if c not in pair]
        if not is_rhs:
            try:
                spatial = sorted(spatial, key=lambda i: rhs_spec.index(spec[i]))
            except ValueError:
                raise AbstractError("conv spatial characters of %r do not appear in %r" % (spec, rhs_spec))
        return [spec.index(pair[0]), spec.index(pair[1])] + spatial

    return getperm(lhs_spec, "NC", False), getperm(rhs_spec, "OI", True), getperm(out_spec, "NC", False)


def _norm_padding(padding, nsp, in_sizes, k_eff, strides, lhs_dilation=None):
    if isinstance(padding, str):
        if lhs_dilation is not None and any(d != 1 for d in lhs_dilation):
            # jax.lax: "String padding is not implemented for transposed convolution using this op"
            raise AbstractError("string padding %r together with lhs_dilation %r is rejected by jax.lax.conv_general_dilated" % (padding, tuple(lhs_dilation)))
        p = padding.upper()
        if p == "VALID":
            return [(0, 0)] * nsp
        if p in ("SAME", "SAME_LOWER"):
            out = []
            for n, k, s in zip(in_sizes, k_eff, strides):
                o = -(-n // s)
                tot = max((o - 1) * s + k - n, 0)
                lo = tot // 2 if p == "SAME" else tot - tot // 2
                out.append((lo, tot - lo))
            return out
        raise AbstractError("unknown padding string %r" % padding)
    pads = []
    try:
        for pr in padding:
            lo, hi = pr
            pads.append((A._as_int(lo), A._as_int(hi)))
    except (TypeError, ValueError):
        raise AbstractError("padding %r is not a sequence of (low, high) pairs" % (padding,))
    if len(pads) != nsp:
        raise AbstractError("padding %r must have %d (low, high) pairs" % (padding, nsp))
    return pads


def _tupn(x, n, what):
    if x is None:
        return (1,) * n
    if isinstance(x, (int, Fraction)) and not isinstance(x, bool):
        raise AbstractError("%s must be a sequence of %d integers, got %r" % (what, n, x))
    t = tuple(A._as_int(v) for v in x)
    if len(t) != n:
        raise AbstractError("%s %r must have length %d" % (what, t, n))
    for v in t:
        if v < 1:
            raise AbstractError("%s entries must be positive, got %r" % (what, t))
    return t


def conv_general_dilated(W, lhs, rhs, window_strides, padding, lhs_dilation=None, rhs_dilation=None, dimension_numbers=None, feature_group_count=1, batch_group_count=1, precision=None, preferred_element_type=None):
    L, R = as_arr(lhs), as_arr(rhs)
    if L.ndim != R.ndim or L.ndim < 3:
        raise AbstractError("conv_general_dilated: lhs %r and rhs %r must have equal rank >= 3" % (L.shape, R.shape))
    nd = L.ndim
    nsp = nd - 2
    lp, rp, op = _conv_perms(dimension_numbers, nd)
    strides = _tupn(window_strides, nsp, "window_strides")
    ld = _tupn(lhs_dilation, nsp, "lhs_dilation")
    rd = _tupn(rhs_dilation, nsp, "rhs_dilation")
    G = A._as_int(feature_group_count)
    if A._as_int(batch_group_count) != 1:
        raise Unsupported("batch_group_count != 1")
    Lt = A.transpose(L, lp)  # (N, C, sp...)
    Rt = A.transpose(R, rp)  # (O, I, sp...)
    N, C = Lt.shape[0], Lt.shape[1]
    O, I = Rt.shape[0], Rt.shape[1]
    if G < 1 or C % G or O % G:
        raise AbstractError("conv: feature_group_count %d must divide lhs features %d and rhs output features %d" % (G, C, O))
    if C // G != I:
        raise AbstractError("conv: lhs features %d / groups %d != rhs input features %d" % (C, G, I))
    insp = Lt.shape[2:]
    ksp = Rt.shape[2:]
    dil_in = [0 if n == 0 else (n - 1) * d + 1 for n, d in zip(insp, ld)]
    k_eff = [0 if k == 0 else (k - 1) * d + 1 for k, d in zip(ksp, rd)]
    pads = _norm_padding(padding, nsp, dil_in, k_eff, strides, ld)
    padded = [n + lo + hi for n, (lo, hi) in zip(dil_in, pads)]
    outsp = []
    for p, k, s in zip(padded, k_eff, strides):
        if p < 0:
            raise AbstractError("conv: negative padded size")
        outsp.append(0 if p - k < 0 else (p - k) // s + 1)
    rec = dict(
        op="conv_general_dilated",
        site=A._SITE[0],
        lhs_shape=L.shape,
        rhs_shape=R.shape,
        strides=strides,
        padding=tuple(pads),
        lhs_dilation=ld,
        rhs_dilation=rd,
        dimension_numbers=dimension_numbers,
        feature_group_count=G,
        out_spatial=tuple(outsp),
        lhs=L,
        rhs=R,
    )
    W.trace.append(("conv", rec))
    out_t_shape = (N, O) + tuple(outsp)
    inv = [0] * nd
    for i, p in enumerate(op):
        inv[p] = i
    geo = A._geo_call("conv", rec, Lt, Rt, out_t_shape, inv)
    if Lt.elems is None or Rt.elems is None:
        res = Arr(out_t_shape, None, "float", None)
        res = A.transpose(res, inv)
        res.geo = geo
        return res
    # build dilated+padded lhs as index lookup: position -> source index or None (zero)
    src_idx = []
    for n, d, (lo, hi), pn in zip(insp, ld, pads, padded):
        m = []
        for q in range(pn):
            r = q - lo
            if r < 0 or r >= (0 if n == 0 else (n - 1) * d + 1) or r % d:
                m.append(None)
            else:
                m.append(r // d)
        src_idx.append(m)
    lst = A.strides_of(Lt.shape)
    rst = A.strides_of(Rt.shape)
    Opg = O // G
    le, re = Lt.elems, Rt.elems
    taps = list(itertools.product(*[range(k) for k in ksp]))
    tap_r_off = [sum(a * rst[2 + j] for j, a in enumerate(t)) for t in taps]
    el = []
    for n in range(N):
        for o in range(O):
            g = o // Opg
            for ypos in itertools.product(*[range(x) for x in outsp]):
                items = []
                for t, roff in zip(taps, tap_r_off):
                    off = n * lst[0]
                    ok = True
                    for j in range(nsp):
                        q = ypos[j] * strides[j] + t[j] * rd[j]
                        s = src_idx[j][q]
                        if s is None:
                            ok = False
                            break
                        off += s * lst[2 + j]
                    if not ok:
                        continue
                    for i in range(I):
                        x = le[off + (g * I + i) * lst[1]]
                        y = re[o * rst[0] + i * rst[1] + roff]
                        if (not isinstance(x, Poly) and x == 0) or (not isinstance(y, Poly) and y == 0):
                            continue
                        items.append(x * y)
                el.append(A.poly_sum(items))
    res = Arr(out_t_shape, el, "float", None)
    res = A.transpose(res, inv)
    res.geo = geo
    return res


def conv_general_dilated_patches(W, lhs, filter_shape, window_strides, padding, lhs_dilation=None, rhs_dilation=None, dimension_numbers=None, precision=None, preferred_element_type=None):
    L = as_arr(lhs)
    nd = L.ndim
    nsp = nd - 2
    lp, rp, op = _conv_perms(dimension_numbers, nd)
    fs = tuple(A._as_int(x) for x in filter_shape)
    if len(fs) != nsp:
        raise AbstractError("filter_shape %r must have %d entries" % (fs, nsp))
    strides = _tupn(window_strides, nsp, "window_strides")
    ld = _tupn(lhs_dilation, nsp, "lhs_dilation")
    rd = _tupn(rhs_dilation, nsp, "rhs_dilation")
    Lt = A.transpose(L, lp)
    N, C = Lt.shape[0], Lt.shape[1]
    insp = Lt.shape[2:]
    dil_in = [0 if n == 0 else (n - 1) * d + 1 for n, d in zip(insp, ld)]
    k_eff = [0 if k == 0 else (k - 1) * d + 1 for k, d in zip(fs, rd)]
    pads = _norm_padding(padding, nsp, dil_in, k_eff, strides, ld)
    padded = [n + lo + hi for n, (lo, hi) in zip(dil_in, pads)]
    outsp = [0 if p - k < 0 else (p - k) // s + 1 for p, k, s in zip(padded, k_eff, strides)]
    K = prod(fs)
    out_t_shape = (N, C * K) + tuple(outsp)
    inv = [0] * nd
    for i, p in enumerate(op):
        inv[p] = i
    rec = dict(op="conv_general_dilated_patches", site=A._SITE[0], lhs_shape=L.shape, filter_shape=fs, strides=strides, padding=tuple(pads), lhs_dilation=ld, rhs_dilation=rd, dimension_numbers=dimension_numbers, lhs=L)
    W.trace.append(("patches", rec))
    geo = A._geo_call("patches", rec, Lt, out_t_shape, inv)
    if Lt.elems is None:
        res = A.transpose(Arr(out_t_shape, None, "float"), inv)
        res.geo = geo
        return res
    src_idx = []
    for n, d, (lo, hi), pn in zip(insp, ld, pads, padded):
        m = []
        for q in range(pn):
            r = q - lo
            if r < 0 or r >= (0 if n == 0 else (n - 1) * d + 1) or r % d:
                m.append(None)
            else:
                m.append(r // d)
        src_idx.append(m)
    lst = A.strides_of(Lt.shape)
    taps = list(itertools.product(*[range(k) for k in fs]))
    el = []
    for n in range(N):
        for c in range(C):
            for t in taps:
                for ypos in itertools.product(*[range(x) for x in outsp]):
                    off = n * lst[0] + c * lst[1]
                    ok = True
                    for j in range(nsp):
                        q = ypos[j] * strides[j] + t[j] * rd[j]
                        s = src_idx[j][q]
                        if s is None:
                            ok = False
                            break
                        off += s * lst[2 + j]
                    el.append(Lt.elems[off] if ok else 0)
    res = A.transpose(Arr(out_t_shape, el, "float"), inv)
    res.geo = geo
    return res


# ----------------------------------------------------------------------------- equinox layers (shape semantics; content opaque)


class EqxIdentity(object):
    __axi_eqx__ = "Identity"

    def __call__(self, x, *a, **k):
        return x


class EqxGroupNorm(object):
    __axi_eqx__ = "GroupNorm"

    def __init__(self, W, groups, channels=None, eps=1e-5, channelwise_affine=True, **kw):
        self.W = W
        self.groups = A._as_int(groups)
        self.channels = None if channels is None else A._as_int(channels)
        self.eps = eps
        self.channelwise_affine = channelwise_affine
        if self.channels is not None and self.channels % self.groups:
            raise AbstractError("eqx.nn.GroupNorm: channels %d not divisible by groups %d" % (self.channels, self.groups))
        if channelwise_affine:
            if self.channels is None:
                raise AbstractError("eqx.nn.GroupNorm: channels required with channelwise_affine")
            self.weight = W.fresh_param((self.channels,), "gnw")
            self.bias = W.fresh_param((self.channels,), "gnb")
        else:
            self.weight = None
            self.bias = None
        self.site = A._SITE[0]

    def __call__(self, x, state=None, *a, **k):
        X = as_arr(x)
        if self.channels is not None and X.shape[0] != self.channels:
            raise AbstractError("eqx.nn.GroupNorm: expected %d channels, got input of shape %r" % (self.channels, X.shape))
        if X.shape[0] % self.groups:
            raise AbstractError("eqx.nn.GroupNorm: channels not divisible by groups")
        self.W.trace.append(("eqx_groupnorm", self, X, A._SITE[0]))
        geo = A._geo_call("eqx_groupnorm", self, X)
        if X.elems is None:
            return Arr(X.shape, None, "float", geo)
        cpg = X.shape[0] // self.groups
        # exact definition: per group, (x - mean) * rsqrt(var + eps) [* weight + bias]
        Xg = A.reshape(X, (self.groups, cpg) + X.shape[1:])
        axes = tuple(range(1, Xg.ndim))
        mean = A.reduce_("mean", Xg, axes, keepdims=True)
        cen = Xg - mean
        var = A.reduce_("mean", cen * cen, axes, keepdims=True)
        eps = self.eps if not isinstance(self.eps, Arr) else self.eps
        inv = A.ew1("rsqrt", var + eps)
        out = A.reshape(cen * inv, X.shape)
        if self.channelwise_affine:
            bshape = (X.shape[0],) + (1,) * (X.ndim - 1)
            out = out * A.reshape(self.weight, bshape) + A.reshape(self.bias, bshape)
        out = Arr(out.shape, out.elems, "float", geo)
        if state is not None:
            return out, state
        return out


class EqxBatchNorm(object):
    __axi_eqx__ = "BatchNorm"

    def __init__(self, W, input_size, axis_name=None, **kw):
        self.W = W
        self.input_size = A._as_int(input_size)
        self.axis_name = axis_name
        self.site = A._SITE[0]

    def __call__(self, x, state=None, **k):
        X = as_arr(x)
        if X.shape[0] != self.input_size:
            raise AbstractError("eqx.nn.BatchNorm: expected %d channels, got %r" % (self.input_size, X.shape))
        self.W.trace.append(("eqx_batchnorm", self, X, A._SITE[0]))
        geo = A._geo_call("eqx_nongeo", X.shape)
        if X.elems is None:
            return Arr(X.shape, None, "float", geo), state
        return Arr(X.shape, [Poly.fn("batchnorm", as_poly(e)) for e in X.elems], "float", geo), state


class EqxConv(object):
    __axi_eqx__ = "Conv"

    def __init__(self, W, transpose, num_spatial_dims, in_channels, out_channels, kernel_size, stride=1, padding=0, dilation=1, groups=1, use_bias=True, padding_mode="ZEROS", output_padding=0, dtype=None, key=None, **kw):
        self.W = W
        self.transpose = transpose
        self.nsp = A._as_int(num_spatial_dims)
        self.in_channels = A._as_int(in_channels)
        self.out_channels = A._as_int(out_channels)
        n = self.nsp

        def tup(v, what):
            if isinstance(v, (int, Fraction)) and not isinstance(v, bool):
                return (A._as_int(v),) * n
            t = tuple(A._as_int(x) for x in v)
            if len(t) != n:
                raise AbstractError("eqx.nn.Conv: %s %r must have length %d" % (what, v, n))
            return t

        self.kernel_size = tup(kernel_size, "kernel_size")
        self.stride = tup(stride, "stride")
        self.dilation = tup(dilation, "dilation")
        self.output_padding = tup(output_padding, "output_padding")
        if isinstance(padding, str):
            self.padding = padding.upper()
            if self.padding not in ("SAME", "VALID", "SAME_LOWER"):
                raise AbstractError("eqx.nn.Conv: unknown padding %r" % padding)
        elif isinstance(padding, (int, Fraction)) and not isinstance(padding, bool):
            self.padding = ((A._as_int(padding),) * 2,) * n
        else:
            pp = []
            for p in padding:
                if isinstance(p, (int, Fraction)) and not isinstance(p, bool):
                    pp.append((A._as_int(p), A._as_int(p)))
                else:
                    pp.append((A._as_int(p[0]), A._as_int(p[1])))
            if len(pp) != n:
                raise AbstractError("eqx.nn.Conv: padding %r must have length %d" % (padding, n))
            self.padding = tuple(pp)
        self.use_bias = use_bias
        self.groups = A._as_int(groups)
        if key is None:
            raise AbstractError("eqx.nn.Conv requires a key")
        self.weight = W.fresh_param((self.out_channels, self.in_channels // self.groups) + self.kernel_size, "cw")
        self.bias = W.fresh_param((self.out_channels,) + (1,) * n, "cb") if use_bias else None
        self.site = A._SITE[0]

    def out_spatial(self, insp):
        out = []
        for i, n in enumerate(insp):
            k, s, d = self.kernel_size[i], self.stride[i], self.dilation[i]
            keff = (k - 1) * d + 1
            if not self.transpose:
                if self.padding == "VALID":
                    lo = hi = 0
                elif isinstance(self.padding, str):
                    o = -(-n // s)
                    out.append(o)
                    continue
                else:
                    lo, hi = self.padding[i]
                p = n + lo + hi
                if p < keff:
                    raise AbstractError("eqx.nn.Conv: kernel larger than padded input")
                out.append((p - keff) // s + 1)
            else:
                if self.padding == "VALID":
                    lo = hi = 0
                elif isinstance(self.padding, str):
                    out.append(n * s)
                    continue
                else:
                    lo, hi = self.padding[i]
                out.append((n - 1) * s - lo - hi + keff + self.output_padding[i])
        return tuple(out)

    def __call__(self, x, *a, **k):
        X = as_arr(x)
        if X.ndim != self.nsp + 1:
            raise AbstractError("eqx.nn.Conv: input must have %d dimensions (channels, spatial...), got shape %r" % (self.nsp + 1, X.shape))
        if X.shape[0] != self.in_channels:
            raise AbstractError("eqx.nn.Conv: expected %d input channels, got %r" % (self.in_channels, X.shape))
        shape = (self.out_channels,) + self.out_spatial(X.shape[1:])
        self.W.trace.append(("eqx_conv", self, X, A._SITE[0]))
        geo = A._geo_call("eqx_nongeo", shape)
        if X.elems is None or not self.W.track:
            return Arr(shape, None, "float", geo)
        self.W.app_counter += 1
        key = sym_id(("convkey", tuple(pk(e) for e in X.elems)))
        return Arr(shape, [Poly.fn("eqxconv", self.weight.tag, key, i) for i in range(prod(shape))], "float", geo)
