"""Abstract arrays: concrete shapes, element provenance in the Poly algebra.

An ``Arr`` has a concrete shape (the configuration under analysis fixes all
sizes) and either ``elems`` -- a row-major list whose entries are exact numbers
(int / Fraction / bool: configuration constants such as index tables, group
elements, ones) or ``Poly`` values over abstract input leaves -- or
``elems is None`` (content not tracked: only the shape and the geometric type
``geo`` are propagated; used for whole models).

The functions below are the transfer functions for the NumPy / jax.numpy
re-layout and arithmetic API.  They never look at data values: leaves are
symbols.  Anything not modelled raises ``Unsupported`` which the driver maps to
ANALYSIS-ERROR (exit 2), never to a pass.
"""

import itertools
import math
from fractions import Fraction

from .poly import Poly, to_num, is_num, as_poly, even_fn, canon_sign, sym_key, poly_from_key, pk, unpk


class Unsupported(Exception):
    pass


class AbstractError(Exception):
    """An error the real code would raise (shape mismatch, bad index ...)."""

    pass


def prod(xs):
    r = 1
    for x in xs:
        r *= int(x)
    return r


CUT = [None]  # when set to an int: polynomials with more terms are interned as a single (signed) symbol


def set_cut(n):
    CUT[0] = n


def cut(p):
    """Intern a polynomial as one symbol, canonical up to sign: equal polynomials give the same symbol and
    cut(-p) == -cut(p).  Sound for proving equalities between two runs of the same code (the symbol stands
    for exactly that polynomial); used to keep terms small when whole networks are interpreted."""
    sgn, q = canon_sign(p)
    c = Poly.symbol(("cut", pk(q)[1]))
    return -c if sgn < 0 else c


def simp(e, allow_cut=True):
    if isinstance(e, Poly):
        if e.is_const():
            return e.const_value()
        if allow_cut and CUT[0] is not None and len(e.terms) > CUT[0]:
            return cut(e)
        return e
    if isinstance(e, float):
        return to_num(e)
    return e


def is_concrete(e):
    return isinstance(e, (int, Fraction, bool)) or (isinstance(e, float))


def norm_axis(ax, nd):
    if not isinstance(ax, int) or isinstance(ax, bool):
        ax = _as_int(ax)
    if ax < -nd or ax >= nd:
        raise AbstractError("axis %d out of bounds for array of dimension %d" % (ax, nd))
    return ax % nd if nd else 0


def _as_int(x):
    if isinstance(x, bool):
        return int(x)
    if isinstance(x, int):
        return x
    if isinstance(x, Fraction) and x.denominator == 1:
        return int(x)
    if isinstance(x, Arr) and x.elems is not None and x.size == 1 and is_concrete(x.elems[0]):
        return _as_int(to_num(x.elems[0]))
    if isinstance(x, float) and x == int(x):
        return int(x)
    raise AbstractError("expected an integer, got %r" % (x,))


def strides_of(shape):
    st = [1] * len(shape)
    for i in range(len(shape) - 2, -1, -1):
        st[i] = st[i + 1] * shape[i + 1]
    return st


_SITE = [None]  # current source site, set by the interpreter


def set_site(s):
    _SITE[0] = s


class Arr(object):
    __slots__ = ("shape", "elems", "dtype", "geo", "site", "tag")
    __array_priority__ = 1000

    def __init__(self, shape, elems, dtype="float", geo=None, tag=None):
        self.shape = tuple(int(s) for s in shape)
        for s in self.shape:
            if s < 0:
                raise AbstractError("negative dimension in shape %r" % (shape,))
        if elems is not None and len(elems) != prod(self.shape):
            raise AbstractError("internal: %d elems for shape %r" % (len(elems), self.shape))
        self.elems = elems
        self.dtype = dtype
        self.geo = geo
        self.site = _SITE[0]
        self.tag = tag

    # ------------------------------------------------------------ basic info
    @property
    def ndim(self):
        return len(self.shape)

    @property
    def size(self):
        return prod(self.shape)

    @property
    def T(self):
        return transpose(self)

    def __len__(self):
        if not self.shape:
            raise AbstractError("len() of unsized object")
        return self.shape[0]

    def __iter__(self):
        if not self.shape:
            raise AbstractError("iteration over a 0-d array")
        for i in range(self.shape[0]):
            yield self[i]

    def __repr__(self):
        if self.elems is None:
            return "Arr(shape=%r, untracked)" % (self.shape,)
        if self.size <= 6:
            return "Arr(shape=%r, %r)" % (self.shape, self.elems)
        return "Arr(shape=%r, [%r, ...])" % (self.shape, self.elems[0])

    def tracked(self):
        return self.elems is not None

    def is_concrete(self):
        return self.elems is not None and all(is_concrete(e) for e in self.elems)

    def item(self):
        if self.size != 1:
            raise AbstractError("item() of array of size %d" % self.size)
        if self.elems is None:
            raise Unsupported("item() of an untracked array")
        return self.elems[0]

    def tolist(self):
        if self.elems is None:
            raise Unsupported("tolist of untracked array")

        def rec(off, dims):
            if not dims:
                return self.elems[off]
            st = prod(dims[1:])
            return [rec(off + i * st, dims[1:]) for i in range(dims[0])]

        return rec(0, self.shape)

    # ------------------------------------------------------------ python protocol
    def __bool__(self):
        if self.size != 1:
            raise AbstractError("truth value of an array with more than one element is ambiguous")
        if self.elems is None:
            raise Unsupported("data-dependent branch on an untracked array")
        e = self.elems[0]
        if is_concrete(e):
            return bool(e)
        raise Unsupported("data-dependent branch on a symbolic array value")

    def __int__(self):
        return _as_int(self)

    def __index__(self):
        return _as_int(self)

    def __float__(self):
        raise Unsupported("float() of an abstract array")

    def __hash__(self):
        return id(self)

    # arithmetic
    def __add__(self, o):
        return ew2("add", self, o)

    def __radd__(self, o):
        return ew2("add", o, self)

    def __sub__(self, o):
        return ew2("sub", self, o)

    def __rsub__(self, o):
        return ew2("sub", o, self)

    def __mul__(self, o):
        return ew2("mul", self, o)

    def __rmul__(self, o):
        return ew2("mul", o, self)

    def __truediv__(self, o):
        return ew2("div", self, o)

    def __rtruediv__(self, o):
        return ew2("div", o, self)

    def __floordiv__(self, o):
        return ew2("floordiv", self, o)

    def __mod__(self, o):
        return ew2("mod", self, o)

    def __rfloordiv__(self, o):
        return ew2("floordiv", o, self)

    def __rmod__(self, o):
        return ew2("mod", o, self)

    def __rand__(self, o):
        return ew2("and", o, self)

    def __ror__(self, o):
        return ew2("or", o, self)

    def __pow__(self, o):
        return ew2("pow", self, o)

    def __rpow__(self, o):
        return ew2("pow", o, self)

    def __neg__(self):
        return ew1("neg", self)

    def __pos__(self):
        return self

    def __abs__(self):
        return ew1("abs", self)

    def __matmul__(self, o):
        return matmul(self, o)

    def __rmatmul__(self, o):
        return matmul(o, self)

    def __eq__(self, o):
        return ew2("eq", self, o)

    def __ne__(self, o):
        return ew2("ne", self, o)

    def __lt__(self, o):
        return ew2("lt", self, o)

    def __le__(self, o):
        return ew2("le", self, o)

    def __gt__(self, o):
        return ew2("gt", self, o)

    def __ge__(self, o):
        return ew2("ge", self, o)

    def __invert__(self):
        return ew1("not", self)

    def __and__(self, o):
        return ew2("and", self, o)

    def __or__(self, o):
        return ew2("or", self, o)

    # methods mirroring ndarray
    def reshape(self, *shape, **kw):
        if len(shape) == 1 and isinstance(shape[0], (tuple, list)):
            shape = tuple(shape[0])
        return reshape(self, shape)

    def transpose(self, *axes):
        if len(axes) == 1 and (axes[0] is None or isinstance(axes[0], (tuple, list))):
            axes = axes[0]
        if axes == ():
            axes = None
        return transpose(self, axes)

    def astype(self, dtype):
        return astype(self, dtype)

    def sum(self, axis=None, keepdims=False):
        return reduce_("sum", self, axis, keepdims)

    def mean(self, axis=None, keepdims=False):
        return reduce_("mean", self, axis, keepdims)

    def max(self, axis=None, keepdims=False):
        return reduce_("max", self, axis, keepdims)

    def min(self, axis=None, keepdims=False):
        return reduce_("min", self, axis, keepdims)

    def flatten(self):
        return reshape(self, (-1,))

    def ravel(self):
        return reshape(self, (-1,))

    def squeeze(self, axis=None):
        return squeeze(self, axis)

    def swapaxes(self, a, b):
        return swapaxes(self, a, b)

    def trace(self, offset=0, axis1=0, axis2=1):
        return trace(self, offset, axis1, axis2)

    def diagonal(self, offset=0, axis1=0, axis2=1):
        return diagonal(self, offset, axis1, axis2)

    def prod(self, axis=None, keepdims=False):
        return reduce_("prod", self, axis, keepdims)

    def any(self, axis=None, keepdims=False):
        return reduce_("any", self, axis, keepdims)

    def all(self, axis=None, keepdims=False):
        return reduce_("all", self, axis, keepdims)

    def dot(self, other):
        return self @ other

    def repeat(self, repeats, axis=None):
        return repeat(self, repeats, axis)

    def take(self, indices, axis=None):
        return take(self, indices, axis)

    def copy(self):
        return Arr(self.shape, None if self.elems is None else list(self.elems), self.dtype, self.geo)

    def __getitem__(self, key):
        return getitem(self, key)

    @property
    def at(self):
        return _At(self)


class _At(object):
    def __init__(self, arr):
        self.arr = arr

    def __getitem__(self, key):
        return _AtKey(self.arr, key)


class _AtKey(object):
    def __init__(self, arr, key):
        self.arr = arr
        self.key = key

    def set(self, val):
        return setitem(self.arr, self.key, val)

    def add(self, val):
        cur = getitem(self.arr, self.key)
        return setitem(self.arr, self.key, cur + val)


# ---------------------------------------------------------------------- constructors


NARROWED = []  # float64 NumPy scalars that were converted to (float32) JAX arrays


def as_arr(x, allow_none=False):
    if isinstance(x, Arr):
        return x
    if x is None and allow_none:
        return None
    if isinstance(x, (bool,)):
        return Arr((), [x], "bool")
    if isinstance(x, int):
        return Arr((), [x], "int")
    if isinstance(x, (Fraction, float)):
        return Arr((), [to_num(x)], "float")
    if isinstance(x, Poly):
        return Arr((), [simp(x)], "float")
    if isinstance(x, (list, tuple, range)):
        items = [as_arr(i) for i in x]
        if not items:
            return Arr((0,), [], "float")
        sh = items[0].shape
        for it in items:
            if it.shape != sh:
                raise AbstractError("inhomogeneous array literal: %r vs %r" % (it.shape, sh))
        if any(it.elems is None for it in items):
            return Arr((len(items),) + sh, None, items[0].dtype)
        el = []
        for it in items:
            el.extend(it.elems)
        dt = "float"
        if all(it.dtype == "bool" for it in items):
            dt = "bool"
        elif all(it.dtype in ("int", "bool") for it in items):
            dt = "int"
        return Arr((len(items),) + sh, el, dt)
    if type(x).__name__ == "NpScalar":
        # a NumPy floating scalar turned into a JAX array: float32 unless jax_enable_x64 (off by default), so a float64
        # value is narrowed here -- recorded for the checks that care about which values a comparison can still separate
        if getattr(x, "__axi_kind__", None) == "float64":
            NARROWED.append(x)
        return Arr((), [x.v], "float")
    if hasattr(x, "__iter__") and not isinstance(x, (str, bytes, dict)):
        return as_arr(list(x))
    raise Unsupported("cannot convert %s to an abstract array" % type(x).__name__)


def full(shape, val, dtype=None):
    shape = _shape_arg(shape)
    if isinstance(val, Arr):
        return broadcast_to(val, shape)
    v = simp(val) if isinstance(val, Poly) else to_num(val)
    dt = dtype or ("int" if isinstance(v, int) and not isinstance(val, float) else "float")
    return Arr(shape, [v] * prod(shape), dt)


def zeros(shape, dtype=None):
    shape = _shape_arg(shape)
    return Arr(shape, [0] * prod(shape), _dt(dtype, "float"))


def ones(shape, dtype=None):
    shape = _shape_arg(shape)
    return Arr(shape, [1] * prod(shape), _dt(dtype, "float"))


def _dt(dtype, default):
    if dtype is None:
        return default
    if dtype in (int, "int", "int32", "int64"):
        return "int"
    if dtype in (bool, "bool"):
        return "bool"
    if isinstance(dtype, str) and dtype.startswith("int"):
        return "int"
    return "float"


def _shape_arg(shape):
    if isinstance(shape, Arr):
        shape = [_as_int(e) for e in shape.elems]
    if isinstance(shape, (int, Fraction)) and not isinstance(shape, bool):
        return (_as_int(shape),)
    return tuple(_as_int(s) for s in shape)


def arange(*args, **kw):
    a = [_as_int(x) for x in args]
    r = range(*a)
    return Arr((len(r),), list(r), "int")


def eye(n, m=None, k=0, dtype=None):
    n = _as_int(n)
    m = n if m is None else _as_int(m)
    return Arr((n, m), [1 if j - i == k else 0 for i in range(n) for j in range(m)], "float")


def leaf(name, shape, geo=None, dtype="float"):
    """A fully symbolic input array: element idx is the symbol name[idx]."""
    shape = tuple(shape)
    el = [Poly.leaf(name, idx) for idx in itertools.product(*[range(s) for s in shape])]
    return Arr(shape, el, dtype, geo, tag=name)


def untracked(shape, geo=None, dtype="float"):
    return Arr(tuple(shape), None, dtype, geo)


# ---------------------------------------------------------------------- element-wise


def _ew_num(op, a, b):
    if op == "add":
        return a + b
    if op == "sub":
        return a - b
    if op == "mul":
        return a * b
    if op == "div":
        if b == 0:
            return Poly.fn("div", as_poly(a), as_poly(b))
        return to_num(Fraction(a) / Fraction(b)) if not isinstance(a, float) and not isinstance(b, float) else to_num(a / b)
    if op == "floordiv":
        return a // b
    if op == "mod":
        return a % b
    if op == "pow":
        try:
            if isinstance(b, int) or (isinstance(b, Fraction) and b.denominator == 1):
                return to_num(Fraction(a) ** int(b)) if not (a == 0 and b < 0) else Poly.fn("pow", as_poly(a), as_poly(b))
        except Exception:
            pass
        return Poly.fn("pow", as_poly(a), as_poly(b))
    if op == "eq":
        return a == b
    if op == "ne":
        return a != b
    if op == "lt":
        return a < b
    if op == "le":
        return a <= b
    if op == "gt":
        return a > b
    if op == "ge":
        return a >= b
    if op == "and":
        return bool(a) and bool(b) if isinstance(a, bool) and isinstance(b, bool) else a & b
    if op == "or":
        return bool(a) or bool(b) if isinstance(a, bool) and isinstance(b, bool) else a | b
    if op == "maximum":
        return max(a, b)
    if op == "minimum":
        return min(a, b)
    raise Unsupported("element-wise op %s" % op)


def _ew_sym(op, a, b):
    # sums are never interned (accumulation order must not matter); products and reductions are
    if op == "add":
        return simp(a + b, False)
    if op == "sub":
        return simp(a - b, False)
    if op == "mul":
        return simp(a * b)
    if op == "div":
        return simp(as_poly(a) / b)
    if op == "pow":
        return simp(as_poly(a) ** b)
    if op in ("eq", "ne"):
        pa, pb = as_poly(a), as_poly(b)
        if pa.terms == pb.terms:
            return op == "eq"
        return Poly.fn(op, pa, pb)
    return Poly.fn(op, as_poly(a), as_poly(b))


def _ew2e(op, a, b):
    if isinstance(a, Poly) or isinstance(b, Poly):
        return _ew_sym(op, a, b)
    return _ew_num(op, a, b)


_CMP = ("eq", "ne", "lt", "le", "gt", "ge", "and", "or")


def ew2(op, a, b):
    if a is None or b is None or isinstance(a, (str, dict)) or isinstance(b, (str, dict)):
        if op == "eq":
            return False
        if op == "ne":
            return True
        raise AbstractError("unsupported operand for %s: %r, %r" % (op, type(a).__name__, type(b).__name__))
    try:
        A = as_arr(a)
        B = as_arr(b)
    except Unsupported:
        if op == "eq":
            return False
        if op == "ne":
            return True
        raise
    shape = broadcast_shapes(A.shape, B.shape)
    if op in _CMP:
        dt = "bool"
    elif op == "div":
        dt = "float"
    elif A.dtype == "float" or B.dtype == "float":
        dt = "float"
    elif A.dtype == "int" or B.dtype == "int":
        dt = "int"
    else:
        dt = "int" if op in ("add", "sub", "mul") else "bool"
    geo = _geo_ew2(op, A, B, shape)
    if A.elems is None or B.elems is None:
        return Arr(shape, None, dt, geo)
    if A.shape == shape and B.shape == shape:
        el = [_ew2e(op, x, y) for x, y in zip(A.elems, B.elems)]
    elif B.size == 1 and A.shape == shape:
        y = B.elems[0]
        el = [_ew2e(op, x, y) for x in A.elems]
    elif A.size == 1 and B.shape == shape:
        x = A.elems[0]
        el = [_ew2e(op, x, y) for y in B.elems]
    else:
        ia = _bcast_index(A.shape, shape)
        ib = _bcast_index(B.shape, shape)
        ae, be = A.elems, B.elems
        el = [_ew2e(op, ae[i], be[j]) for i, j in zip(ia, ib)]
    return Arr(shape, el, dt, geo)


_FN1_EXACT = {
    "neg": lambda x: -x,
    "abs": lambda x: abs(x),
    "sign": lambda x: (x > 0) - (x < 0),
    "not": lambda x: (not x) if isinstance(x, bool) else ~x,
    "rint": lambda x: _rint(x),
    "floor": lambda x: math.floor(x),
    "ceil": lambda x: math.ceil(x),
    "square": lambda x: x * x,
    "isnan": lambda x: False,
}


def _rint(x):
    # round half to even, as numpy
    return int(round(Fraction(x)))


def ew1(op, a):
    A = as_arr(a)
    geo = _geo_ew1(op, A)
    dt = A.dtype
    if op in ("not", "isnan"):
        dt = "bool"
    elif op in ("sqrt", "exp", "log", "tanh", "relu", "gelu", "sigmoid"):
        dt = "float"
    if A.elems is None:
        return Arr(A.shape, None, dt, geo)
    f = _FN1_EXACT.get(op)
    el = []
    for x in A.elems:
        if isinstance(x, Poly):
            if op == "neg":
                el.append(-x)
            elif op == "square":
                el.append(simp(x * x))
            elif op == "stop_gradient":
                el.append(x)
            elif op == "abs":
                el.append(even_fn("abs", x))
            else:
                el.append(Poly.fn(op, x))
        else:
            if f is not None:
                el.append(to_num(f(x)) if not isinstance(f(x), bool) else f(x))
            elif op == "sqrt":
                el.append(_sqrt_exact(x))
            elif op == "stop_gradient":
                el.append(x)
            elif op == "relu":
                el.append(x if x > 0 else 0)
            else:
                el.append(Poly.fn(op, as_poly(x)))
    return Arr(A.shape, el, dt, geo)


def _sqrt_exact(x):
    x = to_num(x)
    if isinstance(x, (int, Fraction)) and x >= 0:
        fx = Fraction(x)
        n, d = fx.numerator, fx.denominator
        rn, rd = math.isqrt(n), math.isqrt(d)
        if rn * rn == n and rd * rd == d:
            return to_num(Fraction(rn, rd))
    return Poly.fn("sqrt", as_poly(x))


def sqrt(a):
    A = as_arr(a)
    geo = _geo_ew1("sqrt", A)
    if A.elems is None:
        return Arr(A.shape, None, "float", geo)
    el = []
    for x in A.elems:
        if isinstance(x, Poly):
            el.append(Poly.fn("sqrt", x))
        else:
            el.append(_sqrt_exact(x))
    return Arr(A.shape, el, "float", geo)


def broadcast_shapes(*shapes):
    nd = max(len(s) for s in shapes)
    out = []
    for i in range(nd):
        d = 1
        for s in shapes:
            j = i - (nd - len(s))
            if j < 0:
                continue
            if s[j] != 1:
                if d != 1 and d != s[j]:
                    raise AbstractError("shapes %s are not broadcast-compatible" % (shapes,))
                d = s[j]
        # size-0 handling
        for s in shapes:
            j = i - (nd - len(s))
            if j >= 0 and s[j] == 0:
                d = 0
        out.append(d)
    return tuple(out)


def _bcast_index(src, dst):
    """Flat source index for each flat destination index (row-major)."""
    nd = len(dst)
    src = (1,) * (nd - len(src)) + tuple(src)
    sst = strides_of(src)
    offs = [0]
    for ax in range(nd):
        if src[ax] == 1:
            offs = [o for o in offs for _ in range(dst[ax])]
        else:
            st = sst[ax]
            offs = [o + i * st for o in offs for i in range(dst[ax])]
    return offs


def broadcast_to(a, shape):
    A = as_arr(a)
    shape = _shape_arg(shape)
    if broadcast_shapes(A.shape, shape) != shape:
        raise AbstractError("cannot broadcast %r to %r" % (A.shape, shape))
    geo = _geo_broadcast(A, shape)
    if A.elems is None:
        return Arr(shape, None, A.dtype, geo)
    idx = _bcast_index(A.shape, shape)
    return Arr(shape, [A.elems[i] for i in idx], A.dtype, geo)


def where(c, a, b):
    C, A, B = as_arr(c), as_arr(a), as_arr(b)
    shape = broadcast_shapes(C.shape, A.shape, B.shape)
    if C.elems is None or A.elems is None or B.elems is None:
        return Arr(shape, None, A.dtype)
    ic, ia, ib = _bcast_index(C.shape, shape), _bcast_index(A.shape, shape), _bcast_index(B.shape, shape)
    el = []
    for i, j, k in zip(ic, ia, ib):
        cv = C.elems[i]
        if is_concrete(cv):
            el.append(A.elems[j] if cv else B.elems[k])
        else:
            el.append(Poly.fn("where", as_poly(cv), as_poly(A.elems[j]), as_poly(B.elems[k])))
    return Arr(shape, el, A.dtype if A.dtype == B.dtype else "float")


def astype(a, dtype):
    A = as_arr(a)
    dt = _dt(dtype, "float")
    if A.elems is None:
        return Arr(A.shape, None, dt, A.geo)
    if dt == "int":
        el = []
        for x in A.elems:
            if is_concrete(x):
                el.append(int(x) if not isinstance(x, Fraction) else int(x))  # truncation toward zero
            else:
                el.append(Poly.fn("toint", x))
        return Arr(A.shape, el, dt, A.geo)
    if dt == "bool":
        el = [bool(x) if is_concrete(x) else Poly.fn("tobool", x) for x in A.elems]
        return Arr(A.shape, el, dt, A.geo)
    el = [int(x) if isinstance(x, bool) else x for x in A.elems]
    return Arr(A.shape, el, dt, A.geo)


# ---------------------------------------------------------------------- re-layouts


def reshape(a, shape):
    A = as_arr(a)
    if isinstance(shape, (int, Fraction)) and not isinstance(shape, bool):
        shape = (shape,)
    shape = [(_as_int(s)) for s in shape]
    if shape.count(-1) > 1:
        raise AbstractError("can only specify one unknown dimension")
    if -1 in shape:
        known = prod([s for s in shape if s != -1])
        if known == 0 or A.size % known != 0:
            raise AbstractError("cannot reshape array of shape %r into shape %r" % (A.shape, tuple(shape)))
        shape[shape.index(-1)] = A.size // known
    if prod(shape) != A.size:
        raise AbstractError("cannot reshape array of shape %r (size %d) into shape %r" % (A.shape, A.size, tuple(shape)))
    geo = _geo_reshape(A, tuple(shape))
    return Arr(tuple(shape), A.elems, A.dtype, geo)


def transpose(a, axes=None):
    A = as_arr(a)
    nd = A.ndim
    if axes is None:
        axes = tuple(reversed(range(nd)))
    axes = tuple(norm_axis(x, nd) for x in axes)
    if sorted(axes) != list(range(nd)):
        raise AbstractError("axes %r don't match array of dimension %d" % (axes, nd))
    shape = tuple(A.shape[x] for x in axes)
    geo = _geo_transpose(A, axes)
    if A.elems is None:
        return Arr(shape, None, A.dtype, geo)
    st = strides_of(A.shape)
    offs = [0]
    for x in axes:
        s = st[x]
        offs = [o + i * s for o in offs for i in range(A.shape[x])]
    return Arr(shape, [A.elems[o] for o in offs], A.dtype, geo)


def moveaxis(a, source, destination):
    A = as_arr(a)
    nd = A.ndim
    src = [source] if isinstance(source, (int, Fraction)) else list(source)
    dst = [destination] if isinstance(destination, (int, Fraction)) else list(destination)
    src = [norm_axis(_as_int(s), nd) for s in src]
    dst = [norm_axis(_as_int(d), nd) for d in dst]
    if len(src) != len(dst):
        raise AbstractError("moveaxis: source and destination must have the same number of elements")
    if len(set(src)) != len(src) or len(set(dst)) != len(dst):
        raise AbstractError("moveaxis: repeated axis")
    order = [n for n in range(nd) if n not in src]
    for d, s in sorted(zip(dst, src)):
        order.insert(d, s)
    return transpose(A, order)


def swapaxes(a, x, y):
    A = as_arr(a)
    nd = A.ndim
    x, y = norm_axis(x, nd), norm_axis(y, nd)
    order = list(range(nd))
    order[x], order[y] = order[y], order[x]
    return transpose(A, order)


def expand_dims(a, axis):
    A = as_arr(a)
    axes = [axis] if isinstance(axis, int) else list(axis)
    nd = A.ndim + len(axes)
    axes = sorted(norm_axis(x, nd) for x in axes)
    shape = list(A.shape)
    for x in axes:
        shape.insert(x, 1)
    return reshape(A, shape)


def squeeze(a, axis=None):
    A = as_arr(a)
    if axis is None:
        shape = [s for s in A.shape if s != 1]
    else:
        axes = [axis] if isinstance(axis, int) else list(axis)
        axes = [norm_axis(x, A.ndim) for x in axes]
        for x in axes:
            if A.shape[x] != 1:
                raise AbstractError("cannot squeeze axis of size %d" % A.shape[x])
        shape = [s for i, s in enumerate(A.shape) if i not in axes]
    return reshape(A, shape)


def concatenate(arrs, axis=0):
    arrs = [as_arr(x) for x in arrs]
    if not arrs:
        raise AbstractError("need at least one array to concatenate")
    nd = arrs[0].ndim
    if nd == 0:
        raise AbstractError("zero-dimensional arrays cannot be concatenated")
    axis = norm_axis(_as_int(axis), nd)
    base = arrs[0].shape
    for x in arrs:
        if x.ndim != nd:
            raise AbstractError("concatenate: arrays must have the same number of dimensions, got %r and %r" % (base, x.shape))
        for i in range(nd):
            if i != axis and x.shape[i] != base[i]:
                raise AbstractError("concatenate: dimension mismatch off the concatenation axis: %r vs %r (axis %d)" % (base, x.shape, axis))
    total = sum(x.shape[axis] for x in arrs)
    shape = base[:axis] + (total,) + base[axis + 1:]
    geo = _geo_concat(arrs, axis, shape)
    dt = "float" if any(x.dtype == "float" for x in arrs) else arrs[0].dtype
    if any(x.elems is None for x in arrs):
        return Arr(shape, None, dt, geo)
    outer = prod(base[:axis])
    inner = prod(base[axis + 1:])
    el = []
    for o in range(outer):
        for x in arrs:
            n = x.shape[axis] * inner
            el.extend(x.elems[o * n:(o + 1) * n])
    return Arr(shape, el, dt, geo)


def trace(a, offset=0, axis1=0, axis2=1, dtype=None, out=None):
    """numpy.trace: sum along the diagonal of the (axis1, axis2) planes."""
    a = as_arr(a)
    if a.ndim < 2:
        raise AbstractError("trace needs at least 2 dimensions")
    axis1 = _as_int(axis1) % a.ndim if -a.ndim <= _as_int(axis1) < a.ndim else None
    axis2 = _as_int(axis2) % a.ndim if -a.ndim <= _as_int(axis2) < a.ndim else None
    if axis1 is None or axis2 is None:
        raise AbstractError("trace: axis out of range for an array of dimension %d" % a.ndim)
    if axis1 == axis2:
        raise AbstractError("trace: axis1 and axis2 cannot be the same")
    offset = _as_int(offset)
    m = moveaxis(a, (axis1, axis2), (-2, -1))
    n1, n2 = m.shape[-2], m.shape[-1]
    terms = []
    for i in range(n1):
        j = i + offset
        if 0 <= j < n2:
            terms.append(m[(Ellipsis, i, j)])
    if not terms:
        return zeros(m.shape[:-2])
    acc = terms[0]
    for t in terms[1:]:
        acc = acc + t
    return acc


def diagonal(a, offset=0, axis1=0, axis2=1):
    """numpy.diagonal: the diagonals of the (axis1, axis2) planes as a new last axis."""
    a = as_arr(a)
    if a.ndim < 2:
        raise AbstractError("diagonal needs at least 2 dimensions")
    m = moveaxis(a, (_as_int(axis1), _as_int(axis2)), (-2, -1))
    n1, n2 = m.shape[-2], m.shape[-1]
    offset = _as_int(offset)
    terms = [m[(Ellipsis, i, i + offset)] for i in range(n1) if 0 <= i + offset < n2]
    if not terms:
        return zeros(m.shape[:-2] + (0,))
    return stack(terms, -1)


def rot90(m, k=1, axes=(0, 1)):
    m = as_arr(m)
    ax0, ax1 = _as_int(axes[0]) % m.ndim, _as_int(axes[1]) % m.ndim
    if ax0 == ax1:
        raise AbstractError("rot90: axes must be different")
    k = _as_int(k) % 4
    if k == 0:
        return m
    if k == 2:
        return flip(flip(m, ax0), ax1)
    if k == 1:
        return swapaxes(flip(m, ax1), ax0, ax1)
    return flip(swapaxes(m, ax0, ax1), ax1)


def atleast_nd(a, n):
    a = as_arr(a)
    if n == 1 and a.ndim == 0:
        return reshape(a, (1,))
    if n == 2 and a.ndim < 2:
        return reshape(a, (1, -1)) if a.ndim == 1 else reshape(a, (1, 1))
    if n == 3 and a.ndim < 3:
        if a.ndim == 0:
            return reshape(a, (1, 1, 1))
        if a.ndim == 1:
            return reshape(a, (1, a.shape[0], 1))
        return reshape(a, a.shape + (1,))
    return a


def vstack(arrs):
    return concatenate([atleast_nd(x, 2) for x in arrs], 0)


def hstack(arrs):
    arrs = [atleast_nd(x, 1) for x in arrs]
    return concatenate(arrs, 0 if arrs and arrs[0].ndim == 1 else 1)


def dstack(arrs):
    return concatenate([atleast_nd(x, 3) for x in arrs], 2)


def append(arr, values, axis=None):
    if axis is None:
        return concatenate([reshape(as_arr(arr), (-1,)), reshape(as_arr(values), (-1,))], 0)
    return concatenate([as_arr(arr), as_arr(values)], axis)


def full_like(a, val, dtype=None):
    return full(as_arr(a).shape, val, dtype)


def kron(a, b):
    a, b = as_arr(a), as_arr(b)
    nd = max(a.ndim, b.ndim)
    a = reshape(a, (1,) * (nd - a.ndim) + a.shape)
    b = reshape(b, (1,) * (nd - b.ndim) + b.shape)
    ash, bsh = [], []
    for x, y in zip(a.shape, b.shape):
        ash += [x, 1]
        bsh += [1, y]
    prod_ = reshape(a, tuple(ash)) * reshape(b, tuple(bsh))
    return reshape(prod_, tuple(x * y for x, y in zip(a.shape, b.shape)))


def linspace(start, stop, num=50, endpoint=True, **k):
    from fractions import Fraction as _F

    num = _as_int(num)
    start, stop = as_arr(start), as_arr(stop)
    if start.ndim or stop.ndim or not start.is_concrete() or not stop.is_concrete():
        raise Unsupported("linspace with array / symbolic bounds")
    a, b = _F(start.elems[0]), _F(stop.elems[0])
    div = (num - 1) if endpoint else num
    vals = [a + (b - a) * _F(i, div) if div else a for i in range(num)]
    return Arr((num,), [int(v) if v.denominator == 1 else v for v in vals], "float")


def indices(dimensions, dtype=None, sparse=False):
    dims = tuple(_as_int(d) for d in dimensions)
    import itertools as _it

    outs = []
    for ax in range(len(dims)):
        outs.append(Arr(dims, [idx[ax] for idx in _it.product(*[range(d) for d in dims])], "int"))
    return stack(outs, 0) if outs else zeros((0,))


def meshgrid(*xs, indexing="xy", **k):
    xs = [as_arr(x) for x in xs]
    if any(x.ndim != 1 for x in xs):
        raise Unsupported("meshgrid of non-1-d inputs")
    n = len(xs)
    shape = [x.shape[0] for x in xs]
    outs = []
    for i, x in enumerate(xs):
        sh = [1] * n
        sh[i] = shape[i]
        outs.append(broadcast_to(reshape(x, tuple(sh)), tuple(shape)))
    if indexing == "xy" and n >= 2:
        outs = [swapaxes(o, 0, 1) for o in outs]
    return outs


def cumprod(a, axis=None):
    a = as_arr(a)
    if axis is None:
        a = reshape(a, (-1,))
        axis = 0
    axis = _as_int(axis) % a.ndim
    parts = []
    acc = None
    for i in range(a.shape[axis]):
        cur = take(a, [i], axis)
        acc = cur if acc is None else acc * cur
        parts.append(acc)
    return concatenate(parts, axis) if parts else a


def diff(a, n=1, axis=-1):
    a = as_arr(a)
    axis = _as_int(axis) % a.ndim
    for _ in range(_as_int(n)):
        m = a.shape[axis]
        a = take(a, list(range(1, m)), axis) - take(a, list(range(0, m - 1)), axis)
    return a


def _tri_mask(shape, k, lower):
    n, m = shape[-2], shape[-1]
    vals = []
    for i in range(n):
        for j in range(m):
            vals.append(1 if ((j - i <= k) if lower else (j - i >= k)) else 0)
    return Arr((n, m), vals, "int")


def tril(a, k=0):
    a = as_arr(a)
    return a * _tri_mask(a.shape, _as_int(k), True)


def triu(a, k=0):
    a = as_arr(a)
    return a * _tri_mask(a.shape, _as_int(k), False)


def rollaxis(a, axis, start=0):
    a = as_arr(a)
    axis = _as_int(axis) % a.ndim
    start = _as_int(start)
    if start < 0:
        start += a.ndim
    if start > axis:
        start -= 1
    return moveaxis(a, axis, start)


def array_split(a, sections, axis=0):
    a = as_arr(a)
    axis = _as_int(axis) % a.ndim
    n = a.shape[axis]
    if isinstance(sections, int):
        q, r = divmod(n, sections)
        sizes = [q + 1] * r + [q] * (sections - r)
    else:
        cuts = [0] + [_as_int(x) for x in sections] + [n]
        sizes = [max(0, min(n, cuts[i + 1]) - min(n, cuts[i])) for i in range(len(cuts) - 1)]
    out, pos = [], 0
    for sz in sizes:
        out.append(take(a, list(range(pos, pos + sz)), axis))
        pos += sz
    return out


def delete(a, obj, axis=None):
    a = as_arr(a)
    if axis is None:
        a = reshape(a, (-1,))
        axis = 0
    axis = _as_int(axis) % a.ndim
    n = a.shape[axis]
    o = as_arr(obj)
    if not o.is_concrete():
        raise Unsupported("delete with symbolic indices")
    drop = {int(x) % n for x in o.elems}
    return take(a, [i for i in range(n) if i not in drop], axis)


def count_nonzero(a, axis=None, keepdims=False):
    a = as_arr(a)
    if not a.is_concrete():
        raise Unsupported("count_nonzero of a symbolic array")
    return reduce_("sum", Arr(a.shape, [1 if e != 0 else 0 for e in a.elems], "int"), axis, keepdims)


def sort(a, axis=-1, **k):
    a = as_arr(a)
    if not a.is_concrete():
        raise Unsupported("sort of a symbolic array")
    if a.ndim == 0:
        return a
    axis = _as_int(axis) % a.ndim
    m = moveaxis(a, axis, -1)
    n = m.shape[-1]
    vals = []
    for r in range(0, len(m.elems), n):
        vals.extend(sorted(m.elems[r:r + n]))
    return moveaxis(Arr(m.shape, vals, a.dtype), -1, axis)


def take_along_axis(a, idx, axis):
    a, idx = as_arr(a), as_arr(idx)
    if not idx.is_concrete():
        raise Unsupported("take_along_axis with symbolic indices")
    axis = _as_int(axis) % a.ndim
    import itertools as _it

    shape = idx.shape
    bshape = tuple(a.shape[i] if i != axis else idx.shape[i] for i in range(a.ndim))
    if any(idx.shape[i] not in (1, bshape[i]) for i in range(a.ndim)):
        raise AbstractError("take_along_axis: incompatible shapes %r, %r" % (a.shape, idx.shape))
    idxb = broadcast_to(idx, bshape)
    vals = []
    for pos, j in zip(_it.product(*[range(d) for d in bshape]), idxb.elems):
        p = list(pos)
        p[axis] = int(j) % a.shape[axis]
        vals.append(a[tuple(p)].elems[0] if a.elems is not None else None)
    if a.elems is None:
        return untracked(bshape)
    return Arr(bshape, vals, a.dtype)


def stack(arrs, axis=0):
    arrs = [as_arr(x) for x in arrs]
    if not arrs:
        raise AbstractError("need at least one array to stack")
    nd = arrs[0].ndim + 1
    axis = norm_axis(_as_int(axis), nd)
    return concatenate([expand_dims(x, axis) for x in arrs], axis)


def split_sizes(a, sizes, axis):
    A = as_arr(a)
    axis = norm_axis(axis, A.ndim)
    out = []
    lo = 0
    for s in sizes:
        key = (slice(None),) * axis + (slice(lo, lo + s),)
        out.append(getitem(A, key))
        lo += s
    return out


def flip(a, axis=None):
    A = as_arr(a)
    axes = range(A.ndim) if axis is None else ([axis] if isinstance(axis, int) else axis)
    key = [slice(None)] * A.ndim
    for x in axes:
        key[norm_axis(x, A.ndim)] = slice(None, None, -1)
    return getitem(A, tuple(key))


def roll(a, shift, axis=None):
    A = as_arr(a)
    if axis is None:
        flat = reshape(A, (-1,))
        return reshape(roll(flat, shift, 0), A.shape)
    axes = [axis] if isinstance(axis, int) else list(axis)
    shifts = [shift] * len(axes) if isinstance(shift, int) else list(shift)
    out = A
    for s, x in zip(shifts, axes):
        x = norm_axis(x, A.ndim)
        n = A.shape[x]
        if n == 0:
            continue
        s = _as_int(s) % n
        idx = [(i - s) % n for i in range(n)]
        out = take(out, idx, x)
    return out


def take(a, indices, axis=None):
    A = as_arr(a)
    if axis is None:
        A = reshape(A, (-1,))
        axis = 0
    axis = norm_axis(axis, A.ndim)
    key = (slice(None),) * axis + (as_arr(indices),)
    return getitem(A, key)


def tile(a, reps):
    A = as_arr(a)
    reps = (reps,) if isinstance(reps, int) else tuple(reps)
    nd = max(A.ndim, len(reps))
    A = reshape(A, (1,) * (nd - A.ndim) + A.shape)
    reps = (1,) * (nd - len(reps)) + reps
    out = A
    for ax, r in enumerate(reps):
        if r != 1:
            out = concatenate([out] * r, ax)
    return out


def repeat(a, repeats, axis=None):
    A = as_arr(a)
    if axis is None:
        A = reshape(A, (-1,))
        axis = 0
    axis = norm_axis(axis, A.ndim)
    r = _as_int(repeats)
    idx = [i for i in range(A.shape[axis]) for _ in range(r)]
    return take(A, idx, axis)


def pad(a, pad_width, mode="constant", constant_values=0):
    A = as_arr(a)
    if isinstance(pad_width, int):
        pad_width = ((pad_width, pad_width),) * A.ndim
    pw = []
    for p in pad_width:
        if isinstance(p, int):
            pw.append((p, p))
        else:
            if len(p) != 2:
                raise AbstractError("pad_width entry %r is not a (before, after) pair" % (tuple(p),))
            pw.append((_as_int(p[0]), _as_int(p[1])))
    if len(pw) == 1 and A.ndim > 1:
        pw = pw * A.ndim
    if len(pw) != A.ndim:
        raise AbstractError("pad_width %r does not match array of dimension %d" % (pad_width, A.ndim))
    out = A
    geo = _geo_pad(A, pw, mode)
    for ax, (lo, hi) in enumerate(pw):
        if lo == 0 and hi == 0:
            continue
        if lo < 0 or hi < 0:
            raise AbstractError("negative pad width")
        n = out.shape[ax]
        if mode == "wrap":
            if n == 0:
                raise AbstractError("cannot wrap-pad an empty axis")
            idx = [(i - lo) % n for i in range(n + lo + hi)]
            out = take(out, idx, ax)
        elif mode in ("constant", "empty"):
            pieces = []
            if lo:
                pieces.append(full(out.shape[:ax] + (lo,) + out.shape[ax + 1:], constant_values) if out.elems is not None else untracked(out.shape[:ax] + (lo,) + out.shape[ax + 1:]))
            pieces.append(out)
            if hi:
                pieces.append(full(out.shape[:ax] + (hi,) + out.shape[ax + 1:], constant_values) if out.elems is not None else untracked(out.shape[:ax] + (hi,) + out.shape[ax + 1:]))
            out = concatenate(pieces, ax)
        elif mode == "edge":
            idx = [min(max(i - lo, 0), n - 1) for i in range(n + lo + hi)]
            out = take(out, idx, ax)
        elif mode == "reflect":
            if n < 2:
                raise Unsupported("reflect pad of axis with size < 2")
            period = 2 * (n - 1)
            idx = []
            for i in range(n + lo + hi):
                j = (i - lo) % period
                idx.append(j if j < n else period - j)
            out = take(out, idx, ax)
        elif mode == "symmetric":
            period = 2 * n
            idx = []
            for i in range(n + lo + hi):
                j = (i - lo) % period
                idx.append(j if j < n else period - 1 - j)
            out = take(out, idx, ax)
        else:
            raise Unsupported("pad mode %r" % (mode,))
    return Arr(out.shape, out.elems, out.dtype, geo)


# ---------------------------------------------------------------------- indexing


class _Oob(object):
    pass


def _norm_index_key(A, key):
    if not isinstance(key, tuple):
        key = (key,)
    # convert lists / ranges used as advanced indices
    key2 = []
    for k in key:
        if isinstance(k, (list, range)):
            k = as_arr(list(k))
        elif isinstance(k, tuple):
            k = as_arr(list(k))
        key2.append(k)
    key = key2
    # boolean mask (single) support
    n_ell = sum(1 for k in key if k is Ellipsis)
    if n_ell > 1:
        raise AbstractError("an index can only have a single ellipsis")
    consumed = 0
    for k in key:
        if k is None or k is Ellipsis:
            continue
        if isinstance(k, Arr) and k.dtype == "bool" and k.ndim > 0:
            consumed += k.ndim
        else:
            consumed += 1
    if consumed > A.ndim:
        raise AbstractError("too many indices for array: array is %d-dimensional, but %d were indexed" % (A.ndim, consumed))
    if n_ell:
        i = key.index(Ellipsis)
        key = key[:i] + [slice(None)] * (A.ndim - consumed) + key[i + 1:]
    else:
        key = key + [slice(None)] * (A.ndim - consumed)
    return key


def getitem(a, key):
    A = as_arr(a)
    key = _norm_index_key(A, key)
    # expand boolean masks into integer index arrays (concrete masks only)
    key2 = []
    ax = 0
    for k in key:
        if k is None:
            key2.append(None)
            continue
        if isinstance(k, Arr) and k.dtype == "bool" and k.ndim > 0:
            if not k.is_concrete():
                raise Unsupported("boolean-mask indexing with a data-dependent mask")
            if k.shape != A.shape[ax:ax + k.ndim]:
                raise AbstractError("boolean index shape mismatch")
            pos = [idx for idx, e in zip(itertools.product(*[range(s) for s in k.shape]), k.elems) if e]
            for d in range(k.ndim):
                key2.append(Arr((len(pos),), [p[d] for p in pos], "int"))
            ax += k.ndim
            continue
        key2.append(k)
        ax += 1
    key = key2

    st = strides_of(A.shape)
    groups = []  # (kind, payload) in source-axis order; kind: 'basic' list offs+size | 'new' | 'adv'
    adv = []  # (position in groups, axis, Arr)
    ax = 0
    for k in key:
        if k is None:
            groups.append(("new", None))
            continue
        n = A.shape[ax]
        if isinstance(k, slice):
            start, stop, step = k.start, k.stop, k.step
            start = None if start is None else _as_int(start)
            stop = None if stop is None else _as_int(stop)
            step = None if step is None else _as_int(step)
            r = range(*slice(start, stop, step).indices(n))
            groups.append(("slice", [i * st[ax] for i in r]))
        elif isinstance(k, Arr) and k.ndim == 0 and k.is_concrete() or isinstance(k, (int, Fraction)) and not isinstance(k, bool):
            i = _as_int(k)
            if i < -n or i >= n:
                raise AbstractError("index %d is out of bounds for axis %d with size %d" % (i, ax, n))
            groups.append(("int", (i % n) * st[ax]))
        elif isinstance(k, Arr):
            if k.elems is None:
                # index values unknown: only the shape of the result is determined
                key3 = [Arr(kk.shape, [0] * kk.size, "int") if (isinstance(kk, Arr) and kk.elems is None) else kk for kk in key]
                shp = getitem(Arr(A.shape, None, A.dtype), tuple(key3)).shape
                return Arr(shp, None, A.dtype)
            if not k.is_concrete():
                if A.elems is not None:
                    return _select(A, key, ax, k)
                raise Unsupported("indexing with a data-dependent index array")
            adv.append((len(groups), ax, k))
            groups.append(("adv", None))
        else:
            raise Unsupported("index of type %s" % type(k).__name__)
        ax += 1

    geo = _geo_getitem(A, key)
    out_shape = []
    if adv:
        bshape = broadcast_shapes(*[k.shape for _, _, k in adv])
        contrib = [0] * prod(bshape)
        oob = [False] * prod(bshape)
        for _, axx, k in adv:
            n = A.shape[axx]
            bi = _bcast_index(k.shape, bshape)
            for j, src in enumerate(bi):
                v = _as_int(to_num(k.elems[src]))
                if v < -n or v >= n:
                    oob[j] = True
                    v = 0
                contrib[j] += (v % n) * st[axx] if n else 0
        # NumPy: once an index array is present, integer scalars count as advanced indices too; the broadcast block
        # stays in place only if all advanced indices (arrays and integers) are adjacent, otherwise it goes first
        positions = [gi for gi, (kind, _) in enumerate(groups) if kind in ("adv", "int")]
        adjacent = positions == list(range(positions[0], positions[0] + len(positions)))
        seq = []
        if adjacent:
            placed = False
            for gi, (kind, payload) in enumerate(groups):
                if kind in ("adv", "int") and not placed:
                    seq.append(("advblock", None))
                    placed = True
                if kind != "adv":
                    seq.append((kind, payload))
        else:
            seq.append(("advblock", None))
            for kind, payload in groups:
                if kind != "adv":
                    seq.append((kind, payload))
    else:
        seq = groups
        contrib = oob = bshape = None

    offs = [0]
    oobs = None
    for kind, payload in seq:
        if kind == "new":
            out_shape.append(1)
        elif kind == "int":
            offs = [o + payload for o in offs]
        elif kind == "slice":
            out_shape.append(len(payload))
            offs = [o + p for o in offs for p in payload]
            if oobs is not None:
                oobs = [b for b in oobs for _ in payload]
        elif kind == "advblock":
            out_shape.extend(bshape)
            if any(oob):
                oobs = [b for _ in offs for b in oob]
            offs = [o + c for o in offs for c in contrib]
    out_shape = tuple(out_shape)
    if A.elems is None:
        return Arr(out_shape, None, A.dtype, geo)
    if oobs is not None and any(oobs):
        el = [A.elems[o] if not b else Poly.fn("out_of_bounds_read", A.tag or "array", o) for o, b in zip(offs, oobs)]
    else:
        el = [A.elems[o] for o in offs]
    return Arr(out_shape, el, A.dtype, geo)


def _select(A, key, ax, k):
    """x[..., idx, ...] with a *symbolic* integer index (scalar or array, e.g. an opaque
    permutation): each result element is an uninterpreted selection, by the index symbol, among the
    candidates along that axis.  Exact as provenance: equal index symbols select equal elements."""
    pos = [j for j, kk in enumerate(key) if kk is k][0]
    for j, kk in enumerate(key):
        if j != pos and isinstance(kk, Arr) and kk.ndim > 0:
            raise Unsupported("symbolic index combined with another advanced index")
    cands = []
    for i in range(A.shape[ax]):
        key2 = list(key)
        key2[pos] = i
        cands.append(getitem(A, tuple(key2)))
    S = cands[0].shape
    p = sum(1 for kk in key[:pos] if kk is None or isinstance(kk, slice))
    K = k.shape
    if any(c.elems is None for c in cands):
        return Arr(S[:p] + K + S[p:], None, A.dtype)
    nS = prod(S)
    ckeys = [tuple(pk(c.elems[j]) for c in cands) for j in range(nS)]
    el = []
    for e in k.elems:
        if is_concrete(e):
            i = _as_int(to_num(e))
            el.extend(cands[i].elems)
        else:
            idx = as_poly(e)
            amax = None
            sid = idx.single_symbol()
            if sid is not None:
                kk = sym_key(sid)
                if kk[0] == "fn" and kk[1] == "argmax" and len(kk[2]) == 1 and len(kk[2][0]) == len(cands):
                    amax = kk[2][0]
            for j in range(nS):
                if amax is not None:
                    # "the candidate whose comparator is maximal": order-free, and linear in the candidates
                    # (a common sign is pulled out) -- valid when the maximum is attained once
                    cp = [as_poly(c.elems[j]) for c in cands]
                    first = None
                    order = sorted(range(len(cp)), key=lambda q: amax[q])
                    sgn = 1
                    for q in order:
                        if cp[q].terms:
                            sgn, _ = canon_sign(cp[q])
                            break
                    if sgn < 0:
                        cp = [-c for c in cp]
                    sym = Poly.fn("pick_max", tuple(sorted(zip(amax, [pk(c) for c in cp]))))
                    el.append(-sym if sgn < 0 else sym)
                else:
                    el.append(Poly.fn("select", idx, ckeys[j]))
    out = Arr(K + S, el, A.dtype)
    if K and p:
        out = moveaxis(out, tuple(range(len(K))), tuple(range(p, p + len(K))))
    return out


def setitem(a, key, val):
    A = as_arr(a)
    if A.elems is None:
        return Arr(A.shape, None, A.dtype, A.geo)
    pos = getitem(Arr(A.shape, list(range(A.size)), "int"), key)
    V = broadcast_to(as_arr(val), pos.shape)
    el = list(A.elems)
    if V.elems is None:
        return Arr(A.shape, None, A.dtype, A.geo)
    for p, v in zip(pos.elems, V.elems):
        el[p] = v
    return Arr(A.shape, el, A.dtype, A.geo)


# ---------------------------------------------------------------------- reductions


def _axes_arg(axis, nd):
    if axis is None:
        return tuple(range(nd))
    if isinstance(axis, (int, Fraction)) and not isinstance(axis, bool):
        return (norm_axis(_as_int(axis), nd),)
    axes = tuple(norm_axis(_as_int(x), nd) for x in axis)
    if len(set(axes)) != len(axes):
        raise AbstractError("duplicate value in 'axis'")
    return axes


def poly_sum(items):
    acc = {}
    cst = 0
    for e in items:
        if isinstance(e, Poly):
            for m, c in e.terms.items():
                v = acc.get(m)
                if v is None:
                    acc[m] = c
                else:
                    v = v + c
                    if v == 0:
                        del acc[m]
                    else:
                        acc[m] = v
        else:
            cst = cst + (int(e) if isinstance(e, bool) else e)
    if not acc:
        return to_num(cst)
    if cst != 0:
        v = acc.get(())
        v = cst if v is None else v + cst
        if v == 0:
            acc.pop((), None)
        else:
            acc[()] = v
    p = Poly(acc)
    return simp(p)


def _reduce_elems(kind, items, n):
    if kind == "sum":
        return poly_sum(items)
    if kind == "mean":
        if n == 0:
            return Poly.fn("nan")
        s = poly_sum(items)
        return simp(as_poly(s) * Fraction(1, n)) if isinstance(s, Poly) else to_num(Fraction(s) / n)
    if kind == "prod":
        r = 1
        for e in items:
            r = r * e
        return simp(r) if isinstance(r, Poly) else r
    if kind in ("max", "min", "argmax", "argmin", "any", "all"):
        if all(is_concrete(e) for e in items):
            if kind == "max":
                return max(items)
            if kind == "min":
                return min(items)
            if kind == "argmax":
                return max(range(len(items)), key=lambda i: (items[i], -i))
            if kind == "argmin":
                return min(range(len(items)), key=lambda i: (items[i], i))
            if kind == "any":
                return any(items)
            if kind == "all":
                return all(items)
        return Poly.fn(kind, tuple(pk(e) for e in items))
    if kind == "norm2":
        s = poly_sum([simp(as_poly(e) * as_poly(e)) if isinstance(e, Poly) else e * e for e in items])
        if isinstance(s, Poly):
            return Poly.fn("sqrt", s)
        return _sqrt_exact(s)
    raise Unsupported("reduction %s" % kind)


def reduce_(kind, a, axis=None, keepdims=False):
    A = as_arr(a)
    if isinstance(axis, range):
        axis = tuple(axis)
    axes = _axes_arg(axis, A.ndim)
    keep = [i for i in range(A.ndim) if i not in axes]
    out_shape = tuple(A.shape[i] for i in keep)
    kd_shape = tuple(1 if i in axes else A.shape[i] for i in range(A.ndim))
    geo = _geo_reduce(kind, A, axes, keepdims)
    dt = A.dtype
    if kind in ("argmax", "argmin"):
        dt = "int"
    elif kind in ("any", "all"):
        dt = "bool"
    elif kind in ("mean", "norm2"):
        dt = "float"
    if A.elems is None:
        return Arr(kd_shape if keepdims else out_shape, None, dt, geo)
    st = strides_of(A.shape)
    red = [0]
    for x in axes:
        red = [o + i * st[x] for o in red for i in range(A.shape[x])]
    n = len(red)
    base = [0]
    for x in keep:
        base = [o + i * st[x] for o in base for i in range(A.shape[x])]
    ae = A.elems
    el = [_reduce_elems(kind, [ae[b + r] for r in red], n) for b in base]
    return Arr(kd_shape if keepdims else out_shape, el, dt, geo)


def linalg_norm(a, ord=None, axis=None, keepdims=False):
    A = as_arr(a)
    if ord not in (None, 2, "fro"):
        raise Unsupported("norm with ord=%r" % (ord,))
    return reduce_("norm2", A, axis, keepdims)


def cumsum(a, axis=None):
    A = as_arr(a)
    if axis is None:
        A = reshape(A, (-1,))
        axis = 0
    axis = norm_axis(axis, A.ndim)
    outs = []
    acc = None
    for i in range(A.shape[axis]):
        sl = take(A, [i], axis)
        acc = sl if acc is None else acc + sl
        outs.append(acc)
    return concatenate(outs, axis)


# ---------------------------------------------------------------------- contractions


def tensordot(a, b, axes=2):
    A, B = as_arr(a), as_arr(b)
    if isinstance(axes, int):
        n = axes
        ax_a = list(range(A.ndim - n, A.ndim))
        ax_b = list(range(n))
    else:
        ax_a, ax_b = axes
        ax_a = [ax_a] if isinstance(ax_a, int) else list(ax_a)
        ax_b = [ax_b] if isinstance(ax_b, int) else list(ax_b)
        ax_a = [norm_axis(x, A.ndim) for x in ax_a]
        ax_b = [norm_axis(x, B.ndim) for x in ax_b]
    la = [chr(97 + i) for i in range(A.ndim)]
    lb = [chr(97 + A.ndim + i) for i in range(B.ndim)]
    for x, y in zip(ax_a, ax_b):
        if A.shape[x] != B.shape[y]:
            raise AbstractError("tensordot: shape mismatch")
        lb[y] = la[x]
    out = [l for i, l in enumerate(la) if i not in ax_a] + [l for i, l in enumerate(lb) if i not in ax_b]
    return einsum("".join(la) + "," + "".join(lb) + "->" + "".join(out), A, B, _kind="tensordot")


def matmul(a, b):
    A, B = as_arr(a), as_arr(b)
    if A.ndim == 0 or B.ndim == 0:
        raise AbstractError("matmul: input operand does not have enough dimensions")
    if A.ndim == 1 and B.ndim == 1:
        return einsum("i,i->", A, B)
    if A.ndim == 1:
        return einsum("i,...ij->...j", A, B)
    if B.ndim == 1:
        return einsum("...ij,j->...i", A, B)
    return einsum("...ij,...jk->...ik", A, B)


def dot(a, b):
    A, B = as_arr(a), as_arr(b)
    if A.ndim == 0 or B.ndim == 0:
        return A * B
    if B.ndim == 1:
        return tensordot(A, B, axes=([A.ndim - 1], [0]))
    return tensordot(A, B, axes=([A.ndim - 1], [B.ndim - 2]))


def parse_einsum(spec, shapes):
    """Return (input letter lists, output letter list, sizes) with '...' expanded."""
    spec = spec.replace(" ", "")
    if "->" in spec:
        lhs, rhs = spec.split("->")
        explicit = True
    else:
        lhs, rhs = spec, None
        explicit = False
    ins = lhs.split(",")
    if len(ins) != len(shapes):
        raise AbstractError("einsum: %d operands for spec %r" % (len(shapes), spec))
    # ellipsis letters: use upper private chars
    ell_n = 0
    for s, sh in zip(ins, shapes):
        if "..." in s:
            n = len(sh) - (len(s) - 3)
            if n < 0:
                raise AbstractError("einsum: operand has too few dimensions for %r" % s)
            ell_n = max(ell_n, n)
    ell = [chr(0x3B1 + i) for i in range(ell_n)]  # greek letters
    in_l = []
    for s, sh in zip(ins, shapes):
        if "..." in s:
            n = len(sh) - (len(s) - 3)
            pre, post = s.split("...")
            letters = list(pre) + ell[ell_n - n:] + list(post)
        else:
            letters = list(s)
        if len(letters) != len(sh):
            raise AbstractError("einsum: operand of shape %r does not match subscripts %r" % (sh, s))
        in_l.append(letters)
    sizes = {}
    for letters, sh in zip(in_l, shapes):
        for l, d in zip(letters, sh):
            if l in sizes and sizes[l] != d:
                if sizes[l] == 1:
                    sizes[l] = d
                elif d != 1:
                    raise AbstractError("einsum: size of label %r does not match: %d vs %d" % (l, sizes[l], d))
            else:
                sizes.setdefault(l, d)
    if explicit:
        if "..." in rhs:
            pre, post = rhs.split("...")
            out_l = list(pre) + ell + list(post)
        else:
            out_l = list(rhs)
        for l in out_l:
            if l not in sizes:
                raise AbstractError("einsum: output label %r not in inputs" % l)
        if len(set(out_l)) != len(out_l):
            raise AbstractError("einsum: repeated output label")
    else:
        counts = {}
        for letters in in_l:
            for l in letters:
                counts[l] = counts.get(l, 0) + 1
        named = sorted(l for l in counts if counts[l] == 1 and l not in ell)
        out_l = ell + named
    return in_l, out_l, sizes


def einsum(spec, *ops, **kw):
    kind = kw.pop("_kind", "einsum")
    ops = [as_arr(o) for o in ops]
    in_l, out_l, sizes = parse_einsum(spec, [o.shape for o in ops])
    out_shape = tuple(sizes[l] for l in out_l)
    geo = _geo_einsum(kind, spec, in_l, out_l, sizes, ops)
    dt = "float" if any(o.dtype == "float" for o in ops) else ops[0].dtype
    if any(o.elems is None for o in ops):
        return Arr(out_shape, None, dt, geo)
    # first: per-operand diagonal extraction / internal sums for repeated letters handled generally below.
    cur_l = list(in_l[0])
    cur = _einsum_single(ops[0], cur_l, _needed(in_l, out_l, 0), sizes)
    cur_l = cur[1]
    cur_e = cur[0]
    for i in range(1, len(ops)):
        nxt = _einsum_single(ops[i], list(in_l[i]), _needed(in_l, out_l, i), sizes)
        need_after = set(out_l)
        for j in range(i + 1, len(ops)):
            need_after.update(in_l[j])
        cur_e, cur_l = _einsum_pair(cur_e, cur_l, nxt[0], nxt[1], need_after, sizes)
    # final: sum letters not in output, permute to output order
    extra = [l for l in cur_l if l not in out_l]
    res = Arr(tuple(sizes[l] if True else 0 for l in cur_l), cur_e, dt)
    if extra:
        res = reduce_("sum", res, tuple(cur_l.index(l) for l in extra))
        cur_l = [l for l in cur_l if l not in extra]
    # broadcast for output letters missing (cannot happen) and permute
    perm = [cur_l.index(l) for l in out_l]
    res = transpose(res, perm) if perm != list(range(len(perm))) else res
    out = Arr(out_shape, res.elems, dt, geo)
    return out


def _needed(in_l, out_l, i):
    need = set(out_l)
    for j, letters in enumerate(in_l):
        if j != i:
            need.update(letters)
    return need


def _einsum_single(A, letters, needed, sizes):
    """Handle repeated letters (diagonal) and letters only in this operand (sum)."""
    shape = A.shape
    uniq = []
    for l in letters:
        if l not in uniq:
            uniq.append(l)
    st = strides_of(shape)
    # broadcasting of size-1 dims against bigger label sizes
    lsz = {l: sizes[l] for l in uniq}
    offs = [0]
    for l in uniq:
        s = 0
        for ax, ll in enumerate(letters):
            if ll == l and shape[ax] != 1:
                s += st[ax]
        offs = [o + i * s for o in offs for i in range(lsz[l])]
    el = [A.elems[o] for o in offs]
    cur = Arr(tuple(lsz[l] for l in uniq), el, A.dtype)
    drop = [l for l in uniq if l not in needed]
    if drop:
        cur = reduce_("sum", cur, tuple(uniq.index(l) for l in drop))
        uniq = [l for l in uniq if l not in drop]
    return cur.elems, uniq


def _einsum_pair(ae, al, be, bl, need_after, sizes):
    out_l = [l for l in al if l in need_after] + [l for l in bl if l in need_after and l not in al]
    sum_l = [l for l in al if l not in need_after and l in bl]
    # letters in only one operand and not needed were already summed by _einsum_single
    a_only_drop = [l for l in al if l not in need_after and l not in bl]
    b_only_drop = [l for l in bl if l not in need_after and l not in al]
    if a_only_drop or b_only_drop:
        raise Unsupported("einsum internal: unexpected dangling label")
    ash = [sizes[l] for l in al]
    bsh = [sizes[l] for l in bl]
    ast_, bst_ = strides_of(ash), strides_of(bsh)
    a_off = [0]
    b_off = [0]
    for l in out_l:
        sa = ast_[al.index(l)] if l in al else 0
        sb = bst_[bl.index(l)] if l in bl else 0
        n = sizes[l]
        a_off = [o + i * sa for o in a_off for i in range(n)]
        b_off = [o + i * sb for o in b_off for i in range(n)]
    ra = [0]
    rb = [0]
    for l in sum_l:
        sa = ast_[al.index(l)]
        sb = bst_[bl.index(l)]
        n = sizes[l]
        ra = [o + i * sa for o in ra for i in range(n)]
        rb = [o + i * sb for o in rb for i in range(n)]
    el = []
    for oa, ob in zip(a_off, b_off):
        items = []
        for xa, xb in zip(ra, rb):
            x = ae[oa + xa]
            y = be[ob + xb]
            if (not isinstance(x, Poly) and x == 0) or (not isinstance(y, Poly) and y == 0):
                continue
            items.append(x * y)
        el.append(poly_sum(items) if len(items) != 1 else simp(items[0]))
    return el, out_l


def diag(a):
    A = as_arr(a)
    if A.ndim == 1:
        n = A.shape[0]
        if A.elems is None:
            return Arr((n, n), None, A.dtype)
        return Arr((n, n), [A.elems[i] if i == j else 0 for i in range(n) for j in range(n)], A.dtype)
    if A.ndim == 2:
        n = min(A.shape)
        return getitem(A, (Arr((n,), list(range(n)), "int"), Arr((n,), list(range(n)), "int")))
    raise AbstractError("diag requires 1-D or 2-D input")


def det_concrete(a):
    A = as_arr(a)
    if A.ndim != 2 or A.shape[0] != A.shape[1] or not A.is_concrete():
        raise Unsupported("determinant of a non-concrete matrix")
    n = A.shape[0]
    M = [[Fraction(A.elems[i * n + j]) for j in range(n)] for i in range(n)]
    det = Fraction(1)
    for c in range(n):
        piv = None
        for r in range(c, n):
            if M[r][c] != 0:
                piv = r
                break
        if piv is None:
            return 0
        if piv != c:
            M[c], M[piv] = M[piv], M[c]
            det = -det
        det *= M[c][c]
        for r in range(c + 1, n):
            f = M[r][c] / M[c][c]
            if f:
                for k in range(c, n):
                    M[r][k] -= f * M[c][k]
    return to_num(det)


def inv_concrete(a):
    A = as_arr(a)
    if A.ndim != 2 or A.shape[0] != A.shape[1] or not A.is_concrete():
        raise Unsupported("inverse of a non-concrete matrix")
    n = A.shape[0]
    M = [[Fraction(A.elems[i * n + j]) for j in range(n)] + [Fraction(int(i == j)) for j in range(n)] for i in range(n)]
    for c in range(n):
        piv = None
        for r in range(c, n):
            if M[r][c] != 0:
                piv = r
                break
        if piv is None:
            raise AbstractError("singular matrix")
        M[c], M[piv] = M[piv], M[c]
        pv = M[c][c]
        M[c] = [x / pv for x in M[c]]
        for r in range(n):
            if r != c and M[r][c] != 0:
                f = M[r][c]
                M[r] = [x - f * y for x, y in zip(M[r], M[c])]
    return Arr((n, n), [to_num(M[i][n + j]) for i in range(n) for j in range(n)], "float")


# ---------------------------------------------------------------------- geo hooks
# The geometric (role / equivariance-type) component is implemented in geo.py and
# installed here; until then every hook returns None (= unknown).

_GEO = {}


def install_geo(hooks):
    _GEO.update(hooks)


def _geo_call(name, *args):
    f = _GEO.get(name)
    if f is None:
        return None
    return f(*args)


def _geo_ew2(op, A, B, shape):
    return _geo_call("ew2", op, A, B, shape)


def _geo_ew1(op, A):
    return _geo_call("ew1", op, A)


def _geo_broadcast(A, shape):
    return _geo_call("broadcast", A, shape)


def _geo_reshape(A, shape):
    return _geo_call("reshape", A, shape)


def _geo_transpose(A, axes):
    return _geo_call("transpose", A, axes)


def _geo_concat(arrs, axis, shape):
    return _geo_call("concat", arrs, axis, shape)


def _geo_pad(A, pw, mode):
    return _geo_call("pad", A, pw, mode)


def _geo_getitem(A, key):
    return _geo_call("getitem", A, key)


def _geo_reduce(kind, A, axes, keepdims):
    return _geo_call("reduce", kind, A, axes, keepdims)


def _geo_einsum(kind, spec, in_l, out_l, sizes, ops):
    return _geo_call("einsum", kind, spec, in_l, out_l, sizes, ops)
