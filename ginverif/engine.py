"""Construction of an abstract interpreter instance bound to a repository tree."""

import os

from . import arr as A
from .interp import Interp
from .shims import World, make_shims
from . import poly


def make_interp(repo_root, track=True, n_devices=1, reset=True):
    if reset:
        poly.reset_symbols()
    w = World()
    w.track = track
    w.n_devices = n_devices
    shims = make_shims(w)
    it = Interp(repo_root, shims)
    w.interp = it
    it.world = w
    it.trace = w.trace
    return it, w


_CACHE = {}


def get_interp(repo_root, track=True, n_devices=1):
    """Interpreter cached per process (module loading happens once); per-obligation state is reset."""
    key = (repo_root, track)
    if key not in _CACHE:
        _CACHE[key] = make_interp(repo_root, track, n_devices)
        return _CACHE[key]
    it, w = _CACHE[key]
    poly.reset_symbols()
    del w.trace[:]
    w.param_counter = 0
    w.key_counter = 0
    w.app_counter = 0
    w.n_devices = n_devices
    w.allclose_mode = None
    w.allclose_false_for = None
    w.mark_stop_gradient = False
    w.track = track
    A.set_cut(None)
    it.steps = 0
    del it.stack[:]
    it.functions_entered.clear()
    return it, w
