"""Construction of an abstract interpreter instance bound to a repository tree."""

import os

from . import arr as A
from .interp import Interp
from .shims import World, make_shims
from . import poly


def make_interp(repo_root, track=True, n_devices=1, reset=True):
    if reset:
        poly.reset_symbols()
    w = World()
    w.track = track
    w.n_devices = n_devices
    shims = make_shims(w)
    it = Interp(repo_root, shims)
    w.interp = it
    it.world = w
    it.trace = w.trace
    return it, w
