"""CF: path enumeration for small structured functions (If / Assign / AugAssign / Return / Expr / Assert).

A path is (conds, effects, ret) where conds is a list of (test_ast, polarity), effects an ordered list
of (target_text, value_ast, kind) and ret the returned expression (or None).  Loops are not unrolled:
functions containing loops on the analysed paths are reported as unsupported by the caller.
"""

import ast
import copy


class PathUnsupported(Exception):
    pass


class Path(object):
    def __init__(self):
        self.conds = []
        self.effects = []
        self.ret = None
        self.returned = False
        self.calls = []

    def clone(self):
        p = Path()
        p.conds = list(self.conds)
        p.effects = list(self.effects)
        p.ret = self.ret
        p.returned = self.returned
        p.calls = list(self.calls)
        return p


def enumerate_paths(fn, max_paths=256):
    paths = [Path()]
    paths = _block(fn.body, paths, max_paths)
    return paths


def _block(stmts, paths, max_paths):
    for st in stmts:
        live = [p for p in paths if not p.returned]
        done = [p for p in paths if p.returned]
        if not live:
            return paths
        new = []
        if isinstance(st, ast.Expr):
            if isinstance(st.value, ast.Constant):
                new = live
            else:
                for p in live:
                    p.calls.append(st.value)
                new = live
        elif isinstance(st, (ast.Assign, ast.AnnAssign, ast.AugAssign)):
            for p in live:
                if isinstance(st, ast.Assign):
                    for t in st.targets:
                        p.effects.append((ast.unparse(t), st.value, "set"))
                elif isinstance(st, ast.AnnAssign):
                    if st.value is not None:
                        p.effects.append((ast.unparse(st.target), st.value, "set"))
                else:
                    p.effects.append((ast.unparse(st.target), st, "aug"))
            new = live
        elif isinstance(st, ast.Return):
            for p in live:
                p.ret = st.value
                p.returned = True
            new = live
        elif isinstance(st, ast.If):
            for p in live:
                a = p.clone()
                a.conds.append((st.test, True))
                b = p.clone()
                b.conds.append((st.test, False))
                new.extend(_block(st.body, [a], max_paths))
                new.extend(_block(st.orelse, [b], max_paths))
        elif isinstance(st, ast.Assert):
            for p in live:
                p.conds.append((st.test, True))
            new = live
        elif isinstance(st, ast.Pass):
            new = live
        elif isinstance(st, ast.Raise):
            for p in live:
                p.ret = st
                p.returned = True
            new = live
        else:
            raise PathUnsupported("statement %s at line %d" % (type(st).__name__, st.lineno))
        paths = done + new
        if len(paths) > max_paths:
            raise PathUnsupported("too many paths")
    return paths
