"""A Python-subset abstract interpreter over /repo's own ASTs (stdlib only).

Python-level values (ints, strings, tuples, dicts, None, ...) are concrete: they
are the *configuration* (dimension, signatures, flags, options).  Arrays are
abstract (``ginverif.arr.Arr``).  The function bodies interpreted are the ones
parsed from the repository's working tree on this run -- never a copy or model.

Unsupported constructs raise ``Unsupported`` (driver: ANALYSIS-ERROR, exit 2).
``AbstractAssert`` / ``AbstractRaise`` / ``AbstractError`` mean the real code
would raise at that point for *every* value of the abstract inputs.
"""

import ast
import builtins
import functools
import itertools
import math
import operator
import os
from fractions import Fraction

from . import arr as A
from .arr import Arr, Unsupported, AbstractError
from .poly import Poly, to_num


class AbstractAssert(Exception):
    def __init__(self, msg, site):
        Exception.__init__(self, msg)
        self.site = site

    def __reduce__(self):  # picklable across the worker pool (an unpicklable exception hangs Pool.map)
        return (AbstractAssert, (self.args[0] if self.args else "", self.site))


class AbstractRaise(Exception):
    def __init__(self, exc, site):
        Exception.__init__(self, "%s: %s" % (type(exc).__name__ if not isinstance(exc, str) else exc, exc))
        self.exc = exc
        self.site = site

    def __reduce__(self):
        return (AbstractRaise, (str(self.exc) if not isinstance(self.exc, str) else self.exc, self.site))


class StepLimit(Exception):
    pass


REJECTIONS = (AbstractAssert, AbstractRaise, AbstractError)


# --------------------------------------------------------------------------- values


class Env(object):
    __slots__ = ("vars", "parent", "redirect")

    def __init__(self, parent=None, vars=None):
        self.vars = {} if vars is None else vars
        self.parent = parent
        self.redirect = None  # name -> owning Env, for names declared global / nonlocal

    def lookup(self, name):
        e = self
        while e is not None:
            if name in e.vars:
                return e.vars[name]
            e = e.parent
        raise KeyError(name)


class ModuleVal(object):
    def __init__(self, name, path=None):
        self.__dict__["name"] = name
        self.__dict__["path"] = path
        self.__dict__["ns"] = {}
        self.__dict__["loaded"] = False

    def __getattr__(self, k):
        try:
            return self.__dict__["ns"][k]
        except KeyError:
            raise AttributeError("module %s has no attribute %s" % (self.__dict__["name"], k))

    def __setattr__(self, k, v):
        self.__dict__["ns"][k] = v

    def __repr__(self):
        return "<repo module %s>" % self.__dict__["name"]


class Func(object):
    def __init__(self, interp, node, module, env, defaults, kwdefaults, qualname, owner=None):
        self.interp = interp
        self.node = node
        self.module = module
        self.env = env
        self.defaults = defaults
        self.kwdefaults = kwdefaults
        self.qualname = qualname
        self.owner = owner
        self.__name__ = getattr(node, "name", "<lambda>")
        self.is_generator = None

    def __call__(self, *args, **kwargs):
        return self.interp.call_func(self, args, kwargs)

    def __get__(self, obj, objtype=None):  # not used by host python
        return self

    def __repr__(self):
        return "<repo function %s>" % self.qualname


class ClassMethod(object):
    def __init__(self, f):
        self.f = f


class StaticMethod(object):
    def __init__(self, f):
        self.f = f


class Property(object):
    def __init__(self, f):
        self.f = f


class BoundMethod(object):
    def __init__(self, obj, f):
        self.obj = obj
        self.f = f
        self.__name__ = getattr(f, "__name__", "method")

    def __call__(self, *args, **kwargs):
        return self.f(self.obj, *args, **kwargs)

    def __repr__(self):
        return "<bound %r of %r>" % (self.f, self.obj)


class ClassVal(object):
    def __init__(self, interp, name, bases, ns, module, qualname):
        self.interp = interp
        self.name = name
        self.__name__ = name
        self.bases = bases
        self.ns = ns
        self.module = module
        self.qualname = qualname
        self.pytree = False
        self.annotations = {}

    def mro(self):
        out = [self]
        for b in self.bases:
            if isinstance(b, ClassVal):
                for c in b.mro():
                    if c not in out:
                        out.append(c)
        return out

    def ext_bases(self):
        out = []
        for c in self.mro():
            for b in c.bases:
                if not isinstance(b, ClassVal):
                    out.append(b)
        return out

    def find(self, name):
        for c in self.mro():
            if name in c.ns:
                return c.ns[name], c
        return None, None

    def __call__(self, *args, **kwargs):
        return self.interp.instantiate(self, args, kwargs)

    def __getattr__(self, name):
        if name.startswith("__") and name.endswith("__"):
            raise AttributeError(name)
        return self.interp.getattr(self, name)

    def __repr__(self):
        return "<repo class %s>" % self.qualname

    def __hash__(self):
        return id(self)

    def __eq__(self, other):
        return self is other


_MISSING = object()


class Obj(object):
    """Instance of a repository class."""

    def __init__(self, cls):
        object.__setattr__(self, "cls", cls)
        object.__setattr__(self, "attrs", {})

    def __getattr__(self, name):
        return self.cls.interp.obj_getattr(self, name)

    def __setattr__(self, name, val):
        self.attrs[name] = val

    def _dunder(self, name, *args, **kw):
        f, _ = self.cls.find(name)
        if f is None:
            raise TypeError("%s object does not support %s" % (self.cls.name, name))
        return f(self, *args, **kw)

    def __call__(self, *args, **kw):
        return self._dunder("__call__", *args, **kw)

    def __getitem__(self, k):
        return self._dunder("__getitem__", k)

    def __setitem__(self, k, v):
        return self._dunder("__setitem__", k, v)

    def __contains__(self, k):
        return self._dunder("__contains__", k)

    def __len__(self):
        return self._dunder("__len__")

    def __add__(self, o):
        return self._dunder("__add__", o)

    def __sub__(self, o):
        return self._dunder("__sub__", o)

    def __mul__(self, o):
        return self._dunder("__mul__", o)

    def __rmul__(self, o):
        return self._dunder("__rmul__", o)

    def __truediv__(self, o):
        return self._dunder("__truediv__", o)

    def __eq__(self, o):
        f, _ = self.cls.find("__eq__")
        if f is None:
            return self is o
        return f(self, o)

    def __ne__(self, o):
        r = self.__eq__(o)
        return not r

    def __hash__(self):
        return id(self)

    def __bool__(self):
        f, _ = self.cls.find("__bool__")
        if f is not None:
            return f(self)
        f, _ = self.cls.find("__len__")
        if f is not None:
            return f(self) != 0
        return True

    def __str__(self):
        return "<%s instance>" % self.cls.name

    __repr__ = __str__


class SuperProxy(object):
    def __init__(self, cls, obj):
        self._cls = cls
        self._obj = obj

    def __getattr__(self, name):
        return self.lookup(name)

    def lookup(self, name):
        inst_cls = self._obj.cls if isinstance(self._obj, Obj) else self._obj
        mro = inst_cls.mro()
        i = mro.index(self._cls)
        for c in mro[i + 1:]:
            if name in c.ns:
                v = c.ns[name]
                if isinstance(v, ClassMethod):
                    return BoundMethod(inst_cls, v.f)
                if isinstance(v, StaticMethod):
                    return v.f
                if callable(v):
                    return BoundMethod(self._obj, v)
                return v
        # external bases (eqx.Module, object): __init__ is a no-op
        if name == "__init__":
            return lambda *a, **k: None
        raise AttributeError(name)


class TracerType(object):
    """jax.core.Tracer: arrays are tracers exactly while a jit / vmap wrapped function is being interpreted."""

    def __init__(self, world):
        self.world = world

    def __repr__(self):
        return "<class 'jax.core.Tracer'>"


class ArrayType(object):
    """Stand-in for jnp.ndarray / jax.Array / np.ndarray in isinstance tests."""

    def __init__(self, name):
        self.name = name

    def __repr__(self):
        return "<array type %s>" % self.name


class Opaque(object):
    """A value the analysis does not model; any use is Unsupported."""

    def __init__(self, what):
        object.__setattr__(self, "_what", what)

    def __getattr__(self, name):
        if name.startswith("__") and name.endswith("__"):
            raise AttributeError(name)
        return Opaque(self._what + "." + name)

    def __call__(self, *a, **k):
        raise Unsupported("call of unmodelled external %s" % self._what)

    def __repr__(self):
        return "<opaque %s>" % self._what


class _TypeShim(object):
    """Callable stand-in for a builtin type (int, float) that also answers isinstance."""

    def __init__(self, name, conv, isin):
        self.name = name
        self.__name__ = name
        self.conv = conv
        self.isin = isin

    def __call__(self, *a, **k):
        return self.conv(*a, **k)

    def __repr__(self):
        return "<class '%s'>" % self.name


class _ObjectShim(object):
    """The builtin `object` as the analysed code sees it: object() and object.__new__(cls) for repository classes
    (an instance without running __init__, as used by copy-like fast constructors)."""

    def __call__(self):
        return object()

    @staticmethod
    def __axi_new__(cls, *a, **k):
        if isinstance(cls, ClassVal):
            return Obj(cls)
        return object.__new__(cls)

    def __repr__(self):
        return "<class 'object'>"


class _Signal(object):
    __slots__ = ("kind", "value")

    def __init__(self, kind, value=None):
        self.kind = kind
        self.value = value


_BREAK = _Signal("break")
_CONTINUE = _Signal("continue")


BINOPS = {
    ast.Add: operator.add,
    ast.Sub: operator.sub,
    ast.Mult: operator.mul,
    ast.FloorDiv: operator.floordiv,
    ast.Mod: operator.mod,
    ast.Pow: operator.pow,
    ast.MatMult: operator.matmul,
    ast.BitAnd: operator.and_,
    ast.BitOr: operator.or_,
    ast.BitXor: operator.xor,
    ast.LShift: operator.lshift,
    ast.RShift: operator.rshift,
}

CMPOPS = {
    ast.Eq: operator.eq,
    ast.NotEq: operator.ne,
    ast.Lt: operator.lt,
    ast.LtE: operator.le,
    ast.Gt: operator.gt,
    ast.GtE: operator.ge,
}


def _is_exact_num(x):
    return isinstance(x, (int, Fraction)) and not isinstance(x, bool)


def py_div(a, b):
    if _is_exact_num(a) and _is_exact_num(b):
        if b == 0:
            raise AbstractError("division by zero")
        return to_num(Fraction(a) / Fraction(b))
    if isinstance(a, bool) or isinstance(b, bool):
        return py_div(int(a) if isinstance(a, bool) else a, int(b) if isinstance(b, bool) else b)
    if isinstance(a, float) or isinstance(b, float):
        return to_num(a / b)
    return operator.truediv(a, b)


def py_pow(a, b):
    if _is_exact_num(a) and _is_exact_num(b):
        if isinstance(b, int):
            if b >= 0 or a != 0:
                return to_num(Fraction(a) ** b)
            raise AbstractError("0 to a negative power")
        # fractional exponent: exact only for perfect powers
        if b == Fraction(1, 2):
            r = A._sqrt_exact(a)
            if not isinstance(r, Poly):
                return r
        return Arr((), [Poly.fn("pow", Poly.const(a), Poly.const(b))], "float")
    return operator.pow(a, b)


def _has_own_yield(fn):
    """Does the function body yield (not counting nested function definitions)?"""
    todo = list(fn.body)
    while todo:
        n = todo.pop()
        if isinstance(n, (ast.Yield, ast.YieldFrom)):
            return True
        if isinstance(n, (ast.FunctionDef, ast.AsyncFunctionDef, ast.Lambda, ast.ClassDef)):
            continue
        todo.extend(ast.iter_child_nodes(n))
    return False


def _snapshot(args, kwargs, f):
    """Record the mutable state reachable from the arguments of a call: attribute tables of repository objects, dicts
    (with their key order), lists, sets and the element tables of arrays (item assignment replaces the table)."""
    recs = []
    seen = set()
    names = []
    a = getattr(f.node, "args", None)
    if a is not None:
        names = [x.arg for x in list(a.posonlyargs) + list(a.args)]

    def walk(v, path, depth):
        if depth > 6 or id(v) in seen:
            return
        if isinstance(v, Obj):
            seen.add(id(v))
            attrs = object.__getattribute__(v, "attrs")
            recs.append(("obj", path, v, list(attrs.items())))
            for k, x in list(attrs.items()):
                walk(x, "%s.%s" % (path, k), depth + 1)
        elif isinstance(v, dict):
            seen.add(id(v))
            recs.append(("dict", path, v, list(v.items())))
            for k, x in list(v.items()):
                walk(x, "%s[%r]" % (path, k), depth + 1)
        elif isinstance(v, (list, set)):
            seen.add(id(v))
            recs.append(("seq", path, v, list(v)))
            if isinstance(v, list):
                for i, x in enumerate(v):
                    walk(x, "%s[%d]" % (path, i), depth + 1)
        elif isinstance(v, tuple):
            for i, x in enumerate(v):
                walk(x, "%s[%d]" % (path, i), depth + 1)
        elif isinstance(v, Arr):
            seen.add(id(v))
            recs.append(("arr", path, v, (v.elems, v.shape)))

    for i, v in enumerate(args):
        walk(v, names[i] if i < len(names) else "arg%d" % i, 0)
    for k, v in kwargs.items():
        walk(v, k, 0)
    return recs


def _changed(recs):
    out = []
    for kind, path, v, old in recs:
        if kind == "obj":
            cur = list(object.__getattribute__(v, "attrs").items())
        elif kind == "dict":
            cur = list(v.items())
        elif kind == "seq":
            cur = list(v)
        else:
            if v.elems is not old[0] or v.shape != old[1]:
                out.append("%s (array written in place)" % path)
            continue
        if kind == "obj":
            # filling an empty slot (an attribute that was absent or None) is how lazily computed values are kept on an
            # object; whether such a value can go stale is the STATE rule's question (S2), not a change of the operand
            oldd, curd = dict(old), dict(cur)
            gone = [k for k in oldd if k not in curd]
            if gone:
                out.append("%s.%s (attribute deleted)" % (path, gone[0]))
                continue
            for k, b in cur:
                if k not in oldd or oldd[k] is None:
                    continue
                a = oldd[k]
                if a is not b and not _same_value(a, b):
                    out.append("%s.%s (re-bound)" % (path, k))
                    break
            continue
        if len(cur) != len(old):
            out.append("%s (%d -> %d entries)" % (path, len(old), len(cur)))
            continue
        for a, b in zip(old, cur):
            if kind == "seq":
                if a is not b and a != b:
                    out.append("%s (element replaced)" % path)
                    break
            else:
                if a[0] != b[0]:
                    out.append("%s (key order / key set changed: %r -> %r)" % (path, a[0], b[0]))
                    break
                if a[1] is not b[1] and not _same_value(a[1], b[1]):
                    out.append("%s%s (re-bound)" % (path, (".%s" % a[0]) if kind == "obj" else "[%r]" % (a[0],)))
                    break
    return out


def _same_value(a, b):
    if type(a) is not type(b):
        return False
    if isinstance(a, (int, str, bool, tuple, float, type(None))) or _is_exact_num(a):
        try:
            return a == b
        except Exception:
            return False
    return False


class Interp(object):
    def __init__(self, repo_root, shims, src_rel="src"):
        self.repo_root = repo_root
        self.src_root = os.path.join(repo_root, src_rel)
        self.modules = {}
        self.shims = shims  # name -> module-like object
        self.trace = []
        self.steps = 0
        self.step_limit = 5_000_000
        self.stack = []
        self.cur_file = None
        self.functions_entered = set()
        self.branches = {}  # (file, line, col) -> bit 1: test seen true, bit 2: test seen false
        self.builtins = self._make_builtins()
        self.pytree_classes = set()
        self.jit_roundtrip = True
        self.mutations = set()  # PURITY: (module, qualname, what) of in-place changes to the arguments of harness-level calls

    # ------------------------------------------------------------------ modules
    def module_path(self, name):
        rel = name.replace(".", os.sep)
        p = os.path.join(self.src_root, rel + ".py")
        if os.path.isfile(p):
            return p
        p = os.path.join(self.src_root, rel, "__init__.py")
        if os.path.isfile(p):
            return p
        return None

    def get_module(self, name):
        if name in self.modules:
            return self.modules[name]
        if name in self.shims:
            return self.shims[name]
        top = name.split(".")[0]
        path = self.module_path(name)
        if path is None:
            if top in self.shims or name in self.shims:
                # attribute of a shim package
                obj = self.shims[top]
                for part in name.split(".")[1:]:
                    obj = getattr(obj, part)
                return obj
            return Opaque(name)
        mod = ModuleVal(name, path)
        self.modules[name] = mod
        with open(path, "r") as f:
            src = f.read()
        tree = ast.parse(src, filename=path)
        mod.__dict__["tree"] = tree
        mod.__dict__["ns"]["__name__"] = name
        env = Env(None, mod.__dict__["ns"])
        mod.__dict__["env"] = env
        if name in self.opaque_repo_modules():
            mod.__dict__["loaded"] = True
            return mod
        old_file = self.cur_file
        self.cur_file = path
        self.stack.append((path, "<module>", name))
        try:
            self.exec_block(tree.body, env, mod, None)
        finally:
            self.stack.pop()
            self.cur_file = old_file
        mod.__dict__["loaded"] = True
        return mod

    def opaque_repo_modules(self):
        return ("ginjax.utils",)

    # ------------------------------------------------------------------ builtins
    def _make_builtins(self):
        b = {}
        for name in (
            "len range tuple list dict set frozenset zip enumerate min max abs bool str sorted reversed map filter "
            "next iter callable any all divmod round repr id slice object ValueError NotImplementedError TypeError "
            "AssertionError KeyError IndexError RuntimeError Exception StopIteration NotImplemented Ellipsis ord chr "
            "hash format".split()
        ):
            b[name] = getattr(builtins, name)
        b["print"] = lambda *a, **k: None
        b["object"] = _ObjectShim()
        b["isinstance"] = self.b_isinstance
        b["issubclass"] = self.b_issubclass
        b["type"] = self.b_type
        b["super"] = None  # handled in eval_call
        b["getattr"] = self.b_getattr
        b["hasattr"] = self.b_hasattr
        b["setattr"] = self.b_setattr
        b["int"] = _TypeShim("int", self.b_int, lambda x: isinstance(x, int))
        b["float"] = _TypeShim("float", self.b_float, lambda x: isinstance(x, (float, Fraction)) or bool(getattr(x, "__axi_is_pyfloat__", False)))
        b["sum"] = self.b_sum
        b["classmethod"] = ClassMethod
        b["staticmethod"] = StaticMethod
        b["property"] = Property
        b["open"] = Opaque("open")
        b["True"] = True
        b["False"] = False
        b["None"] = None
        return b

    def b_isinstance(self, x, c):
        if isinstance(c, tuple):
            return any(self.b_isinstance(x, cc) for cc in c)
        if isinstance(c, _TypeShim):
            return c.isin(x)
        if isinstance(c, ClassVal):
            return isinstance(x, Obj) and c in x.cls.mro()
        if isinstance(c, ArrayType):
            return isinstance(x, Arr)
        if isinstance(c, TracerType):
            return isinstance(x, Arr) and c.world.trace_depth > 0
        if c is float:
            return isinstance(x, (float, Fraction)) or bool(getattr(x, "__axi_is_pyfloat__", False))
        if c is int:
            return isinstance(x, int)
        if isinstance(c, type):
            return isinstance(x, c)
        if isinstance(c, Opaque):
            raise Unsupported("isinstance against unmodelled type %r" % (c,))
        marker = getattr(c, "__axi_isinstance__", None)
        if marker is not None:
            if isinstance(x, (float, Fraction)) and "pyfloat" in getattr(c, "kinds", ()):
                return True
            return marker(x)
        raise Unsupported("isinstance against %r" % (c,))

    def b_issubclass(self, a, c):
        if isinstance(a, ClassVal) and isinstance(c, ClassVal):
            return c in a.mro()
        return issubclass(a, c)

    def b_type(self, x, *rest):
        if rest:
            raise Unsupported("3-argument type()")
        if isinstance(x, Obj):
            return x.cls
        if isinstance(x, Fraction):
            return float
        return type(x)

    def b_getattr(self, x, name, *default):
        try:
            return self.getattr(x, name)
        except AttributeError:
            if default:
                return default[0]
            raise

    def b_hasattr(self, x, name):
        try:
            self.getattr(x, name)
            return True
        except AttributeError:
            return False

    def b_setattr(self, x, name, v):
        setattr(x, name, v)

    def b_int(self, x=0, *a):
        if isinstance(x, Arr):
            return A._as_int(x) if x.is_concrete() else self._unsup("int() of a symbolic array")
        if isinstance(x, Fraction):
            return int(x)
        return int(x, *a)

    def b_float(self, x=0):
        if hasattr(x, "__axi_kind__"):
            return to_num(x.v)
        if isinstance(x, Arr):
            if x.size == 1 and x.is_concrete():
                return to_num(x.elems[0])
            raise Unsupported("float() of a symbolic array")
        if isinstance(x, str):
            return to_num(float(x))
        return to_num(x)

    def b_sum(self, items, start=0):
        r = start
        for i in items:
            r = r + i
        return r

    def _unsup(self, msg):
        raise Unsupported(msg)

    # ------------------------------------------------------------------ attribute access
    def getattr(self, v, name):
        if isinstance(v, Obj):
            return self.obj_getattr(v, name)
        if isinstance(v, SuperProxy):
            return v.lookup(name)
        if isinstance(v, ClassVal):
            if name in ("__name__", "__qualname__"):
                return v.name
            if name == "__mro__":
                return tuple(v.mro())
            if name == "__class__":
                return type
            a, owner = v.find(name)
            if owner is None and name == "__new__":
                return _ObjectShim.__axi_new__  # inherited from object: an instance without __init__
            if owner is None:
                raise AttributeError("class %s has no attribute %s" % (v.name, name))
            if isinstance(a, ClassMethod):
                return BoundMethod(v, a.f)
            if isinstance(a, StaticMethod):
                return a.f
            return a
        if isinstance(v, ModuleVal):
            ns = v.__dict__["ns"]
            if name in ns:
                return ns[name]
            # submodule?
            sub = v.__dict__["name"] + "." + name
            if self.module_path(sub):
                return self.get_module(sub)
            raise AttributeError("module %s has no attribute %s" % (v.__dict__["name"], name))
        if isinstance(v, Fraction) and name in ("real",):
            return v
        if isinstance(v, _ObjectShim) and name == "__new__":
            return _ObjectShim.__axi_new__
        return getattr(v, name)

    def obj_getattr(self, o, name):
        attrs = object.__getattribute__(o, "attrs")
        if name in attrs:
            return attrs[name]
        cls = object.__getattribute__(o, "cls")
        if name == "__class__":
            return cls
        if name == "__dict__":
            return attrs
        a, owner = cls.find(name)
        if owner is None:
            for eb in cls.ext_bases():
                h = getattr(eb, "__axi_getattr__", None)
                if h is not None:
                    r = h(o, name)
                    if r is not _MISSING:
                        return r
            raise AttributeError("%s object has no attribute %s" % (cls.name, name))
        if isinstance(a, ClassMethod):
            return BoundMethod(cls, a.f)
        if isinstance(a, StaticMethod):
            return a.f
        if isinstance(a, Property):
            return a.f(o)
        if isinstance(a, (Func,)) or getattr(a, "__axi_method__", False):
            return BoundMethod(o, a)
        return a

    # ------------------------------------------------------------------ class instantiation
    def instantiate(self, cls, args, kwargs):
        for eb in cls.ext_bases():
            h = getattr(eb, "__axi_new__", None)
            if h is not None:
                return h(self, cls, args, kwargs)
        o = Obj(cls)
        init, owner = cls.find("__init__")
        if init is not None:
            init(o, *args, **kwargs)
            return o
        for eb in cls.ext_bases():
            h = getattr(eb, "__axi_init__", None)
            if h is not None:
                h(self, o, args, kwargs)
                return o
        if any(getattr(c, "dataclass_init", False) for c in cls.mro()):
            from .shims import EqxModuleBase

            EqxModuleBase.__axi_init__(self, o, args, kwargs)
            post, _ = cls.find("__post_init__")
            if post is not None:
                post(o)
            return o
        if args or kwargs:
            raise AbstractError("%s() takes no arguments" % cls.name)
        return o

    # ------------------------------------------------------------------ calls
    def call_func(self, f, args, kwargs):
        # PURITY guard: a call made by the harness (empty interpreter stack) is a call of the public API under analysis;
        # what it does in place to the objects it was handed is recorded (see purity.py for the rule and the contract table)
        if self.stack or self.mutations is None or isinstance(f.node, ast.Lambda):
            return self._call_func(f, args, kwargs)
        snap = _snapshot(args, kwargs, f)
        out = self._call_func(f, args, kwargs)
        for what in _changed(snap):
            self.mutations.add((f.module.__dict__["name"], f.qualname, what, f.module.__dict__["path"], getattr(f.node, "lineno", None)))
        return out

    def _call_func(self, f, args, kwargs):
        node = f.node
        if f.is_generator is None:
            f.is_generator = _has_own_yield(node) if not isinstance(node, ast.Lambda) else False
        if f.is_generator and not getattr(self, "_running_generator", None) is f:
            # a generator is run eagerly: its yielded values are collected and handed back as an iterator (sound for
            # the finite, side-effect-free generators a numerical library uses; `send` / lazy interleaving is not modelled)
            prev = (getattr(self, "_running_generator", None), getattr(self, "_yielded", None))
            self._running_generator, self._yielded = f, []
            try:
                self._call_func(f, args, kwargs)
                out = self._yielded
            finally:
                self._running_generator, self._yielded = prev
            return iter(out)
        env = Env(f.env if f.env is not None else f.module.__dict__["env"])
        self.bind_args(f, node.args, args, kwargs, env)
        path = f.module.__dict__["path"]
        self.stack.append((path, f.qualname, f.module.__dict__["name"]))
        self.functions_entered.add((f.module.__dict__["name"], f.qualname))
        old_file = self.cur_file
        self.cur_file = path
        if len(self.stack) > 200:
            raise Unsupported("recursion too deep")
        try:
            if isinstance(node, ast.Lambda):
                return self.eval(node.body, env, f)
            sig = self.exec_block(node.body, env, f.module, f)
            if sig is not None and sig.kind == "return":
                return sig.value
            return None
        finally:
            self.stack.pop()
            self.cur_file = old_file

    def call_prefix(self, f, args, kwargs, n_stmts):
        """Interpret only the first n_stmts top-level statements of a repository function and return its
        local variables (used to inspect an intermediate value; the rest of the body is decided by other rules)."""
        f = getattr(f, "f", f)
        while not isinstance(f, Func) and hasattr(f, "f"):
            f = f.f
        node = f.node
        env = Env(f.env if f.env is not None else f.module.__dict__["env"])
        self.bind_args(f, node.args, args, kwargs, env)
        path = f.module.__dict__["path"]
        self.stack.append((path, f.qualname, f.module.__dict__["name"]))
        old_file = self.cur_file
        self.cur_file = path
        try:
            sig = self.exec_block(node.body[:n_stmts], env, f.module, f)
            if sig is not None:
                raise Unsupported("function returned before the inspected statement")
            return env.vars
        finally:
            self.stack.pop()
            self.cur_file = old_file

    def bind_args(self, f, a, args, kwargs, env):
        v = env.vars
        pos = list(a.posonlyargs) + list(a.args)
        npos = len(pos)
        args = list(args)
        kwargs = dict(kwargs)
        if len(args) > npos and a.vararg is None:
            raise AbstractError("%s() takes %d positional arguments but %d were given" % (f.qualname, npos, len(args)))
        for i, p in enumerate(pos):
            if i < len(args):
                if p.arg in kwargs:
                    raise AbstractError("%s() got multiple values for argument %r" % (f.qualname, p.arg))
                v[p.arg] = args[i]
            elif p.arg in kwargs:
                v[p.arg] = kwargs.pop(p.arg)
            else:
                di = i - (npos - len(f.defaults))
                if di < 0:
                    raise AbstractError("%s() missing required positional argument %r" % (f.qualname, p.arg))
                v[p.arg] = f.defaults[di]
        if a.vararg is not None:
            v[a.vararg.arg] = tuple(args[npos:])
        for p in a.kwonlyargs:
            if p.arg in kwargs:
                v[p.arg] = kwargs.pop(p.arg)
            elif p.arg in f.kwdefaults:
                v[p.arg] = f.kwdefaults[p.arg]
            else:
                raise AbstractError("%s() missing keyword-only argument %r" % (f.qualname, p.arg))
        if a.kwarg is not None:
            v[a.kwarg.arg] = kwargs
        elif kwargs:
            raise AbstractError("%s() got an unexpected keyword argument %r" % (f.qualname, sorted(kwargs)[0]))

    # ------------------------------------------------------------------ statements
    def site(self, node):
        fn = self.stack[-1][1] if self.stack else "<module>"
        return (self.cur_file, getattr(node, "lineno", 0), fn)

    def exec_block(self, body, env, module, func):
        for st in body:
            sig = self.exec_stmt(st, env, module, func)
            if sig is not None:
                return sig
        return None

    def _branch(self, test, outcome):
        k = (self.cur_file, test.lineno, test.col_offset)
        self.branches[k] = self.branches.get(k, 0) | (1 if outcome else 2)
        return outcome

    def exec_stmt(self, st, env, module, func):
        self.steps += 1
        if self.steps > self.step_limit:
            raise StepLimit("step limit exceeded")
        A._SITE[0] = (self.cur_file, st.lineno, self.stack[-1][1] if self.stack else "<module>")
        t = type(st)
        if t is ast.Expr:
            if isinstance(st.value, ast.Constant):
                return None
            self.eval(st.value, env, func)
            return None
        if t is ast.Assign:
            val = self.eval(st.value, env, func)
            for tg in st.targets:
                self.assign(tg, val, env, func)
            return None
        if t is ast.AnnAssign:
            if st.value is not None:
                val = self.eval(st.value, env, func)
                self.assign(st.target, val, env, func)
            return None
        if t is ast.AugAssign:
            cur = self.eval(self._load_of(st.target), env, func)
            val = self.eval(st.value, env, func)
            self.assign(st.target, self.binop(st.op, cur, val), env, func)
            return None
        if t is ast.Return:
            return _Signal("return", None if st.value is None else self.eval(st.value, env, func))
        if t is ast.If:
            if self._branch(st.test, self.truth(self.eval(st.test, env, func))):
                return self.exec_block(st.body, env, module, func)
            return self.exec_block(st.orelse, env, module, func)
        if t is ast.For:
            it = self.eval(st.iter, env, func)
            broke = False
            for item in self.iterate(it):
                self.assign(st.target, item, env, func)
                sig = self.exec_block(st.body, env, module, func)
                if sig is not None:
                    if sig.kind == "break":
                        broke = True
                        break
                    if sig.kind == "continue":
                        continue
                    return sig
            if not broke and st.orelse:
                return self.exec_block(st.orelse, env, module, func)
            return None
        if t is ast.While:
            n = 0
            broke = False
            while self.truth(self.eval(st.test, env, func)):
                n += 1
                if n > 100000:
                    raise StepLimit("while loop does not terminate")
                sig = self.exec_block(st.body, env, module, func)
                if sig is not None:
                    if sig.kind == "break":
                        broke = True
                        break
                    if sig.kind == "continue":
                        continue
                    return sig
            if not broke and st.orelse:
                return self.exec_block(st.orelse, env, module, func)
            return None
        if t is ast.Assert:
            ok = self.truth(self.eval(st.test, env, func))
            if not ok:
                msg = ""
                if st.msg is not None:
                    try:
                        msg = str(self.eval(st.msg, env, func))
                    except Exception:
                        msg = "<message>"
                raise AbstractAssert("assertion failed: %s %s" % (ast.unparse(st.test)[:120], msg[:200]), self.site(st))
            return None
        if t is ast.Raise:
            exc = self.eval(st.exc, env, func) if st.exc is not None else "re-raise"
            raise AbstractRaise(exc, self.site(st))
        if t is ast.FunctionDef:
            f = self.make_func(st, env, module, func)
            env.vars[st.name] = f
            return None
        if t is ast.ClassDef:
            env.vars[st.name] = self.make_class(st, env, module)
            return None
        if t is ast.Import:
            for al in st.names:
                if al.asname:
                    env.vars[al.asname] = self.get_module(al.name)
                else:
                    top = al.name.split(".")[0]
                    self.get_module(al.name)
                    env.vars[top] = self.get_module(top)
            return None
        if t is ast.ImportFrom:
            modname = st.module or ""
            if st.level:
                base = module.__dict__["name"].split(".")
                if not module.__dict__["path"].endswith("__init__.py"):
                    base = base[:-1]
                if st.level > 1:
                    base = base[: -(st.level - 1)]
                modname = ".".join(base + ([modname] if modname else []))
            if modname == "__future__":
                return None
            m = self.get_module(modname)
            for al in st.names:
                if al.name == "*":
                    raise Unsupported("star import")
                try:
                    v = self.getattr(m, al.name)
                except AttributeError:
                    sub = modname + "." + al.name
                    if self.module_path(sub):
                        v = self.get_module(sub)
                    elif isinstance(m, ModuleVal) and not m.__dict__["loaded"]:
                        raise Unsupported("circular import of %s from %s" % (al.name, modname))
                    else:
                        v = Opaque(modname + "." + al.name)
                env.vars[al.asname or al.name] = v
            return None
        if t is ast.Pass:
            return None
        if t is ast.Break:
            return _BREAK
        if t is ast.Continue:
            return _CONTINUE
        if t is ast.Delete:
            for tg in st.targets:
                if isinstance(tg, ast.Subscript):
                    obj = self.eval(tg.value, env, func)
                    del obj[self.eval_index(tg.slice, env, func)]
                elif isinstance(tg, ast.Name):
                    del env.vars[tg.id]
                else:
                    raise Unsupported("del target")
            return None
        if t is ast.With:
            # context managers that do not change values (named scopes, precision/config contexts) are
            # transparent; anything else is unmodelled
            for item in st.items:
                cm = self.eval(item.context_expr, env, func)
                if not getattr(cm, "__axi_transparent_context__", False):
                    raise Unsupported("with statement over %s" % ast.unparse(item.context_expr)[:60])
                if item.optional_vars is not None:
                    self.assign(item.optional_vars, cm, env, func)
            return self.exec_block(st.body, env, module, func)
        if t is ast.Try:
            # the protected body is interpreted; if the analysed code raises there, handlers are not modelled
            pending = None
            sig = None
            try:
                sig = self.exec_block(st.body, env, module, func)
                if sig is None and st.orelse:
                    sig = self.exec_block(st.orelse, env, module, func)
            except REJECTIONS as e:
                # the analysed code raised inside the protected body: pick the handler Python would pick, when the
                # exception class is known (raise <Builtin>(...), assert); otherwise the obligation is undecided
                handler = None
                for h in st.handlers:
                    m = True if h.type is None else self._exc_matches(e, self.eval(h.type, env, func))
                    if m is None:
                        raise Unsupported("exception handling (try/except) around a raising statement whose exception class is not known: %s" % e)
                    if m:
                        handler = h
                        break
                if handler is None:
                    pending = e
                else:
                    if handler.name:
                        env.vars[handler.name] = e.exc if isinstance(e, AbstractRaise) and isinstance(e.exc, BaseException) else AssertionError(str(e)) if isinstance(e, AbstractAssert) else Exception(str(e))
                    sig = self.exec_block(handler.body, env, module, func)
            if st.finalbody:
                sig2 = self.exec_block(st.finalbody, env, module, func)
                if sig2 is not None:
                    return sig2
            if pending is not None:
                raise pending
            return sig
        if t in (ast.Global, ast.Nonlocal):
            # later assignments to these names go to the scope that owns them
            for name in st.names:
                e = env.parent
                if t is ast.Global:
                    while e is not None and e.parent is not None:
                        e = e.parent
                else:
                    while e is not None and name not in e.vars:
                        e = e.parent
                if e is None:
                    raise Unsupported("no binding for %s %s" % ("global" if t is ast.Global else "nonlocal", name))
                if env.redirect is None:
                    env.redirect = {}
                env.redirect[name] = e
            return None
        if t is ast.Match:
            subject = self.eval(st.subject, env, func)
            if isinstance(subject, (Arr, Poly)) and not (isinstance(subject, Arr) and subject.elems is not None and subject.ndim == 0 and not isinstance(subject.elems[0], Poly)):
                raise Unsupported("match statement over an array subject")
            for case in st.cases:
                binds = {}
                if self._match(case.pattern, subject, binds, env, func):
                    for k, v in binds.items():
                        self.assign(ast.Name(id=k, ctx=ast.Store()), v, env, func)
                    if case.guard is not None and not self.truth(self.eval(case.guard, env, func)):
                        continue
                    return self.exec_block(case.body, env, module, func)
            return None
        raise Unsupported("statement %s" % t.__name__)

    def _match(self, pat, val, binds, env, func):
        """Structural pattern matching (PEP 634) on configuration values."""
        t = type(pat)
        if t is ast.MatchValue:
            return self.truth(self.compare(ast.Eq(), val, self.eval(pat.value, env, func)))
        if t is ast.MatchSingleton:
            return val is pat.value
        if t is ast.MatchAs:
            if pat.pattern is not None and not self._match(pat.pattern, val, binds, env, func):
                return False
            if pat.name is not None:
                binds[pat.name] = val
            return True
        if t is ast.MatchOr:
            for alt in pat.patterns:
                b = {}
                if self._match(alt, val, b, env, func):
                    binds.update(b)
                    return True
            return False
        if t is ast.MatchSequence:
            if isinstance(val, (str, bytes, dict, set, frozenset)) or not isinstance(val, (list, tuple)):
                return False
            items = list(val)
            star = [i for i, e in enumerate(pat.patterns) if isinstance(e, ast.MatchStar)]
            if star:
                i = star[0]
                after = len(pat.patterns) - i - 1
                if len(items) < len(pat.patterns) - 1:
                    return False
                pairs = list(zip(pat.patterns[:i], items[:i])) + list(zip(pat.patterns[i + 1:], items[len(items) - after:]))
                if pat.patterns[i].name is not None:
                    binds[pat.patterns[i].name] = list(items[i: len(items) - after])
            else:
                if len(items) != len(pat.patterns):
                    return False
                pairs = list(zip(pat.patterns, items))
            return all(self._match(p_, v_, binds, env, func) for p_, v_ in pairs)
        if t is ast.MatchMapping:
            if not isinstance(val, dict):
                return False
            seen = []
            for k_, p_ in zip(pat.keys, pat.patterns):
                key = self.eval(k_, env, func)
                if key not in val:
                    return False
                seen.append(key)
                if not self._match(p_, val[key], binds, env, func):
                    return False
            if pat.rest is not None:
                binds[pat.rest] = {k_: v_ for k_, v_ in val.items() if k_ not in seen}
            return True
        if t is ast.MatchClass:
            cls = self.eval(pat.cls, env, func)
            if isinstance(cls, _TypeShim) or (isinstance(cls, type) and cls in (str, bool, tuple, list, dict, set, frozenset, bytes)):
                if not self.b_isinstance(val, cls):
                    return False
                if pat.kwd_patterns:
                    raise Unsupported("match class pattern with keywords on a builtin")
                if len(pat.patterns) > 1:
                    raise AbstractError("%s() accepts 1 positional sub-pattern" % getattr(cls, "__name__", cls))
                return all(self._match(p_, val, binds, env, func) for p_ in pat.patterns)
            if isinstance(cls, ClassVal):
                if not (isinstance(val, Obj) and cls in val.cls.mro()):
                    return False
                if pat.patterns:
                    raise Unsupported("positional sub-patterns of a class pattern (__match_args__)")
                for name, p_ in zip(pat.kwd_attrs, pat.kwd_patterns):
                    try:
                        v_ = self.getattr(val, name)
                    except AttributeError:
                        return False
                    if not self._match(p_, v_, binds, env, func):
                        return False
                return True
            raise Unsupported("match class pattern over %r" % (cls,))
        raise Unsupported("match pattern %s" % t.__name__)

    def _exc_matches(self, e, typ):
        """Would `except typ` catch the abstract exception e?  True / False, or None when e's class is not known."""
        types = typ if isinstance(typ, tuple) else (typ,)
        if not all(isinstance(t, type) and issubclass(t, BaseException) for t in types):
            return None
        if isinstance(e, AbstractRaise) and isinstance(e.exc, BaseException):
            return isinstance(e.exc, types)
        if isinstance(e, AbstractAssert):
            return any(issubclass(AssertionError, t) for t in types)
        if any(t in (Exception, BaseException) for t in types):
            return True
        return None

    def _load_of(self, target):
        n = ast.parse(ast.unparse(target), mode="eval").body
        return ast.copy_location(n, target)

    def truth(self, v):
        if isinstance(v, Arr):
            return bool(v)
        if isinstance(v, Poly):
            raise Unsupported("data-dependent branch")
        return bool(v)

    def iterate(self, it):
        if isinstance(it, Arr):
            return iter(it)
        if isinstance(it, Obj):
            f, _ = it.cls.find("__iter__")
            if f is None:
                raise AbstractError("%s object is not iterable" % it.cls.name)
            return iter(f(it))
        return iter(it)

    def assign(self, tg, val, env, func):
        t = type(tg)
        if t is ast.Name:
            if env.redirect is not None and tg.id in env.redirect:
                env.redirect[tg.id].vars[tg.id] = val
            else:
                env.vars[tg.id] = val
        elif t in (ast.Tuple, ast.List):
            items = list(self.iterate(val))
            star = [i for i, e in enumerate(tg.elts) if isinstance(e, ast.Starred)]
            if star:
                i = star[0]
                after = len(tg.elts) - i - 1
                if len(items) < len(tg.elts) - 1:
                    raise AbstractError("not enough values to unpack")
                for e, v in zip(tg.elts[:i], items[:i]):
                    self.assign(e, v, env, func)
                self.assign(tg.elts[i].value, list(items[i: len(items) - after]), env, func)
                for e, v in zip(tg.elts[i + 1:], items[len(items) - after:]):
                    self.assign(e, v, env, func)
            else:
                if len(items) != len(tg.elts):
                    raise AbstractError("cannot unpack %d values into %d targets (%s)" % (len(items), len(tg.elts), ast.unparse(tg)))
                for e, v in zip(tg.elts, items):
                    self.assign(e, v, env, func)
        elif t is ast.Attribute:
            obj = self.eval(tg.value, env, func)
            if isinstance(obj, Obj):
                object.__getattribute__(obj, "attrs")[tg.attr] = val
            elif isinstance(obj, (ModuleVal,)):
                obj.__dict__["ns"][tg.attr] = val
            elif isinstance(obj, ClassVal):
                obj.ns[tg.attr] = val
            else:
                setattr(obj, tg.attr, val)
        elif t is ast.Subscript:
            obj = self.eval(tg.value, env, func)
            key = self.eval_index(tg.slice, env, func)
            if isinstance(obj, Arr):
                # numpy-style in-place item assignment is supported for configuration arrays only
                # (concrete tables such as the Levi-Civita symbol); jax arrays are immutable
                v = val
                if not obj.is_concrete() or (isinstance(v, Arr) and not v.is_concrete()) or isinstance(v, Poly):
                    raise AbstractError("item assignment to an abstract (jax) array")
                new = A.setitem(obj, key, v)
                obj.elems = new.elems
                return
            obj[key] = val
        else:
            raise Unsupported("assignment target %s" % t.__name__)

    # ------------------------------------------------------------------ functions and classes
    def make_func(self, node, env, module, func, owner=None, qual=None):
        a = node.args
        defaults = [self.eval(d, env, func) for d in a.defaults]
        kwdefaults = {}
        for p, d in zip(a.kwonlyargs, a.kw_defaults):
            if d is not None:
                kwdefaults[p.arg] = self.eval(d, env, func)
        name = getattr(node, "name", "<lambda>")
        if qual is None:
            if func is not None:
                qual = func.qualname + ".<locals>." + name
            else:
                qual = name
        closure = env if func is not None else None
        f = Func(self, node, module, closure, defaults, kwdefaults, qual, owner)
        res = f
        for d in reversed(getattr(node, "decorator_list", [])):
            dec = self.eval(d, env, func)
            res = dec(res)
        return res

    def make_class(self, node, env, module):
        bases = [self.eval(b, env, None) for b in node.bases]
        ns = {}
        qual = node.name
        cls = ClassVal(self, node.name, bases, ns, module, qual)
        cenv = Env(env, ns)
        for st in node.body:
            if isinstance(st, ast.FunctionDef):
                f = self.make_func_in_class(st, cenv, module, cls)
                ns[st.name] = f
            elif isinstance(st, ast.AnnAssign):
                if isinstance(st.target, ast.Name):
                    cls.annotations[st.target.id] = st
                    if st.value is not None:
                        try:
                            ns[st.target.id] = self.eval(st.value, cenv, None)
                        except Unsupported:
                            pass
            elif isinstance(st, ast.Expr) and isinstance(st.value, ast.Constant):
                continue
            elif isinstance(st, ast.Assign):
                val = self.eval(st.value, cenv, None)
                for tg in st.targets:
                    self.assign(tg, val, cenv, None)
            elif isinstance(st, ast.Pass):
                continue
            else:
                raise Unsupported("class body statement %s" % type(st).__name__)
        res = cls
        for d in reversed(node.decorator_list):
            dec = self.eval(d, env, None)
            res = dec(res)
        return res

    def make_func_in_class(self, node, cenv, module, cls):
        a = node.args
        # defaults are evaluated in the class scope
        defaults = [self.eval(d, cenv, None) for d in a.defaults]
        kwdefaults = {}
        for p, d in zip(a.kwonlyargs, a.kw_defaults):
            if d is not None:
                kwdefaults[p.arg] = self.eval(d, cenv, None)
        # the function's closure is the scope enclosing the class statement (the module scope for a top-level class,
        # the defining function's scope for a class created inside a function) -- never the class scope itself
        outer = cenv.parent
        closure = outer if (outer is not None and outer.parent is not None) else None
        f = Func(self, node, module, closure, defaults, kwdefaults, cls.name + "." + node.name, cls)
        res = f
        for d in reversed(node.decorator_list):
            dec = self.eval(d, cenv, None)
            res = dec(res)
        return res

    # ------------------------------------------------------------------ expressions
    def binop(self, op, a, b):
        t = type(op)
        if t is ast.Div:
            if isinstance(a, (Arr, Obj)) or isinstance(b, (Arr, Obj)):
                return operator.truediv(a, b)
            return py_div(a, b)
        if t is ast.Pow:
            if isinstance(a, (Arr, Obj)) or isinstance(b, (Arr, Obj)):
                return operator.pow(a, b)
            return py_pow(a, b)
        f = BINOPS.get(t)
        if f is None:
            raise Unsupported("operator %s" % t.__name__)
        try:
            return f(a, b)
        except TypeError as e:
            if isinstance(a, (Arr, Obj)) or isinstance(b, (Arr, Obj)) or hasattr(a, "__axi_kind__") or hasattr(b, "__axi_kind__"):
                # possibly a gap of the abstract domain rather than an error of the analysed code: undecided
                raise Unsupported("operator %s between %s and %s: %s" % (t.__name__, type(a).__name__, type(b).__name__, e))
            raise AbstractError("TypeError: %s" % e)
        except ZeroDivisionError as e:
            raise AbstractError("ZeroDivisionError: %s" % e)

    def lookup_name(self, name, env):
        e = env
        while e is not None:
            v = e.vars
            if name in v:
                return v[name]
            e = e.parent
        if name in self.builtins:
            return self.builtins[name]
        raise AbstractError("NameError: name %r is not defined" % name)

    def eval_index(self, node, env, func):
        if isinstance(node, ast.Slice):
            return slice(
                None if node.lower is None else self.eval(node.lower, env, func),
                None if node.upper is None else self.eval(node.upper, env, func),
                None if node.step is None else self.eval(node.step, env, func),
            )
        if isinstance(node, ast.Tuple):
            return tuple(self.eval_index(e, env, func) for e in node.elts)
        return self.eval(node, env, func)

    def eval(self, node, env, func):
        t = type(node)
        if t is ast.Constant:
            v = node.value
            if isinstance(v, float):
                return to_num(v)
            return v
        if t is ast.Name:
            return self.lookup_name(node.id, env)
        if t is ast.Attribute:
            v = self.eval(node.value, env, func)
            try:
                return self.getattr(v, node.attr)
            except AttributeError as e:
                raise AbstractError("AttributeError: %s (%s)" % (e, ast.unparse(node)))
        if t is ast.Call:
            return self.eval_call(node, env, func)
        if t is ast.BinOp:
            return self.binop(node.op, self.eval(node.left, env, func), self.eval(node.right, env, func))
        if t is ast.UnaryOp:
            v = self.eval(node.operand, env, func)
            if isinstance(node.op, ast.Not):
                return not self.truth(v)
            if isinstance(node.op, ast.USub):
                return -v
            if isinstance(node.op, ast.UAdd):
                return +v
            if isinstance(node.op, ast.Invert):
                return ~v
        if t is ast.BoolOp:
            if isinstance(node.op, ast.And):
                v = True
                for e in node.values:
                    v = self.eval(e, env, func)
                    if not self.truth(v):
                        return v
                return v
            v = False
            for e in node.values:
                v = self.eval(e, env, func)
                if self.truth(v):
                    return v
            return v
        if t is ast.Compare:
            left = self.eval(node.left, env, func)
            res = True
            for op, rn in zip(node.ops, node.comparators):
                right = self.eval(rn, env, func)
                r = self.compare(op, left, right)
                if len(node.ops) == 1:
                    return r
                if not self.truth(r):
                    return r
                res = r
                left = right
            return res
        if t is ast.Subscript:
            v = self.eval(node.value, env, func)
            k = self.eval_index(node.slice, env, func)
            try:
                return v[k]
            except KeyError as e:
                raise AbstractError("KeyError: %s in %s" % (e, ast.unparse(node)[:80]))
            except IndexError as e:
                if isinstance(v, (Arr, Obj)):
                    raise Unsupported("host IndexError while indexing an abstract value: %s in %s" % (e, ast.unparse(node)[:80]))
                raise AbstractError("IndexError: %s in %s" % (e, ast.unparse(node)[:80]))
            except TypeError as e:
                if isinstance(v, (Arr, Obj)) or isinstance(k, (Arr, Obj)):
                    raise Unsupported("host TypeError while indexing an abstract value: %s in %s" % (e, ast.unparse(node)[:80]))
                raise AbstractError("TypeError: %s in %s" % (e, ast.unparse(node)[:80]))
        if t is ast.Tuple:
            return tuple(self._elts(node.elts, env, func))
        if t is ast.List:
            return list(self._elts(node.elts, env, func))
        if t is ast.Set:
            return set(self._elts(node.elts, env, func))
        if t is ast.Dict:
            d = {}
            for k, v in zip(node.keys, node.values):
                if k is None:
                    d.update(self.eval(v, env, func))
                else:
                    d[self.eval(k, env, func)] = self.eval(v, env, func)
            return d
        if t is ast.Yield:
            if getattr(self, "_yielded", None) is None:
                raise Unsupported("yield outside a generator run")
            self._yielded.append(None if node.value is None else self.eval(node.value, env, func))
            return None
        if t is ast.YieldFrom:
            if getattr(self, "_yielded", None) is None:
                raise Unsupported("yield from outside a generator run")
            self._yielded.extend(list(self.iterate(self.eval(node.value, env, func))))
            return None
        if t is ast.IfExp:
            if self._branch(node.test, self.truth(self.eval(node.test, env, func))):
                return self.eval(node.body, env, func)
            return self.eval(node.orelse, env, func)
        if t is ast.Lambda:
            return self.make_func(node, env, func.module if func is not None else self._module_of_env(env), func if func is not None else _ModuleFunc, qual=(func.qualname if func is not None else "<module>") + ".<lambda>")
        if t in (ast.ListComp, ast.GeneratorExp, ast.SetComp):
            out = []
            self._comp(node.generators, 0, env, func, lambda e: out.append(self.eval(node.elt, e, func)))
            if t is ast.SetComp:
                return set(out)
            return out
        if t is ast.DictComp:
            out = {}

            def add(e):
                out[self.eval(node.key, e, func)] = self.eval(node.value, e, func)

            self._comp(node.generators, 0, env, func, add)
            return out
        if t is ast.JoinedStr:
            parts = []
            for v in node.values:
                if isinstance(v, ast.Constant):
                    parts.append(str(v.value))
                else:
                    try:
                        val = self.eval(v.value, env, func)
                        if v.conversion == ord("r"):
                            val = repr(val)
                        elif v.conversion == ord("s"):
                            val = str(val)
                        spec = self.eval(v.format_spec, env, func) if v.format_spec is not None else ""
                        try:
                            parts.append(format(val, spec))
                        except (TypeError, ValueError):
                            parts.append(str(val))
                    except (Unsupported,):
                        parts.append("<?>")
            return "".join(parts)
        if t is ast.NamedExpr:
            v = self.eval(node.value, env, func)
            self.assign(node.target, v, env, func)
            return v
        if t is ast.Starred:
            raise Unsupported("starred expression outside call/tuple")
        if t is ast.Slice:
            return self.eval_index(node, env, func)
        raise Unsupported("expression %s" % t.__name__)

    def _module_of_env(self, env):
        e = env
        while e.parent is not None:
            e = e.parent
        for m in self.modules.values():
            if m.__dict__["ns"] is e.vars:
                return m
        raise Unsupported("lambda outside a module")

    def _elts(self, elts, env, func):
        for e in elts:
            if isinstance(e, ast.Starred):
                for x in self.iterate(self.eval(e.value, env, func)):
                    yield x
            else:
                yield self.eval(e, env, func)

    def _comp(self, gens, i, env, func, emit):
        if i == 0:
            env = Env(env)
        if i == len(gens):
            emit(env)
            return
        g = gens[i]
        for item in self.iterate(self.eval(g.iter, env, func)):
            self.assign(g.target, item, env, func)
            if all(self.truth(self.eval(c, env, func)) for c in g.ifs):
                self._comp(gens, i + 1, env, func, emit)

    def compare(self, op, a, b):
        t = type(op)
        if t is ast.Is:
            return a is b
        if t is ast.IsNot:
            return a is not b
        if t is ast.In:
            return self.contains(b, a)
        if t is ast.NotIn:
            return not self.contains(b, a)
        f = CMPOPS[t]
        try:
            return f(a, b)
        except TypeError as e:
            if isinstance(a, (Arr, Obj)) or isinstance(b, (Arr, Obj)) or hasattr(a, "__axi_kind__") or hasattr(b, "__axi_kind__"):
                raise Unsupported("comparison %s between %s and %s: %s" % (t.__name__, type(a).__name__, type(b).__name__, e))
            raise AbstractError("TypeError: %s" % e)

    def contains(self, container, item):
        if isinstance(container, Arr):
            raise Unsupported("'in' on an abstract array")
        return item in container

    def eval_call(self, node, env, func):
        # super()
        if isinstance(node.func, ast.Name) and node.func.id == "super":
            if node.args:
                cls = self.eval(node.args[0], env, func)
                obj = self.eval(node.args[1], env, func)
            else:
                if func is None or func.owner is None:
                    raise Unsupported("zero-argument super() outside a method")
                cls = func.owner
                obj = env.lookup(func.node.args.args[0].arg)
            return SuperProxy(cls, obj)
        fn = self.eval(node.func, env, func)
        args = []
        for a in node.args:
            if isinstance(a, ast.Starred):
                args.extend(self.iterate(self.eval(a.value, env, func)))
            else:
                args.append(self.eval(a, env, func))
        kwargs = {}
        for k in node.keywords:
            if k.arg is None:
                kwargs.update(self.eval(k.value, env, func))
            else:
                kwargs[k.arg] = self.eval(k.value, env, func)
        A._SITE[0] = (self.cur_file, node.lineno, self.stack[-1][1] if self.stack else "<module>")
        if fn is None:
            raise AbstractError("TypeError: 'NoneType' object is not callable (%s)" % ast.unparse(node.func))
        try:
            return fn(*args, **kwargs)
        except (TypeError, KeyError, IndexError, ZeroDivisionError, ValueError, AttributeError) as e:
            # a host-level error inside a builtin / transfer function: either the real code would
            # raise here too or the model is incomplete -- fail closed, never a verdict
            raise Unsupported("host %s: %s in call %s" % (type(e).__name__, e, ast.unparse(node)[:100]))


class _ModuleFuncT(object):
    qualname = "<module>"
    owner = None
    module = None


_ModuleFunc = None
