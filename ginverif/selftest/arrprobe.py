"""Differential self-test of the array transfer functions (the 'trusted base' of the abstract interpreter):
the models in ginverif.arr / ginverif.shims are run on small concrete integer arrays and compared, element for
element, with NumPy / jax.lax executing the same call.  This is evidence about the checker (it imports numpy and jax,
which the checks themselves never do); it is run by ./selftest, never by a check."""
import itertools
import os
import random
import sys

HERE = os.path.dirname(os.path.abspath(__file__))


def main():
    sys.path.insert(0, os.path.dirname(os.path.dirname(HERE)))
    os.environ.setdefault("JAX_PLATFORMS", "cpu")
    import numpy as np
    import jax
    import jax.numpy as jnp

    from ginverif import arr as A
    from ginverif.engine import get_interp

    it, w = get_interp("/repo")
    mj = it.get_module("jax.numpy")
    lax = it.get_module("jax.lax")
    rng = random.Random(7)

    def rand(shape):
        n = int(np.prod(shape)) if shape else 1
        vals = [rng.randint(-4, 5) for _ in range(n)]
        return A.Arr(tuple(shape), list(vals), "int"), np.array(vals, dtype=np.int64).reshape(shape)

    def conv(x):
        if isinstance(x, A.Arr):
            return ("arr", tuple(x.shape), [int(e) if int(e) == e else round(float(e), 9) for e in x.elems])
        if isinstance(x, (list, tuple)):
            return [conv(e) for e in x]
        if hasattr(x, "shape"):
            a = np.asarray(x)
            return ("arr", tuple(a.shape), [int(e) if float(e) == int(e) else round(float(e), 9) for e in a.reshape(-1).tolist()])
        return x

    cases = []

    def case(name, f_model, f_ref):
        cases.append((name, f_model, f_ref))

    a_m, a_n = rand((2, 3, 4))
    b_m, b_n = rand((4, 3))
    c_m, c_n = rand((3, 3))
    v_m, v_n = rand((5,))
    g = lambda n: it.getattr(mj, n)
    for name, args_m, args_n, kw in [
        ("reshape", (a_m, (4, 6)), (a_n, (4, 6)), {}), ("reshape", (a_m, (-1, 2)), (a_n, (-1, 2)), {}),
        ("transpose", (a_m, (2, 0, 1)), (a_n, (2, 0, 1)), {}), ("moveaxis", (a_m, 0, -1), (a_n, 0, -1), {}), ("moveaxis", (a_m, (0, 1), (2, 0)), (a_n, (0, 1), (2, 0)), {}),
        ("swapaxes", (a_m, 0, 2), (a_n, 0, 2), {}), ("flip", (a_m, 1), (a_n, 1), {}), ("flip", (a_m, (0, 2)), (a_n, (0, 2)), {}), ("roll", (a_m, 2, 1), (a_n, 2, 1), {}), ("roll", (a_m, (1, -1), (0, 2)), (a_n, (1, -1), (0, 2)), {}),
        ("take", (a_m, [2, 0], 1), (a_n, [2, 0], 1), {}), ("tile", (b_m, (2, 1)), (b_n, (2, 1)), {}), ("repeat", (b_m, 2, 0), (b_n, 2, 0), {}),
        ("pad", (b_m, ((1, 2), (0, 1))), (b_n, ((1, 2), (0, 1))), {}), ("pad", (b_m, ((2, 1), (1, 3))), (b_n, ((2, 1), (1, 3))), {"mode": "wrap"}),
        ("concatenate", ([a_m, a_m], 1), ([a_n, a_n], 1), {}), ("stack", ([b_m, b_m], -1), ([b_n, b_n], -1), {}), ("squeeze", (A.reshape(v_m, (1, 5, 1)),), (v_n.reshape(1, 5, 1),), {}), ("expand_dims", (b_m, 1), (b_n, 1), {}),
        ("einsum", ("ijk,kl->ijl", a_m, b_m), ("ijk,kl->ijl", a_n, b_n), {}), ("einsum", ("...ij,...ik->...jk", a_m, a_m), ("...ij,...ik->...jk", a_n, a_n), {}), ("einsum", ("ii", c_m), ("ii", c_n), {}), ("einsum", ("ij,j...->i...", c_m, A.transpose(a_m, (1, 0, 2))), ("ij,j...->i...", c_n, a_n.transpose(1, 0, 2)), {}),
        ("tensordot", (a_m, b_m, 1), (a_n, b_n, 1), {}), ("tensordot", (a_m, b_m, ((2, 1), (0, 1))), (a_n, b_n, ((2, 1), (0, 1))), {}), ("matmul", (a_m, b_m), (a_n, b_n), {}), ("dot", (c_m, c_m), (c_n, c_n), {}), ("outer", (v_m, v_m), (v_n, v_n), {}),
        ("trace", (a_m, 0, 0, 1), (a_n, 0, 0, 1), {}), ("trace", (a_m, 1, 1, 2), (a_n, 1, 1, 2), {}), ("diagonal", (a_m, 0, 1, 2), (a_n, 0, 1, 2), {}), ("rot90", (b_m,), (b_n,), {}), ("rot90", (a_m, 3, (0, 2)), (a_n, 3, (0, 2)), {}), ("kron", (b_m, c_m), (b_n, c_n), {}),
        ("cumsum", (b_m, 1), (b_n, 1), {}), ("cumprod", (b_m, 0), (b_n, 0), {}), ("diff", (b_m, 1, 0), (b_n, 1, 0), {}), ("tril", (c_m,), (c_n,), {}), ("triu", (c_m, 1), (c_n, 1), {}), ("sort", (b_m, 0), (b_n, 0), {}),
        ("where", (b_m > 0, b_m, 0), (b_n > 0, b_n, 0), {}), ("clip", (b_m, -1, 2), (b_n, -1, 2), {}), ("maximum", (b_m, 1), (b_n, 1), {}), ("minimum", (b_m, 1 - b_m), (b_n, 1 - b_n), {}),
        ("sum", (a_m, (0, 2)), (a_n, (0, 2)), {}), ("sum", (a_m,), (a_n,), {"axis": 1, "keepdims": True}), ("prod", (b_m, 0), (b_n, 0), {}), ("max", (a_m, 1), (a_n, 1), {}), ("min", (a_m,), (a_n,), {}), ("argmax", (a_m, 2), (a_n, 2), {}), ("argmin", (b_m, 0), (b_n, 0), {}),
        ("abs", (b_m,), (b_n,), {}), ("sign", (b_m,), (b_n,), {}), ("square", (b_m,), (b_n,), {}), ("add", (a_m, b_m[:, :1].reshape((1, 1, 4)) if False else A.reshape(v_m[:4], (1, 1, 4))), (a_n, v_n[:4].reshape(1, 1, 4)), {}),
        ("broadcast_to", (v_m, (2, 5)), (v_n, (2, 5)), {}), ("eye", (3,), (3,), {}), ("arange", (2, 9, 3), (2, 9, 3), {}), ("vstack", ([v_m, v_m],), ([v_n, v_n],), {}), ("hstack", ([b_m, b_m],), ([b_n, b_n],), {}), ("dstack", ([b_m, b_m],), ([b_n, b_n],), {}),
        ("append", (b_m, b_m, 0), (b_n, b_n, 0), {}), ("delete", (v_m, [0, 3]), (v_n, [0, 3]), {}), ("array_split", (v_m, 3), (v_n, 3), {}), ("split", (a_m, 2, 2), (a_n, 2, 2), {}), ("meshgrid", (v_m[:2], v_m[:3]), (v_n[:2], v_n[:3]), {}), ("indices", ((2, 3),), ((2, 3),), {}),
        ("take_along_axis", (b_m, A.Arr((4, 1), [2, 0, 1, 1], "int"), 1), (b_n, np.array([[2], [0], [1], [1]]), 1), {}), ("count_nonzero", (b_m,), (b_n,), {}), ("rollaxis", (a_m, 2, 0), (a_n, 2, 0), {}), ("ravel", (a_m,), (a_n,), {}),
        ("mod", (b_m, 3), (b_n, 3), {}), ("floor_divide", (b_m, 2), (b_n, 2), {}), ("power", (b_m, 2), (b_n, 2), {}), ("cross", (b_m[:, :3] if False else A.transpose(b_m)[:, :3], A.transpose(b_m)[:, 1:]), (b_n.T[:, :3], b_n.T[:, 1:]), {}),
    ]:
        case(name + repr(kw or ""), (lambda n=name, am=args_m, k=kw: g(n)(*am, **k)), (lambda n=name, an=args_n, k=kw: getattr(np, n)(*an, **k)))

    for name, am, an, kw in [("mean", (a_m, 1), (a_n, 1), {}), ("mean", (b_m,), (b_n,), {}), ("var", (b_m, 0), (b_n, 0), {}), ("argsort", (v_m,), (v_n,), {"kind": "stable"}), ("isin", (b_m, [1, 2]), (b_n, [1, 2]), {}), ("unique", (A.Arr((4, 2), [1, 2, 0, 1, 1, 2, 3, 0], "int"),), (np.array([[1, 2], [0, 1], [1, 2], [3, 0]]),), {"axis": 0})]:
        case(name + repr(kw or ""), (lambda n=name, am=am, k=kw: g(n)(*am, **k)), (lambda n=name, an=an, k=kw: getattr(np, n)(*an, **k)))
    case("at.set", (lambda: b_m.at[1, 2].set(7)), (lambda: jnp.asarray(b_n).at[1, 2].set(7)))
    case("at.add", (lambda: b_m.at[:, 0].add(2)), (lambda: jnp.asarray(b_n).at[:, 0].add(2)))

    # indexing
    for key in [(1,), (slice(None), 2), (Ellipsis, 0), (slice(None, None, -1), slice(1, 3)), (None, 1, slice(None), [0, 3]), ([1, 0], slice(None), [2, 2]), (slice(None), np.array([[0, 1], [2, 0]])), (a_n[:, 0, 0] > 0,),
                (slice(None), 1, [0, 3]), (1, slice(None), [0, 3]), ([0, 1], None, [0, 1]), (1, [0, 2], slice(None)), (slice(None), [0, 2], 1), ([1], 2, [0, 3]), (0, None, slice(None), 1)]:
        mk = tuple(A.Arr(k.shape, [bool(x) if k.dtype == bool else int(x) for x in k.reshape(-1).tolist()], "bool" if k.dtype == bool else "int") if isinstance(k, np.ndarray) else k for k in key)
        case("getitem%r" % (key,), (lambda mk=mk: a_m[mk]), (lambda key=key: a_n[key]))

    # convolution: the model against jax.lax on integer data, over a grid of options
    def conv_cases(D):
        lhs_m, lhs_n = rand((2, 2) + (4, 5, 3)[:D])
        for kshape, pad, stride, ld, rd, G in itertools.product([(3,) * D, (2, 3, 2)[:D]], ["VALID", "SAME", [(1, 2)] * D, [(0, 0)] * D], [1, (2, 1, 2)[:D]], [None, (2,) * D, (1, 2, 1)[:D]], [None, (2, 1, 2)[:D]], [1, 2]):
            if ld is not None and pad == "SAME":
                continue
            rhs_m, rhs_n = rand((4, 2 // G) + kshape)
            strides = (stride,) * D if isinstance(stride, int) else stride
            kw = dict(window_strides=strides, padding=pad, lhs_dilation=ld, rhs_dilation=rd, feature_group_count=G)
            case("conv D=%d k=%s %s" % (D, kshape, {k: v for k, v in kw.items() if k != "window_strides"} | {"s": strides}),
                 (lambda l=lhs_m, r=rhs_m, kw=kw: it.getattr(lax, "conv_general_dilated")(l, r, **kw)),
                 (lambda l=lhs_n, r=rhs_n, kw=kw: jax.lax.conv_general_dilated(jnp.asarray(l, jnp.float32), jnp.asarray(r, jnp.float32), **kw)))

    conv_cases(2)
    conv_cases(3)
    # dimension numbers + patches
    lhs_m, lhs_n = rand((1, 4, 4, 3))
    for fs, st in [((2, 2), (2, 2)), ((3, 1), (1, 2))]:
        kw = dict(filter_shape=fs, window_strides=st, padding=((0, 0), (0, 0)), dimension_numbers=("NHWC", "OIHW", "NCHW"))
        case("patches %s %s" % (fs, st), (lambda kw=kw: it.getattr(lax, "conv_general_dilated_patches")(lhs_m, **kw)), (lambda kw=kw: jax.lax.conv_general_dilated_patches(jnp.asarray(lhs_n, jnp.float32), **kw)))
    rhs_m, rhs_n = rand((3, 3, 3, 2))
    kw = dict(window_strides=(1, 1), padding="SAME", dimension_numbers=("NHWC", "HWIO", "NHWC"))
    case("conv NHWC/HWIO", (lambda: it.getattr(lax, "conv_general_dilated")(lhs_m, rhs_m, **kw)), (lambda: jax.lax.conv_general_dilated(jnp.asarray(lhs_n, jnp.float32), jnp.asarray(rhs_n, jnp.float32), **kw)))

    # more jax.lax functions
    lg = lambda n: it.getattr(lax, n)
    for name, am, an in [
        ("pad", (b_m, 0, ((1, 2, 1), (0, -1, 2))), (jnp.asarray(b_n), 0, ((1, 2, 1), (0, -1, 2)))),
        ("rev", (a_m, (0, 2)), (jnp.asarray(a_n), (0, 2))),
        ("transpose", (a_m, (1, 2, 0)), (jnp.asarray(a_n), (1, 2, 0))),
        ("slice_in_dim", (a_m, 1, None, 2, 2), (jnp.asarray(a_n), 1, None, 2, 2)),
        ("slice", (a_m, (0, 1, 0), (2, 3, 4), (1, 1, 2)), (jnp.asarray(a_n), (0, 1, 0), (2, 3, 4), (1, 1, 2))),
        ("dynamic_slice_in_dim", (a_m, 3, 2, 2), (jnp.asarray(a_n), 3, 2, 2)),
        ("index_in_dim", (a_m, 1, 1, False), (jnp.asarray(a_n), 1, 1, False)),
        ("concatenate", ([b_m, b_m], 1), ([jnp.asarray(b_n), jnp.asarray(b_n)], 1)),
        ("expand_dims", (b_m, (0, 2)), (jnp.asarray(b_n), (0, 2))),
    ]:
        case("lax." + name, (lambda n=name, am=am: lg(n)(*am)), (lambda n=name, an=an: getattr(jax.lax, n)(*an)))
    case("lax.fori_loop", (lambda: lg("fori_loop")(0, 4, lambda i, v: v * 2 + i, b_m)), (lambda: jax.lax.fori_loop(0, 4, lambda i, v: v * 2 + i, jnp.asarray(b_n))))
    case("lax.scan", (lambda: lg("scan")(lambda c, x: (c + x, c * x), b_m[0], b_m)[1]), (lambda: jax.lax.scan(lambda c, x: (c + x, c * x), jnp.asarray(b_n)[0], jnp.asarray(b_n))[1]))
    case("lax.scan carry", (lambda: lg("scan")(lambda c, x: (c + x, c * x), b_m[0], b_m)[0]), (lambda: jax.lax.scan(lambda c, x: (c + x, c * x), jnp.asarray(b_n)[0], jnp.asarray(b_n))[0]))

    bad = 0
    for name, fm, fr in cases:
        try:
            want = conv(fr())
        except Exception as e:
            want = ("raises", type(e).__name__)
        try:
            got = conv(fm())
        except (A.AbstractError,) as e:
            got = ("raises", "model-rejects")
        except Exception as e:
            got = ("model-error", "%s: %s" % (type(e).__name__, str(e)[:80]))
        ok = got == want or (isinstance(want, tuple) and want[0] == "raises" and isinstance(got, tuple) and got[0] == "raises")
        if not ok:
            bad += 1
            print("DIFFERS %s\n   numpy/jax: %s\n   model    : %s" % (name, str(want)[:200], str(got)[:200]))
    print("array probe: %d calls compared with NumPy / jax.lax, %d differ" % (len(cases), bad))
    return 1 if bad else 0


if __name__ == "__main__":
    sys.exit(main())
