"""End-to-end differential probe of the abstract interpreter: repository functions are (a) abstractly interpreted on
symbolic inputs, the resulting polynomial terms being evaluated numerically at random values of the symbols, and
(b) really executed (jax, CPU) on the same values; both must agree.  This validates interpreter + array models +
uninterpreted-function bookkeeping on the actual library code.  Evidence about the checker, run by ./selftest,
never by a check (it imports numpy / jax / ginjax)."""
import math
import os
import sys

HERE = os.path.dirname(os.path.abspath(__file__))


def main():
    sys.path.insert(0, os.path.dirname(os.path.dirname(HERE)))
    os.environ.setdefault("JAX_PLATFORMS", "cpu")
    import numpy as np
    import jax
    import jax.numpy as jnp

    import ginjax.geometric as rgeom
    import ginjax.ml as rml
    import ginjax.data as rdata

    from ginverif import arr as A
    from ginverif.engine import get_interp
    from ginverif.interp import Obj
    from ginverif.poly import Poly, sym_key, is_pk, unpk, as_poly

    rs = np.random.RandomState(11)
    it, w = get_interp("/repo")
    geom = it.get_module("ginjax.geometric")
    ml = it.get_module("ginjax.ml")
    data = it.get_module("ginjax.data")
    values = {}  # (leaf name, idx) -> float
    sym_cache = {}
    eig_cache = {}

    def leaf(name, shape):
        sym_cache.clear()  # the same leaf name may be given new values
        eig_cache.clear()
        a = A.leaf(name, shape)
        v = rs.uniform(-2.0, 2.0, size=shape)
        for idx in np.ndindex(*shape):
            values[(name, tuple(idx))] = float(v[idx])
        return a, v

    ACT = {"relu": lambda x: max(x, 0.0), "tanh": math.tanh, "exp": math.exp, "log": math.log, "sigmoid": lambda x: 1 / (1 + math.exp(-x)),
           "gelu": lambda x: float(jax.nn.gelu(jnp.float32(x))), "sqrt": math.sqrt, "abs": abs, "rsqrt": lambda x: 1.0 / math.sqrt(x)}
    def ev_arg(a):
        if isinstance(a, Poly):
            return ev(a)
        if is_pk(a):
            return ev(unpk(a))
        return a

    def ev_sym(i):
        if i not in sym_cache:
            sym_cache[i] = ev_sym_uncached(i)
        return sym_cache[i]

    def ev_sym_uncached(i):
        k = sym_key(i)
        if k[0] == "leaf":
            return values[(k[1], tuple(k[2]))]
        if k[0] == "cut":
            return ev(unpk(("P", k[1])))
        if k[0] == "sg":
            return ev_sym(k[1])
        if k[0] == "fn":
            name, args = k[1], k[2]
            if name in ACT:
                return ACT[name](ev_arg(args[0]))
            if name == "recip":
                return 1.0 / ev_arg(args[0])
            if name == "pow":
                return ev_arg(args[0]) ** ev_arg(args[1])
            if name == "div":
                return ev_arg(args[0]) / ev_arg(args[1])
            if name == "where":
                return ev_arg(args[1]) if ev_arg(args[0]) else ev_arg(args[2])
            if name in ("max", "min"):
                vals = [ev_arg(x) for x in args[0]]
                return max(vals) if name == "max" else min(vals)
            if name in ("argmax", "argmin"):
                vals = [ev_arg(x) for x in args[0]]
                return int(np.argmax(vals)) if name == "argmax" else int(np.argmin(vals))
            if name == "pick_max":
                pairs = [(ev_arg(c), ev_arg(v)) for c, v in args[0]]
                return max(pairs, key=lambda cv: cv[0])[1]
            if name in ("eigval", "eigvec"):
                kid = args[0]
                if kid not in eig_cache:
                    key = sym_key(kid)[1]
                    n = int(round(math.sqrt(len(key))))
                    M = np.array([ev_arg(x) for x in key]).reshape(n, n)
                    eig_cache[kid] = np.linalg.eigh(M)
                wv, U = eig_cache[kid]
                return float(wv[args[1]]) if name == "eigval" else float(U[args[1], args[2]])
            if name in ("lt", "gt", "le", "ge", "eq", "ne"):
                x, y = ev_arg(args[0]), ev_arg(args[1])
                return {"lt": x < y, "gt": x > y, "le": x <= y, "ge": x >= y, "eq": x == y, "ne": x != y}[name]
            raise KeyError("no numeric interpretation for function symbol %r" % name)
        raise KeyError("symbol kind %r" % (k[0],))

    def ev(p):
        if not isinstance(p, Poly):
            return float(p)
        tot = 0.0
        for mono, c in p.terms.items():
            t = float(c)
            for s in mono:
                t *= ev_sym(s)
            tot += t
        return tot

    def ev_arr(a):
        return np.array([ev(e) for e in a.elems], dtype=float).reshape(a.shape)

    results = []

    def compare(name, model_out, real_out, tol=2e-4):
        if os.environ.get("GINVERIF_PROBE_TRACE"):
            print("... comparing", name, flush=True)
        try:
            m = ev_arr(model_out)
        except KeyError as e:
            results.append((name, None, "not evaluable: %s" % e))
            return
        r = np.asarray(real_out, dtype=float)
        if m.shape != r.shape:
            results.append((name, False, "shape %r vs real %r" % (m.shape, r.shape)))
            return
        err = float(np.max(np.abs(m - r) / (1.0 + np.abs(r)))) if m.size else 0.0
        results.append((name, err < tol, "max rel err %.2e" % err))

    # ---- convolution entry points over a few option cells
    for D, N, M, ki, kf, flags, stride, padding, ld, rd in [
        (2, (4, 5), (3, 3), 1, 1, (True, False), 1, None, None, 1),
        (2, (4, 5), (3, 3), 0, 2, (True, True), 2, "TORUS", None, 2),
        (2, (4, 5), (3, 3), 1, 0, (False, False), (1, 2), "SAME", None, (1, 2)),
        (2, (3, 4), (2, 3), 1, 1, (False, True), 1, ((1, 1), (2, 2)), (2, 1), 1),
        (2, (4, 4), (3, 3), 1, 0, (False, False), 1, 1, (2, 2), 1),
        (3, (3, 4, 3), (3, 3, 3), 1, 0, (True, False, True), 1, None, None, 1),
    ]:
        im, iv = leaf("img", (2, 2) + N + (D,) * ki)
        fm, fv = leaf("flt", (3, 2) + M + (D,) * kf)
        out_m = geom.convolve(D, im, fm, flags, stride, padding, list(ld) if ld else None, rd)
        out_r = rgeom.convolve(D, jnp.asarray(iv), jnp.asarray(fv), flags, stride, padding, ld, rd)
        compare("geom.convolve D=%d pad=%s stride=%s ld=%s rd=%s" % (D, padding, stride, ld, rd), out_m, out_r)
    im, iv = leaf("img", (1, 2, 4, 5, 2))
    fm, fv = leaf("flt", (3, 2, 3, 3, 2, 2))
    compare("geom.convolve_contract", geom.convolve_contract(2, im, fm, (True, False)), rgeom.convolve_contract(2, jnp.asarray(iv), jnp.asarray(fv), (True, False)))

    # ---- group action, pooling, contractions
    for D, shape, k, p, g in [(3, (2, 3, 4), 1, 1, [[0, 1, 0], [0, 0, 1], [1, 0, 0]]), (3, (2, 3, 4), 2, 0, [[0, -1, 0], [1, 0, 0], [0, 0, -1]]), (2, (3, 4), 2, 1, [[0, 1], [1, 0]])]:
        xm, xv = leaf("x", shape + (D,) * k)
        compare("geom.times_group_element D=%d k=%d p=%d" % (D, k, p), geom.times_group_element(D, xm, p, A.as_arr(g), None), rgeom.times_group_element(D, jnp.asarray(xv), p, np.array(g), jax.lax.Precision.HIGHEST))
    xm, xv = leaf("x", (4, 6, 2))
    compare("geom.max_pool (by norm)", geom.max_pool(2, xm, 2, True), rgeom.max_pool(2, jnp.asarray(xv), 2, True))
    compare("geom.average_pool", geom.average_pool(2, xm, 2), rgeom.average_pool(2, jnp.asarray(xv), 2))
    cm, cv = leaf("c", (4, 6))
    compare("geom.max_pool (comparator image)", geom.max_pool(2, xm, 2, False, cm), rgeom.max_pool(2, jnp.asarray(xv), 2, False, jnp.asarray(cv)))
    tm, tv = leaf("t", (3, 3, 2, 2, 2, 2))
    compare("geom.multicontract", geom.multicontract(tm, ((0, 2), (1, 3)), 2), rgeom.multicontract(jnp.asarray(tv), ((0, 2), (1, 3)), 2))
    compare("geom.norm", geom.norm(2, tm), rgeom.norm(2, jnp.asarray(tv)))
    gi_m = geom.GeometricImage(A.leaf("gi", (3, 3, 2, 2)), 1, 2)
    giv = np.array([values[("gi", idx)] if ("gi", idx) in values else 0.0 for idx in np.ndindex(3, 3, 2, 2)]).reshape(3, 3, 2, 2) if False else None
    gm, gv = leaf("gi", (3, 3, 2, 2))
    compare("GeometricImage.levi_civita_contract", geom.GeometricImage(gm, 1, 2).levi_civita_contract(0).data, rgeom.GeometricImage(jnp.asarray(gv), 1, 2).levi_civita_contract(0).data)
    compare("GeometricImage.unpool", geom.GeometricImage(gm, 0, 2).unpool(2).data, rgeom.GeometricImage(jnp.asarray(gv), 0, 2).unpool(2).data)

    # ---- layers: vector group norm (eigh whitening), ConvContract with explicit weights, losses
    bm, bv = leaf("blk", (4, 3, 4, 2))
    layers_m = it.get_module("ginjax.ml.layers")
    import ginjax.ml.layers as rlayers

    compare("ml._group_norm_K1 (groups=2)", layers_m._group_norm_K1(2, bm, 2), rlayers._group_norm_K1(2, jnp.asarray(bv), 2), tol=2e-3)

    from ginverif.shims import Key

    sig_in = (((0, 0), 2), ((1, 0), 1))
    sig_out = (((1, 0), 2), ((0, 1), 1))
    kinds = [(0, 0), (1, 0), (1, 1), (2, 0), (2, 1), (0, 1)]
    bank_m, bank_v = {}, {}
    for t in kinds:
        bank_m[t], bank_v[t] = leaf("F%d%d" % t, (2, 3, 3) + (2,) * t[0])
    MIm = geom.MultiImage
    layer_m = ml.ConvContract(sig_in, sig_out, MIm(bank_m, 2, True), use_bias=False, key=Key(0))
    layer_r = rml.ConvContract(sig_in, sig_out, rgeom.MultiImage({t: jnp.asarray(v) for t, v in bank_v.items()}, 2, True), use_bias=False, key=jax.random.PRNGKey(0))
    wm, wr = {}, {}
    for (ti, ci) in sig_in:
        wm[ti], wr[ti] = {}, {}
        for (to, co) in sig_out:
            wm[ti][to], v = leaf("W%d%d_%d%d" % (ti + to), (co, ci, 2))
            wr[ti][to] = jnp.asarray(v)
    xin_m, xin_r = {}, {}
    for (t, c) in sig_in:
        xin_m[t], v = leaf("xin%d%d" % t, (c, 4, 5) + (2,) * t[0])
        xin_r[t] = jnp.asarray(v)
    om = layer_m.individual_convolve(MIm(xin_m, 2, (True, False)), wm)
    orr = layer_r.individual_convolve(rgeom.MultiImage(xin_r, 2, (True, False)), wr)
    for t, _ in sig_out:
        compare("ConvContract.individual_convolve block %s" % (t,), om[t], orr[t])

    pm_, pr_, tm_, tr_ = {}, {}, {}, {}
    for t, c in (((0, 0), 4), ((1, 0), 2), ((2, 1), 2)):
        pm_[t], v = leaf("pred%d%d" % t, (3, c, 3, 4) + (2,) * t[0])
        pr_[t] = jnp.asarray(v)
        tm_[t], v = leaf("targ%d%d" % t, (3, c, 3, 4) + (2,) * t[0])
        tr_[t] = jnp.asarray(v)
    Pm, Tm = MIm(pm_, 2, True), MIm({t: tm_[t] for t in reversed(list(tm_))}, 2, True)
    Pr, Tr = rgeom.MultiImage(pr_, 2, True), rgeom.MultiImage({t: tr_[t] for t in reversed(list(tr_))}, 2, True)
    compare("ml.smse_loss (reduce=None)", ml.smse_loss(Pm, Tm, None), rml.smse_loss(Pr, Tr, None))
    compare("ml.smse_loss (mean)", A.as_arr(ml.smse_loss(Pm, Tm)), rml.smse_loss(Pr, Tr))
    compare("ml.timestep_smse_loss (2 steps)", ml.timestep_smse_loss(Pm, Tm, 2, None), rml.timestep_smse_loss(Pr, Tr, 2, None))
    compare("ml.normalized_smse_loss", A.as_arr(ml.normalized_smse_loss(Pm, Tm)), rml.normalized_smse_loss(Pr, Tr), tol=2e-3)

    # ---- multi-image plumbing and windowing (pure re-layouts: exact)
    dm, dr = {}, {}
    for t, c in (((0, 0), 1), ((1, 0), 2)):
        dm[t], v = leaf("dyn%d%d" % t, (c * 7, 3, 4) + (2,) * t[0])
        dr[t] = jnp.asarray(v)
    km, kv = leaf("const", (1, 3, 4))
    Xm, Ym = data.times_series_to_multi_images(MIm(dm, 2, True), MIm({(0, 0): km}, 2, True), 7, 2, 1, 1, 2, 0)
    Xr, Yr = rdata.times_series_to_multi_images(rgeom.MultiImage(dr, 2, True), rgeom.MultiImage({(0, 0): jnp.asarray(kv)}, 2, True), 7, 2, 1, 1, 2, 0)
    for t in dm:
        compare("data.times_series_to_multi_images X %s" % (t,), Xm[t], Xr[t])
        compare("data.times_series_to_multi_images Y %s" % (t,), Ym[t], Yr[t])
    mi_m, mi_r = MIm({t: dm[t] for t in reversed(list(dm))}, 2, True), rgeom.MultiImage({t: dr[t] for t in reversed(list(dr))}, 2, True)
    compare("MultiImage.to_scalar_multi_image", mi_m.to_scalar_multi_image()[(0, 0)], mi_r.to_scalar_multi_image()[(0, 0)])
    compare("MultiImage.to_vector", mi_m.to_vector(), mi_r.to_vector())
    compare("MultiImage.get_component(slice, 7 steps)", mi_m.get_component(slice(1, 3), 7)[(0, 0)], mi_r.get_component(slice(1, 3), 7)[(0, 0)])
    g2 = [[0, -1], [1, 0]]
    rot_m, rot_r = mi_m.times_group_element(A.as_arr(g2)), mi_r.times_group_element(np.array(g2))
    for t in dm:
        compare("MultiImage.times_group_element %s" % (t,), rot_m[t], rot_r[t])

    # ---- whole layers / blocks with the real parameters copied (exactly, as rationals) into the abstract object
    from fractions import Fraction

    def to_arr(x):
        a = np.asarray(x)
        # short rationals (parameters are rounded to multiples of 1/64 by perturb(); filter entries are approximated
        # to 1e-4, far below the comparison tolerance) keep the exact arithmetic cheap
        return A.Arr(tuple(a.shape), [Fraction(float(v)).limit_denominator(4096) for v in a.reshape(-1)], "float")

    def transfer(real, model, depth=0):
        """Copy every array leaf of the real equinox object into the abstractly constructed twin (same attribute paths)."""
        if isinstance(real, (jax.Array, np.ndarray)):
            return to_arr(real)
        if isinstance(real, dict):
            return {k: transfer(v, model[k] if isinstance(model, dict) and k in model else None, depth + 1) for k, v in real.items()} if isinstance(model, dict) else model
        if isinstance(real, (list, tuple)) and isinstance(model, (list, tuple)) and len(real) == len(model):
            return type(model)(transfer(r, m, depth + 1) for r, m in zip(real, model))
        if isinstance(model, Obj):
            # a fresh twin object: the abstract layers share one filter-bank object, the real (perturbed) ones do not
            twin_obj = Obj(model.cls)
            attrs = object.__getattribute__(twin_obj, "attrs")
            attrs.update(object.__getattribute__(model, "attrs"))
            for name in list(attrs):
                if hasattr(real, name):
                    attrs[name] = transfer(getattr(real, name), attrs[name], depth + 1)
            return twin_obj
        if model is not None and hasattr(model, "__dict__") and not isinstance(model, (type,)) and depth < 8:
            for name in list(vars(model)):
                if name in ("weight", "bias") and hasattr(real, name) and getattr(real, name) is not None:
                    setattr(model, name, transfer(getattr(real, name), getattr(model, name), depth + 1))
            return model
        return model

    def perturb(real):
        """Move every floating array leaf of the real module away from its initial value (ones / zeros hide terms)."""
        import equinox as eqx

        leaves, treedef = jax.tree_util.tree_flatten(eqx.filter(real, eqx.is_inexact_array))
        new = [jnp.round((l + jnp.asarray(rs.uniform(-0.5, 0.5, size=l.shape), l.dtype)) * 64) / 64 for l in leaves]
        return eqx.combine(jax.tree_util.tree_unflatten(treedef, new), eqx.filter(real, eqx.is_inexact_array, inverse=True))

    def mi_pair(sig, N, D, flags, prefix):
        bm_, br_ = {}, {}
        for t, c in sig:
            bm_[t], v = leaf("%s%d%d" % ((prefix,) + t), (c,) + N + (D,) * t[0])
            br_[t] = jnp.asarray(v)
        return MIm(bm_, D, flags), rgeom.MultiImage(br_, D, flags)

    import ginjax.models as rmodels

    models_m = it.get_module("ginjax.models")
    gsig = (((0, 0), 2), ((0, 1), 2), ((1, 0), 2), ((1, 1), 2))
    xm_, xr_ = mi_pair(gsig, (3, 4), 2, (True, False), "gnx")
    for groups in (1, 2):
        real = perturb(rml.GroupNorm(gsig, 2, groups))
        twin = transfer(real, ml.GroupNorm(gsig, 2, groups))
        om_, or_ = twin(xm_), real(xr_)
        for t, _ in gsig:
            compare("ml.GroupNorm(groups=%d) block %s" % (groups, t), om_[t], or_[t], tol=2e-3)
    vsig = (((0, 0), 1), ((1, 0), 2), ((1, 1), 1), ((2, 0), 1))
    xm_, xr_ = mi_pair(vsig, (3, 3), 2, True, "vnx")
    for actname, actf in (("relu", jax.nn.relu), ("tanh", jax.nn.tanh), ("gelu", jax.nn.gelu)):
        real = perturb(rml.VectorNeuronNonlinear(vsig, 2, actf, key=jax.random.PRNGKey(1)))
        twin = transfer(real, ml.VectorNeuronNonlinear(vsig, 2, it.getattr(it.getattr(it.get_module("jax"), "nn"), actname), key=Key(1)))
        om_, or_ = twin(xm_), real(xr_)
        for t, _ in vsig:
            compare("ml.VectorNeuronNonlinear(%s) block %s" % (actname, t), om_[t], or_[t], tol=2e-3)
    psig = (((0, 1), 1), ((1, 0), 2))
    xm_, xr_ = mi_pair(psig, (4, 6), 2, True, "mpx")
    om_, or_ = ml.MaxNormPool(2, True)(xm_), rml.MaxNormPool(2, True)(xr_)
    for t, _ in psig:
        compare("ml.MaxNormPool block %s" % (t,), om_[t], or_[t])

    # an equivariant ConvBlock and a small ResNet with the real invariant filters (3x3, k <= 2)
    ops = rgeom.make_all_operators(2)
    rbank = rgeom.get_invariant_filters([3], [0, 1, 2], [0, 1], 2, ops)
    mbank = MIm({t: to_arr(rbank[t]) for t in rbank.keys()}, 2, True)
    bsig_in, bsig_out = (((0, 0), 1), ((1, 0), 1)), (((1, 0), 1), ((0, 0), 2))
    xm_, xr_ = mi_pair(bsig_in, (3, 4), 2, (True, False), "cbx")
    A.set_cut(24)
    try:
        for pre in (False, True):
            real = perturb(rmodels.ConvBlock(2, bsig_in, bsig_out, activation_f="relu", equivariant=True, conv_filters=rbank, use_group_norm=True, preactivation_order=pre, key=jax.random.PRNGKey(2)))
            twin = transfer(real, models_m.ConvBlock(2, bsig_in, bsig_out, activation_f="relu", equivariant=True, conv_filters=mbank, use_group_norm=True, preactivation_order=pre, key=Key(2)))
            om_, or_ = twin(xm_)[0], real(xr_)[0]
            for t, _ in bsig_out:
                compare("models.ConvBlock(preactivation=%s) block %s" % (pre, t), om_[t], or_[t], tol=5e-3)
        if os.environ.get("GINVERIF_PROBE_DEBUG"):
            exec(open(os.environ["GINVERIF_PROBE_DEBUG"]).read(), dict(globals(), **locals()))
        for act in ("relu", "gelu"):
            real = perturb(rmodels.ResNet(2, bsig_in, bsig_out, depth=1, num_blocks=1, num_conv=1, activation_f=act, equivariant=True, conv_filters=rbank, key=jax.random.PRNGKey(3)))
            twin = transfer(real, models_m.ResNet(2, bsig_in, bsig_out, depth=1, num_blocks=1, num_conv=1, activation_f=act, equivariant=True, conv_filters=mbank, key=Key(3)))
            om_, or_ = twin(xm_)[0], real(xr_)[0]
            for t, _ in bsig_out:
                compare("models.ResNet(depth=1, %s) block %s" % (act, t), om_[t], or_[t], tol=5e-3)
        real = perturb(rmodels.DilResNet(2, bsig_in, bsig_out, depth=1, num_blocks=1, activation_f="relu", equivariant=True, conv_filters=rbank, key=jax.random.PRNGKey(4)))
        twin = transfer(real, models_m.DilResNet(2, bsig_in, bsig_out, depth=1, num_blocks=1, activation_f="relu", equivariant=True, conv_filters=mbank, key=Key(4)))
        om_, or_ = twin(xm_)[0], real(xr_)[0]
        for t, _ in bsig_out:
            compare("models.DilResNet(depth=1) block %s" % (t,), om_[t], or_[t], tol=5e-3)
        rub = rgeom.get_invariant_filters([2], [0, 1, 2], [0, 1], 2, ops)
        mub = MIm({t: to_arr(rub[t]) for t in rub.keys()}, 2, True)
        xm4, xr4 = mi_pair(bsig_in, (4, 4), 2, True, "unx")
        real = perturb(rmodels.UNet(2, bsig_in, bsig_out, depth=1, num_downsamples=1, num_conv=1, activation_f="relu", equivariant=True, conv_filters=rbank, upsample_filters=rub, key=jax.random.PRNGKey(5)))
        twin = transfer(real, models_m.UNet(2, bsig_in, bsig_out, depth=1, num_downsamples=1, num_conv=1, activation_f="relu", equivariant=True, conv_filters=mbank, upsample_filters=mub, key=Key(5)))
        om_, or_ = twin(xm4)[0], real(xr4)[0]
        for t, _ in bsig_out:
            compare("models.UNet(1 down-sampling) block %s" % (t,), om_[t], or_[t], tol=5e-3)
    finally:
        A.set_cut(None)

    bad = 0
    for name, ok, detail in results:
        status = "OK" if ok else ("SKIP" if ok is None else "DIFFERS")
        bad += ok is False
        print("%-58s %-8s %s" % (name, status, detail))
    print("evaluation probe: %d comparisons of abstract interpretation against real execution, %d differ, %d not evaluable" % (len(results), bad, sum(1 for r in results if r[1] is None)))
    return 1 if bad else 0


if __name__ == "__main__":
    sys.exit(main())
