"""Numerical probes of the *axioms* the abstract interpreter trusts about jax / equinox (DESIGN section 2.3):
each axiom is evaluated against the real library on random data.  Evidence about the trusted base, run by
./selftest, never by a check (it imports numpy / jax / equinox)."""
import itertools
import os
import sys

HERE = os.path.dirname(os.path.abspath(__file__))


def main():
    sys.path.insert(0, os.path.dirname(os.path.dirname(HERE)))
    os.environ.setdefault("JAX_PLATFORMS", "cpu")
    import numpy as np
    import jax
    import jax.numpy as jnp
    import equinox as eqx

    from ginverif import arr as A
    from ginverif.engine import get_interp
    from ginverif.shims import Key

    rs = np.random.RandomState(3)
    bad = []

    def check(name, ok, detail=""):
        print("%-62s %s" % (name, "OK" if ok else "FAILS " + detail))
        if not ok:
            bad.append(name)

    # A: pytrees -- dict keys are flattened (and rebuilt) in sorted order, whatever the insertion order
    d = {(1, 0): 1, (0, 1): 2, (0, 0): 3}
    leaves, treedef = jax.tree_util.tree_flatten(d)
    check("pytree: dict leaves come in sorted-key order", leaves == [3, 2, 1])
    check("pytree: unflatten rebuilds the dict in sorted-key order", list(jax.tree_util.tree_unflatten(treedef, leaves).keys()) == sorted(d))
    check("pytree: jit returns dict-valued pytrees with sorted keys", list(jax.jit(lambda x: x)(d).keys()) == sorted(d))
    it, w = get_interp("/repo")
    tu = it.get_module("jax.tree_util")
    dm = {k: A.Arr((1,), [v], "int") for k, v in d.items()}
    # ravel_pytree: leaves raveled in sorted-key order; unravel is its inverse
    from jax.flatten_util import ravel_pytree

    dr = {(1, 0): jnp.arange(6.0).reshape(2, 3), (0, 1): jnp.arange(10.0, 12.0), (0, 0): jnp.arange(20.0, 24.0).reshape(2, 2)}
    flat, unravel = ravel_pytree(dr)
    fu = it.get_module("jax.flatten_util")
    drm = {k: A.Arr(tuple(v.shape), [int(e) for e in np.asarray(v).reshape(-1)], "float") for k, v in dr.items()}
    mflat, munravel = it.getattr(fu, "ravel_pytree")(drm)
    back = munravel(mflat)
    check("model: ravel_pytree packs in sorted-key order like jax", [int(e) for e in mflat.elems] == [int(e) for e in np.asarray(flat)])
    check("model: unravel(ravel_pytree(t)) == t with sorted keys", list(back.keys()) == list(unravel(flat).keys()) and all([int(e) for e in back[k].elems] == [int(e) for e in np.asarray(dr[k]).reshape(-1)] and tuple(back[k].shape) == tuple(dr[k].shape) for k in dr))
    check("model: tree_leaves of a dict agrees with jax", [int(x.elems[0]) for x in it.getattr(tu, "tree_leaves")(dm)] == [int(x) for x in jax.tree_util.tree_leaves(d)])

    # A8: eigh is covariant under signed permutations: eigvals(h C h^T) = eigvals(C); eigvecs(h C h^T) = h eigvecs(C) up to sign
    ok_vals = ok_vecs = True
    for D in (2, 3):
        M = rs.randn(D, D)
        C = M @ M.T + 0.1 * np.eye(D)
        w0, v0 = np.linalg.eigh(C)
        for perm in itertools.permutations(range(D)):
            for signs in itertools.product((1, -1), repeat=D):
                h = np.zeros((D, D))
                for i, p in enumerate(perm):
                    h[i, p] = signs[i]
                w1, v1 = np.linalg.eigh(h @ C @ h.T)
                ok_vals &= np.allclose(w0, w1)
                for j in range(D):
                    a, b = v1[:, j], h @ v0[:, j]
                    ok_vecs &= np.allclose(a, b, atol=1e-8) or np.allclose(a, -b, atol=1e-8)
    check("A8: eigvals(h C h^T) == eigvals(C) for all h in B_2, B_3", ok_vals)
    check("A8: eigvecs(h C h^T) == +-h eigvecs(C) (non-degenerate spectrum)", ok_vecs)

    # equinox GroupNorm computes (x - mean) * rsqrt(var + eps) * weight + bias per channel group
    for groups, ch, affine in ((1, 4, True), (2, 4, True), (2, 6, False)):
        gn = eqx.nn.GroupNorm(groups, ch, eps=1e-5, channelwise_affine=affine)
        if affine:
            gn = eqx.tree_at(lambda m: (m.weight, m.bias), gn, (jnp.asarray(rs.randn(ch), jnp.float32), jnp.asarray(rs.randn(ch), jnp.float32)))
        x = rs.randn(ch, 3, 5).astype(np.float32)
        got = np.asarray(gn(jnp.asarray(x)))
        xg = x.reshape(groups, -1)
        mean, var = xg.mean(axis=1, keepdims=True), xg.var(axis=1, keepdims=True)
        ref = ((xg - mean) / np.sqrt(var + 1e-5)).reshape(x.shape)
        if affine:
            ref = ref * np.asarray(gn.weight).reshape(ch, 1, 1) + np.asarray(gn.bias).reshape(ch, 1, 1)
        check("eqx.nn.GroupNorm(groups=%d, channels=%d, affine=%s) matches its definition" % (groups, ch, affine), np.allclose(got, ref, atol=1e-4))

    # equinox Conv / ConvTranspose output extents used by the shape summaries
    eq = it.get_module("equinox")
    key = jax.random.PRNGKey(0)
    for D, ks, st, pad, dil in ((2, 3, 1, "SAME", 1), (2, 3, 2, "SAME", 1), (2, 2, 2, "VALID", 1), (2, 3, 1, 1, 2), (3, 3, 1, "SAME", 1), (2, 1, 1, "SAME", 1)):
        conv = eqx.nn.Conv(D, 2, 3, ks, st, pad, dil, key=key)
        x = jnp.zeros((2,) + (6, 5, 4)[:D])
        want = tuple(conv(x).shape)
        mconv = it.getattr(it.getattr(eq, "nn"), "Conv")(D, 2, 3, ks, st, pad, dil, key=Key(0))
        got = tuple(mconv(A.untracked((2,) + (6, 5, 4)[:D])).shape)
        check("model: eqx.nn.Conv(D=%d, k=%s, stride=%s, padding=%s, dilation=%s) output shape" % (D, ks, st, pad, dil), got == want, "%r vs %r" % (got, want))
    for D, ks, st, pad in ((2, 2, 2, "VALID"), (2, 3, 1, "SAME"), (3, 2, 2, "VALID")):
        convt = eqx.nn.ConvTranspose(D, 2, 3, ks, st, pad, key=key)
        x = jnp.zeros((2,) + (3, 4, 2)[:D])
        want = tuple(convt(x).shape)
        mconvt = it.getattr(it.getattr(eq, "nn"), "ConvTranspose")(D, 2, 3, ks, st, pad, key=Key(0))
        got = tuple(mconvt(A.untracked((2,) + (3, 4, 2)[:D])).shape)
        check("model: eqx.nn.ConvTranspose(D=%d, k=%s, stride=%s, padding=%s) output shape" % (D, ks, st, pad), got == want, "%r vs %r" % (got, want))

    # vmap: per-entry application, in_axes / out_axes
    jx = it.get_module("jax")
    a = rs.randint(-3, 4, size=(2, 3)).astype(np.int64)
    b = rs.randint(-3, 4, size=(4, 2)).astype(np.int64)
    f = lambda s, u, v: u * s + v.sum()
    want = np.asarray(jax.vmap(f, in_axes=(None, 0, 1), out_axes=1)(2, jnp.asarray(a), jnp.asarray(b)))
    am = A.Arr(a.shape, [int(x) for x in a.reshape(-1)], "int")
    bm = A.Arr(b.shape, [int(x) for x in b.reshape(-1)], "int")
    got = it.getattr(jx, "vmap")(f, in_axes=(None, 0, 1), out_axes=1)(2, am, bm)
    check("model: vmap(f, in_axes=(None, 0, 1), out_axes=1) agrees with jax", tuple(got.shape) == want.shape and [int(e) for e in got.elems] == want.reshape(-1).tolist())

    # stop_gradient is the identity on values
    check("stop_gradient(x) == x outside and inside jit", bool(jnp.all(jax.lax.stop_gradient(jnp.arange(3.0)) == jnp.arange(3.0))) and bool(jnp.all(jax.jit(jax.lax.stop_gradient)(jnp.arange(3.0)) == jnp.arange(3.0))))
    # ... and blocks gradients only when executed inside the differentiated function
    g_in = jax.grad(lambda p: jnp.sum(jax.lax.stop_gradient(p) * p))(jnp.ones(2))
    q = jax.lax.stop_gradient(jnp.ones(2))
    g_out = jax.grad(lambda p: jnp.sum(p * p))(q)
    check("stop_gradient protects only inside the differentiated function", bool(jnp.all(g_in == 1.0)) and bool(jnp.all(g_out == 2.0)))
    # random.permutation is a bijection; random.choice defaults to replacement
    p = np.asarray(jax.random.permutation(jax.random.PRNGKey(1), 17))
    check("random.permutation(key, n) is a bijection of range(n)", sorted(p.tolist()) == list(range(17)))
    c = np.asarray(jax.random.choice(jax.random.PRNGKey(0), 6, shape=(60,)))
    check("random.choice draws with replacement by default", len(set(c.tolist())) < 60)

    # lax.map(f, xs) == vmap(f)(xs), pytrees of arrays included (the model of jax.lax.map)
    xs = {"a": jnp.asarray(rs.randn(5, 3)), "b": jnp.asarray(rs.randn(5, 2, 2))}
    f_map = lambda t: {"s": t["a"].sum() * t["b"], "n": t["a"][::-1]}
    m1, m2 = jax.lax.map(f_map, xs), jax.vmap(f_map)(xs)
    check("lax.map(f, xs) == vmap(f)(xs) on a pytree", all(np.allclose(m1[k], m2[k]) for k in m1))
    # buffer donation really deletes the donated arrays of every other reference (the premise of the DONATE rule)
    try:
        kept = {"w": jnp.ones((4,))}
        alias = kept
        stepped = eqx.filter_jit(lambda m: jax.tree_util.tree_map(lambda a: a + 1, m), donate="all")(kept)
        deleted = alias["w"].is_deleted()
    except Exception as e:  # an equinox without the donate option: the rule's sink cannot occur either
        deleted = True
    check("a donated argument is deleted for every holder of a reference", deleted)
    # jax devices expose id / platform / device_kind / process_index (the Device model)
    dv = jax.devices()[0]
    check("jax Device has id, platform, device_kind, process_index", all(hasattr(dv, a) for a in ("id", "platform", "device_kind", "process_index")))
    print("axiom probe: %d failed" % len(bad))
    return 1 if bad else 0


if __name__ == "__main__":
    sys.exit(main())
