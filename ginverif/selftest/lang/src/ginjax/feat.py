import functools, itertools, math
from typing import Optional, Union
from dataclasses import dataclass

def f_gen(n):
    def gen():
        for i in range(n):
            yield i * i
    return list(gen())

def f_tryfinally(x):
    out = []
    try:
        out.append(1)
        if x:
            raise ValueError("boom")
    except ValueError as e:
        out.append(str(e))
    else:
        out.append("else")
    finally:
        out.append("fin")
    return out

def f_star(*args, **kw):
    a, *rest = args
    return a, rest, sorted(kw.items())

def f_compr(n):
    return {i: i * 2 for i in range(n)}, {i % 2 for i in range(n)}, [j for i in range(n) for j in range(i) if j % 2 == 0]

def f_nonlocal():
    c = 0
    def inc():
        nonlocal c
        c += 1
        return c
    inc(); inc()
    return c

G = 5
def f_global():
    global G
    G += 1
    return G

def f_while_else(n):
    i = 0
    while i < n:
        i += 1
    else:
        i += 100
    return i

def f_fstring(x):
    return f"{x!r:>5} {x + 1:03d}"

@dataclass
class P:
    x: int
    y: int = 2
    def s(self):
        return self.x + self.y

class Q:
    def __init__(self, v):
        self._v = v
    @property
    def v(self):
        return self._v
    @staticmethod
    def st(a):
        return a + 1
    @classmethod
    def cl(cls, a):
        return cls(a)

def f_misc():
    p = P(1)
    q = Q.cl(3)
    z = list(zip(range(3), "abc", strict=True))
    e = list(enumerate("ab", start=1))
    m = math.prod([2, 3]), math.comb(4, 2), math.floor(2.5) if False else 2, math.ceil(7 / 2)
    r = functools.reduce(lambda a, b: a + b, [1, 2, 3], 0)
    it = list(itertools.product(range(2), repeat=2)), list(itertools.permutations(range(3), 2))[:2], list(itertools.combinations(range(3), 2)), list(itertools.chain([1], [2]))
    d = dict(a=1); d.setdefault("b", 2); d.update(c=3); del d["a"]
    s = "a,b".split(","), "-".join(["x", "y"]), "abc".upper(), "abc".startswith("a")
    t = 1 < 2 <= 2, not (1 and 0), 3 if [] else 4, (lambda x, y=2: x * y)(3)
    g = getattr(p, "x"), hasattr(p, "zz"), isinstance(p, (P, Q)), type(p).__name__, callable(f_misc)
    sl = list(range(10))[::-2], list(range(10))[1:8:3], tuple(reversed(range(3))), max([1, 5, 2]), min(3, 1), sum([1, 2]), abs(-3), divmod(7, 2), round(2.0), any([0, 1]), all([1, 1])
    w = (y := 5) + y
    return p.s(), q.v, Q.st(1), z, e, m, r, it, sorted(d.items()), s, t, g, sl, w

def f_asserts(x):
    assert x > 0, f"bad {x}"
    return x

def f_lambda_default():
    fs = [lambda x, i=i: x + i for i in range(3)]
    return [f(1) for f in fs]

def f_setops():
    a = {1, 2, 3}; b = {2, 3, 4}
    return sorted(a & b), sorted(a | b), sorted(a - b), a.issubset(a | b), sorted({(1, 2): 3}.keys()) 



def f_more():
    out = []
    for i in range(5):
        if i == 1:
            continue
        if i == 4:
            break
        out.append(i)
    else:
        out.append("no-break")
    for j in range(2):
        pass
    else:
        out.append("else-ran")
    x = [1, 2, 3]
    x[1:2] = [9, 9]
    a, (b, c), *d = 1, (2, 3), 4, 5
    s = {k: v for k, v in zip("ab", (1, 2))}
    t = tuple(sorted(s.items(), key=lambda kv: -kv[1]))
    u = [*x, *d]
    v = {**s, "c": 3}
    n = 7 // 2, -7 // 2, 7 % 3, -7 % 3, 2 ** 5, 5 / 1 == 5, 1 if 0 else 2
    w = "%d-%s" % (3, "x"), "{}:{:>3}".format(1, 2), str(12).zfill(4)
    return out, x, a, b, c, d, t, u, sorted(v.items()), n, w


def f_classes():
    class A:
        k = 1

        def __init__(self, v):
            self.v = v

        def m(self):
            return self.v + self.k

        def __add__(self, o):
            return A(self.v + o.v)

        def __eq__(self, o):
            return isinstance(o, A) and self.v == o.v

        def __len__(self):
            return self.v

    class B(A):
        k = 10

        def m(self):
            return super().m() * 2

    return A(1).m(), B(1).m(), (A(1) + B(2)).v, A(3) == A(3), A(3) == 3, len(B(4)), isinstance(B(1), A), B.k, [c.__name__ for c in B.__mro__][:2]


class _Pt:
    def __init__(self, x, y):
        self.x = x
        self.y = y


def f_match(v):
    out = []
    for s in (v, "TORUS", 3, True, None, (1, 2), [1, 2, 3, 4], {"a": 1, "b": 2}, _Pt(0, 5), _Pt(1, 1), 2.5, "other", ()):
        match s:
            case "TORUS" | "SAME":
                out.append("str-pad")
            case bool():
                out.append("bool")
            case int() as n if n > 2:
                out.append(("big-int", n))
            case int():
                out.append("int")
            case None:
                out.append("none")
            case (a, b):
                out.append(("pair", a, b))
            case [first, *rest]:
                out.append(("seq", first, rest))
            case {"a": x, **others}:
                out.append(("map", x, sorted(others)))
            case _Pt(x=0, y=yy):
                out.append(("pt-on-axis", yy))
            case _Pt():
                out.append("pt")
            case float():
                out.append("float")
            case str() as t:
                out.append(("str", t))
            case _:
                out.append("default")
    return out


TESTS = [("f_gen", (4,)), ("f_tryfinally", (True,)), ("f_tryfinally", (False,)), ("f_star", (1, 2, 3)), ("f_compr", (4,)), ("f_nonlocal", ()), ("f_global", ()), ("f_while_else", (3,)), ("f_fstring", (7,)), ("f_misc", ()), ("f_asserts", (1,)), ("f_lambda_default", ()), ("f_setops", ()), ("f_more", ()), ("f_classes", ()), ("f_match", (1,)), ("f_match", ((7, 8),))]
