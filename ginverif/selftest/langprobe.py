"""Differential self-test of the abstract interpreter's Python semantics: a module of pure-Python language features
is run under CPython and under ginverif.interp; the results must agree (evidence about the checker, not a check)."""
import importlib.util
import os
import sys

HERE = os.path.dirname(os.path.abspath(__file__))
ROOT = os.path.join(HERE, "lang")


def norm(x):
    if isinstance(x, (list, tuple)):
        return [norm(e) for e in x]
    if isinstance(x, dict):
        return {repr(k): norm(v) for k, v in x.items()}
    if isinstance(x, set):
        return sorted(norm(e) for e in x)
    if isinstance(x, float) and x == int(x):
        return int(x)
    return x


def main():
    sys.path.insert(0, os.path.dirname(os.path.dirname(HERE)))
    from ginverif.engine import get_interp

    spec = importlib.util.spec_from_file_location("feat_cpython", os.path.join(ROOT, "src", "ginjax", "feat.py"))
    ref = importlib.util.module_from_spec(spec)
    spec.loader.exec_module(ref)
    it, w = get_interp(ROOT)
    mod = it.get_module("ginjax.feat")
    bad = 0
    for name, args in ref.TESTS:
        want = norm(getattr(ref, name)(*args))
        try:
            got = norm(getattr(mod, name)(*args))
        except Exception as e:  # an unsupported construct is reported, a wrong value is the real concern
            got = "%s: %s" % (type(e).__name__, e)
        ok = got == want
        bad += not ok
        print("%-18s %s" % (name, "OK" if ok else "DIFFERS\n   cpython: %r\n   interp : %r" % (want, got)))
    print("language probe: %d functions, %d differ" % (len(ref.TESTS), bad))
    return 1 if bad else 0


if __name__ == "__main__":
    sys.exit(main())
