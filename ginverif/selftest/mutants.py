"""Self-test of the checkers: textual edits of a scratch copy of /repo/src that still parse and that
change behaviour only outside what the repository's test-suite samples.  Each mutant must make its
property's check exit 1 (VIOLATION); the unmutated tree must be silent.  This is evidence about the
checker, never part of a verdict on /repo.

usage: /venv/bin/python -I -m ginverif.selftest.mutants [PROP ...] [--jobs N] [--list]
"""

import ast
import os
import shutil
import subprocess
import sys
import tempfile
from concurrent.futures import ThreadPoolExecutor

HERE = os.path.dirname(os.path.dirname(os.path.dirname(os.path.abspath(__file__))))
G = "src/ginjax/"

# (property, id, file, old, new, description)
MUTANTS = [
    ("C16", "default_dict_mutated", G + "ml/training.py", "    dynamic_input, constant_fields = input.concat_inverse(constant_fields_dict)", "    for key_ in input.keys():\n        constant_fields_dict.setdefault(key_, 0)\n    dynamic_input, constant_fields = input.concat_inverse(constant_fields_dict)", "autoregressive_step fills in its mutable default dict (harmless in one call: zero constants; the shared default then carries the types of earlier calls -- STATE S4)"),
    ("C12", "concat_in_place", G + "geometric/multi_image.py", "        out = self.copy()\n        for (k, parity), image_block in other.items():\n            out.append(k, parity, image_block, axis)", "        out = self\n        for (k, parity), image_block in other.items():\n            out.append(k, parity, image_block, axis)", "concat builds its result in the left operand (the result is right, the operand is changed: PURITY)"),
    ("C05", "add_in_place", G + "geometric/geometric_image.py", "        return self.__class__(self.data + other.data, self.parity, self.D, self.is_torus)", "        self.data = self.data + other.data\n        return self", "a + b accumulates into a and returns it (PURITY)"),
    ("C12", "add_positional", G + "geometric/multi_image.py", "{key: image_block + other[key] for key, image_block in self.items()}", "{key: image_block + other_block for (key, image_block), other_block in zip(self.items(), other.values())}", "__add__ pairs positionally again"),
    ("C12", "sub_template_other", G + "geometric/multi_image.py", "{key: image_block - other[key] for key, image_block in self.items()}", "{key: self[key] - image_block for key, image_block in other.items()}", "harmless: __sub__ iterates other's keys (still keyed) -- must NOT be flagged"),
    ("C12", "no_keyset_assert", G + "geometric/multi_image.py", "        assert (\n            self.keys() == other.keys()\n        ), f\"{self.__class__}::__add__: Must have same types of images, had {self.keys()} and {other.keys()}\"\n\n        # pair", "        # pair", "__add__ no longer rejects operands with different type sets (first occurrence)"),
    ("C12", "eq_wrong_key", G + "geometric/multi_image.py", "if not jnp.allclose(self[key], other[key], rtol, atol):", "if not jnp.allclose(self[key], other[next(iter(other.keys()))], rtol, atol):", "__eq__ compares every block with other's first block"),
    ("C08", "unpool_filter_pseudo", G + "geometric/geometric_image.py", "grow_filter = GeometricImage(jnp.ones((patch_len,) * self.D), 0, self.D)", "grow_filter = GeometricImage(jnp.ones((patch_len,) * self.D), 1, self.D)", "unpool declares the opposite parity for its result"),
    ("C19", "counter_starts_at_one", G + "ml/stopping_conditions.py", "        self.best_train_loss = jnp.inf\n        self.epochs_since_best = 0", "        self.best_train_loss = jnp.inf\n        self.epochs_since_best = 1", "TrainLoss starts with one non-improving epoch already counted"),
    ("C15", "arange_stop_pow", G + "data.py", "jnp.arange(0, past_steps * delta_t, delta_t)[None, :]", "jnp.arange(0, past_steps ** delta_t, delta_t)[None, :]", "input window offsets run to past**dt (differs only for (2,3),(3,2),(3,3))"),
    ("C13", "save_writes_nothing", G + "ml/training.py", "        eqx.tree_serialise_leaves(f, model)\n", "        pass\n", "save opens the file but writes nothing"),
    ("C19", "epoch_starts_at_one", G + "ml/training.py", "    epoch = 0\n    epoch_val_loss = None", "    epoch = 1\n    epoch_val_loss = None", "train starts counting epochs at 1: EpochStop(n) stops after n-1 epochs"),
    ("C14", "component_slice_time_major", G + "geometric/multi_image.py", "component_data = jnp.moveaxis(component_data, -1, 0).reshape((-1,) + spatial_dims)", "component_data = jnp.moveaxis(component_data, -1, 1).reshape((-1,) + spatial_dims)", "get_component with a slice returns time-major instead of component-major planes (differs for >=2 components and >=2 steps)"),
    ("C20", "unet_levels_ignore_mid_keys", G + "models.py", "ALL:c * (2**downsample)) for k_p, c in mid_keys", "depth * (2**downsample)) for k_p, c in mid_keys", "F14 again: the first down-sampling level is sized from depth, not from mid_keys"),
    ("C20", "convcontract_first_reached_order", G + "ml/layers.py", "        ordered = input_multi_image.empty()\n        for (out_k, out_p), _ in self.target_keys:\n            if (out_k, out_p) in out:\n                ordered.append(out_k, out_p, out[(out_k, out_p)])\n\n        return ordered\n", "        return out\n", "F13 again: output types in order of first reachability"),
    ("C12", "eq_last_block_only", G + "geometric/multi_image.py", "            for key in self.keys():\n                if not jnp.allclose(self[key], other[key], rtol, atol):\n                    return False\n\n            return True", "            equal = True\n            for key in self.keys():\n                equal = bool(jnp.allclose(self[key], other[key], rtol, atol))\n\n            return equal", "__eq__ reports only the comparison of the last block"),
    ("C13", "scalar_moveaxis", G + "geometric/multi_image.py", "out.append(k, parity, jnp.moveaxis(reshaped_data, -(1 + k), n_batch_axes))", "out.append(k, parity, jnp.moveaxis(reshaped_data, -(1 + k), max(n_batch_axes - (1 if k > 1 else 0), 0)))", "from_scalar_multi_image misplaces channels for k>=2 with a batch axis"),
    ("C13", "aux_drop_is_torus", G + "geometric/multi_image.py", "        aux_data = {\n            \"D\": self.D,\n            \"is_torus\": self.is_torus,\n        }  # static values\n        return (children, aux_data)\n\n    @classmethod\n    def tree_unflatten(cls, aux_data, children):\n        \"\"\"\n        Helper function to define GeometricImage as a pytree so jax.jit handles it correctly.\n        \"\"\"\n        return cls(*children, **aux_data)\n", "        aux_data = {\n            \"D\": self.D,\n        }  # static values\n        return (children, aux_data)\n\n    @classmethod\n    def tree_unflatten(cls, aux_data, children):\n        \"\"\"\n        Helper function to define GeometricImage as a pytree so jax.jit handles it correctly.\n        \"\"\"\n        return cls(*children, **aux_data)\n", "MultiImage pytree drops is_torus"),
    ("C13", "concat_inverse_slice", G + "geometric/multi_image.py", "b.append(k, parity, image_block[(slice(None),) * axis + (slice(-size, axis_size),)])", "b.append(k, parity, image_block[(slice(None),) * axis + (slice(-size + (1 if axis > 0 and size > 1 else 0), axis_size),)])", "concat_inverse loses one entry for axis>0"),
    ("C13", "load_text_mode", G + "ml/training.py", "with open(filename, \"rb\") as f:", "with open(filename, \"r\") as f:", "load opens the file in text mode"),
    ("C15", "target_start_dt", G + "data.py", "    first_start = past_steps * delta_t\n", "    first_start = past_steps * delta_t - (1 if delta_t > 1 else 0)\n", "target window starts one step early when dt>1"),
    ("C15", "skip_after", G + "data.py", "        image = image[:, skip_initial:]\n", "        image = image[:, : image.shape[1] - skip_initial]\n", "skip drops the last instead of the first steps"),
    ("C15", "const_to_target", G + "data.py", "        multi_image_x.append(k, parity, jnp.full((batch,) + image.shape, image), axis=1)\n", "        multi_image_x.append(k, parity, jnp.full((batch,) + image.shape, image), axis=1)\n        if delta_t > 1:\n            multi_image_y.append(k, parity, jnp.full((batch,) + image.shape, image), axis=1)\n", "constants leak into targets when dt>1"),
    ("C16", "drop_newest", G + "ml/training.py", "[dynamic_input[(k, parity)][:, future_steps:], output[(k, parity)]], axis=1", "[output[(k, parity)], dynamic_input[(k, parity)][:, :-1]], axis=1", "prediction inserted as oldest, newest dropped"),
    ("C16", "const_first", G + "ml/training.py", "            new_input.append(k, parity, new_input_image)\n\n        if (k, parity) in constant_fields:\n            new_input.append(k, parity, constant_fields[(k, parity)])\n", "            if (k, parity) in constant_fields and past_steps > 2:\n                new_input.append(k, parity, constant_fields[(k, parity)])\n            new_input.append(k, parity, new_input_image)\n\n        if (k, parity) in constant_fields and not past_steps > 2:\n            new_input.append(k, parity, constant_fields[(k, parity)])\n", "constants re-appended before the dynamic part for past_steps>2"),
    ("C17", "perm_per_image", G + "ml/training.py", "        for j, multi_image in enumerate(multi_images):\n            batches[j]", "        for j, multi_image in enumerate(multi_images):\n            if rand_key is not None and j > 0:\n                idxs = random.permutation(random.split(rand_key)[0], L)[i * batch_size : (i + 1) * batch_size]\n            batches[j]", "every co-batched multi-image after the first gets its own permutation"),
    ("C17", "overlap", G + "ml/training.py", "idxs = batch_indices[i * batch_size : (i + 1) * batch_size]", "idxs = batch_indices[i * (batch_size - (1 if L % batch_size else 0)) : i * (batch_size - (1 if L % batch_size else 0)) + batch_size]", "batches overlap when L is not divisible by B"),
    ("C18", "smse_zip", G + "ml/losses.py", "    for key, image_a in multi_image_x.items():\n        image_b = multi_image_y[key]  # pair by (k,parity), the dict orders may differ\n        loss = jnp.sum(", "    for image_a, image_b in zip(multi_image_x.values(), multi_image_y.values()):\n        loss = jnp.sum(", "smse_loss pairs positionally again"),
    ("C18", "wrong_normaliser", G + "ml/losses.py", "        loss = jnp.sum((image_a - image_b) ** 2, axis=tuple(range(1, image_a.ndim))) / spatial_size\n", "        loss = jnp.sum((image_a - image_b) ** 2, axis=tuple(range(1, image_a.ndim))) / (image_a.size // len(image_a) // image_a.shape[1])\n", "smse divides by pixels x tensor components"),
    ("C18", "timestep_reshape", G + "ml/losses.py", "        image_b = image_b.reshape((batch, -1, n_steps) + image_b.shape[2:])\n", "        image_b = jnp.moveaxis(image_b.reshape((batch, n_steps, -1) + image_b.shape[2:]), 1, 2)\n", "target read as (step, channel) instead of (channel, step)"),
    ("C02", "center_wrong_side", G + "geometric/functional_geometric_image.py", "rotated_centering_coords = np.abs(centering_coords @ gg)", "rotated_centering_coords = np.abs(gg @ centering_coords.reshape((D, 1))).reshape((1, D))", "re-centring on the wrong side (the original defect)"),
    ("C02", "parity_sign", G + "geometric/functional_geometric_image.py", "    parity_flip = sign**parity  # if parity=1, the flip operators don't flip the tensors\n\n    rotated_spatial_dims", "    parity_flip = sign ** (parity if k > 0 else 0)\n\n    rotated_spatial_dims", "pseudo-scalars lose their sign flip"),
    ("C02", "einsum_transposed", G + "geometric/functional_geometric_image.py", "einstr += \",\".join([LETTERS[i + 13] + LETTERS[i + D] for i in range(k)])\n        tensor_inputs = (rotated_pixels,)", "einstr += \",\".join([(LETTERS[i + D] + LETTERS[i + 13]) if i == 1 else (LETTERS[i + 13] + LETTERS[i + D]) for i in range(k)])\n        tensor_inputs = (rotated_pixels,)", "g transposed on the second tensor index"),
    ("C02", "flags_not_carried", G + "geometric/geometric_image.py", "            self.D,\n            rotated_is_torus,\n        )", "            self.D,\n            self.is_torus,\n        )", "GeometricImage flags not permuted"),
    ("C14", "norm_axis0", G + "geometric/multi_image.py", "out.append(0, 0, norm(n_lead_axes + self.D, image_block), axis=n_lead_axes - 1)", "out.append(0, 0, norm(n_lead_axes + self.D, image_block), axis=0)", "norms concatenated on the batch axis"),
    ("C14", "avgpool_restore", G + "geometric/multi_image.py", "img_pooled.reshape((image_block.shape[:n_leading_axes] + img_pooled.shape[1:]))", "jnp.moveaxis(img_pooled.reshape((image_block.shape[:n_leading_axes][::-1] + img_pooled.shape[1:])), 0, n_leading_axes - 1) if n_leading_axes == 2 else img_pooled.reshape((image_block.shape[:n_leading_axes] + img_pooled.shape[1:]))", "average_pool restores two leading axes transposed"),
    ("C14", "collective", G + "ml/layers.py", "                mean_vec = jnp.mean(image_block, axis=tuple(range(1, 1 + self.D)), keepdims=True)\n", "                mean_vec = jax.lax.pmean(jnp.mean(image_block, axis=tuple(range(1, 1 + self.D)), keepdims=True), \"batch\") if self.eps < 0 else jnp.mean(image_block, axis=tuple(range(1, 1 + self.D)), keepdims=True)\n", "a cross-batch collective inside GroupNorm"),
    ("C04", "same_ignores_dilation", G + "geometric/functional_geometric_image.py", "            return (((M - 1) // 2) * dilation, ((M - 1) // 2) * dilation)", "            return (((M - 1) // 2) * dilation, ((M - 1) // 2) * (dilation if M > 3 else 1))", "SAME padding one-sided w.r.t. dilation for M=3"),
    ("C04", "int_padding_one_side", G + "geometric/functional_geometric_image.py", "padding_literal = ((padding, padding),) * D", "padding_literal = ((padding, padding),) * (D - 1) + ((padding, 0 if padding > 1 else padding),)", "integer padding >1 applied to one side of the last axis"),
    ("C04", "contract_last_axes", G + "geometric/functional_geometric_image.py", "return jnp.sum(convolved_img, axis=range(2 + D, 2 + D + img_k))", "return jnp.sum(convolved_img, axis=range(convolved_img.ndim - img_k, convolved_img.ndim))", "fused contraction sums the last instead of the first tensor axes"),
    ("C04", "drop_lhs_dilation", G + "geometric/functional_geometric_image.py", "        lhs_dilation=lhs_dilation,\n        rhs_dilation=rhs_dilation,\n        dimension_numbers", "        lhs_dilation=None if (lhs_dilation is not None and len(set(lhs_dilation)) > 1) else lhs_dilation,\n        rhs_dilation=rhs_dilation,\n        dimension_numbers", "anisotropic image dilation silently dropped"),
    ("C04", "torus_flags_reversed", G + "geometric/functional_geometric_image.py", "zipped_dims = zip(filter_spatial_dims, rhs_dilation, is_torus)\n    torus_padding", "zipped_dims = zip(filter_spatial_dims, rhs_dilation, tuple(reversed(is_torus)))\n    torus_padding", "wrap padding uses the reversed flag tuple"),
    ("C04", "channel_major_features", G + "geometric/functional_geometric_image.py", "    img_formatted = jnp.moveaxis(img_expanded, 1, -1)\n", "    img_formatted = jnp.moveaxis(img_expanded, 1, -1) if in_c != 3 else jnp.moveaxis(img_expanded, 1, 1 + D)\n", "in_c-major feature layout for in_c == 3 (components mix)"),
    ("C04", "avgpool_norm", G + "geometric/functional_geometric_image.py", "filter_data = (1 / (patch_len**D)) * jnp.ones((1, 1) + (patch_len,) * D)", "filter_data = (1 / (patch_len**2)) * jnp.ones((1, 1) + (patch_len,) * D)", "average pool normalised by patch_len**2 (wrong in 3D)"),
    ("C11", "bias_raw", G + "ml/layers.py", "        self.use_bias = use_bias  # the normalized setting, True has become \"auto\"\n", "", "the original defect: raw use_bias stored"),
    ("C11", "wrong_filter_parity", G + "ml/layers.py", "            for (out_k, out_p), weight_block in weights[(in_k, in_p)].items():\n                filter_key = (in_k + out_k, (in_p + out_p) % 2)\n\n                # (out_c,in_c,num_inv_filters)", "            for (out_k, out_p), weight_block in weights[(in_k, in_p)].items():\n                filter_key = (in_k + out_k, (in_p + out_p) % 2 if in_k + out_k < 2 else in_p)\n\n                # (out_c,in_c,num_inv_filters)", "filter parity ignores the target parity for k>=2 filters"),
    ("C11", "bias_on_vectors", G + "ml/layers.py", "if (k, p) == (0, 0) and (self.use_bias == \"scalar\" or self.use_bias == \"auto\"):", "if k == 0 and (self.use_bias == \"scalar\" or self.use_bias == \"auto\"):", "additive bias also on pseudo-scalars"),
    ("C11", "mean_over_channels", G + "ml/layers.py", "image, axis=tuple(range(1, 1 + self.invariant_filters.D)), keepdims=True", "image, axis=tuple(range(0, self.invariant_filters.D)), keepdims=True", "mean taken over channel and all but the last spatial axis"),
    ("C11", "skip_target", G + "ml/layers.py", "                if (out_k, out_p) in out:  # it already has that key\n                    out[(out_k, out_p)] = convolve_contracted_imgs + out[(out_k, out_p)]", "                if (out_k, out_p) in out:  # it already has that key\n                    out[(out_k, out_p)] = convolve_contracted_imgs if in_k > out_k else convolve_contracted_imgs + out[(out_k, out_p)]", "accumulation over input types overwritten when in_k > out_k"),
    ("C10", "no_inverse", G + "models.py", "rot_out_image = out_image.times_group_element(gg.T)", "rot_out_image = out_image.times_group_element(gg)", "output rotated by g instead of g^-1"),
    ("C10", "divide_const", G + "models.py", "return sum_image / len(self.operators), out_aux", "return sum_image / 8, out_aux", "division by a constant group order"),
    ("C10", "skip_first_operator", G + "models.py", "            for gg in self.operators:\n                out_image, out_aux", "            for gg in self.operators[1:] if len(self.operators) > 4 else self.operators:\n                out_image, out_aux", "the identity is skipped for groups with more than 4 elements"),
    ("C10", "flip_input_only", G + "models.py", "            self.model(self.to1d(x.times_group_element(equator_flip)), aux_data)[0]\n        ).times_group_element(equator_flip)", "            self.model(self.to1d(x.times_group_element(equator_flip)), aux_data)[0]\n        )", "equator flip not undone on the output"),
    ("C10", "swap_components", G + "models.py", "                out.append(0, 1, image[..., 0])\n                out.append(0, 0, image[..., 1])", "                out.append(0, 1, image[..., 1])\n                out.append(0, 0, image[..., 0])", "vector components sent to the wrong parity in to1d only"),
    ("C10", "to1d_unsorted", G + "models.py", "in sorted(dynamic_x.items(), key=lambda key_img: key_img[0]):", "in dynamic_x.items():", "the original defect"),
    ("C06", "filter_parity_in_only", G + "ml/layers.py", "ALL:filter_key = (in_k + out_k, (in_p + out_p) % 2)", "filter_key = (in_k + out_k, in_p % 2)", "filter type ignores the target parity (consistently in constructor and call)"),
    ("C06", "bias_on_pseudoscalars", G + "ml/layers.py", "if (k, p) == (0, 0) and (self.use_bias == \"scalar\" or self.use_bias == \"auto\"):", "if k == 0 and (self.use_bias == \"scalar\" or self.use_bias == \"auto\"):", "additive bias on pseudo-scalars"),
    ("C06", "mean_over_last_axis", G + "ml/layers.py", "image, axis=tuple(range(1, 1 + self.invariant_filters.D)), keepdims=True", "image, axis=tuple(range(2, 2 + self.invariant_filters.D)) if k > 0 else tuple(range(1, 1 + self.invariant_filters.D)), keepdims=True", "mean over one spatial axis and the first tensor axis for k>0"),
    ("C06", "asymmetric_same", G + "geometric/functional_geometric_image.py", "            return (((M - 1) // 2) * dilation, ((M - 1) // 2) * dilation)", "            return (((M - 1) // 2) * dilation + 1, ((M - 1) // 2) * dilation - 1)", "SAME padding shifted by one pixel"),
    ("C01", "wrap_to_reflect", G + "geometric/functional_geometric_image.py", "torus_padding + ((0, 0),), mode=\"wrap\")", "torus_padding + ((0, 0),), mode=\"wrap\" if image.shape[1] != image.shape[2] else \"symmetric\")", "periodic halo replaced by a mirrored one on square images"),
    ("C01", "zero_mask_not_complement", G + "geometric/functional_geometric_image.py", "        tuple(not torus for torus in is_torus),\n", "        tuple(not torus for torus in is_torus[:-1]) + (True,),\n", "last axis zero padded even when it is wrapped"),
    ("C01", "parity_dropped", G + "geometric/geometric_image.py", "            self.parity + filter_image.parity,\n", "            self.parity,\n", "convolve_with forgets the filter parity"),
    ("C01", "torus_amount_one_sided", G + "geometric/functional_geometric_image.py", "padding_f = lambda M, dilation, torus: ((((M - 1) // 2) * dilation),) * 2 if torus else (0, 0)", "padding_f = lambda M, dilation, torus: ((((M - 1) // 2) * dilation), ((M - 1) // 2) * dilation + (dilation - 1)) if torus else (0, 0)", "wrap halo larger on the high side for dilation > 1"),
    ("C01", "expand_order_swapped", G + "geometric/functional_geometric_image.py", "        image_b_expanded = image_b_expanded.transpose(idxs)\n", "        image_b_expanded = image_b_expanded.transpose(idxs) if img_b_k == 0 or img_a_k != img_b_k else jnp.moveaxis(image_b_expanded.transpose(idxs), -1, -(1 + img_b_k))\n", "filter tensor indices interleaved when k == k' > 0"),
    ("C05", "lc_parity", G + "geometric/geometric_image.py", "multicontract(outer, zipped_indices), self.parity + 1, self.D, self.is_torus", "multicontract(outer, zipped_indices), self.parity + (1 if self.D == 3 else 0), self.D, self.is_torus", "Levi-Civita contraction keeps the parity in 2D"),
    ("C05", "product_parity", G + "geometric/geometric_image.py", "                mul(self.D, self.data, other.data),\n                self.parity + other.parity,", "                mul(self.D, self.data, other.data),\n                max(self.parity, other.parity),", "product parity = max instead of sum (pseudo x pseudo stays pseudo)"),
    ("C05", "norm_keeps_parity", G + "geometric/geometric_image.py", "return self.__class__(norm(self.D, self.data), 0, self.D, self.is_torus)", "return self.__class__(norm(self.D, self.data), self.parity, self.D, self.is_torus)", "norm of a pseudo-tensor declared pseudo-scalar"),
    ("C05", "add_no_parity_assert", G + "geometric/geometric_image.py", "        assert self.parity == other.parity\n        assert self.is_torus == other.is_torus\n        assert self.data.shape == other.data.shape\n        return self.__class__(self.data + other.data", "        assert self.is_torus == other.is_torus\n        assert self.data.shape == other.data.shape\n        return self.__class__(self.data + other.data", "__add__ no longer rejects operands of different parity"),
    ("C05", "contract_letters", G + "geometric/functional_geometric_image.py", "        einstr[idx1 + idx_shift] = einstr[idx2 + idx_shift] = LETTERS[-(i + 1)]", "        einstr[idx1 + idx_shift] = einstr[idx2 + idx_shift] = LETTERS[-(min(i, 0) + 1)]", "all contraction pairs share one letter"),
    ("C08", "affine_pseudoscalar", G + "ml/layers.py", "groups, in_c, eps, channelwise_affine=(p == 0)", "groups, in_c, eps", "the original defect: affine norm on pseudoscalars"),
    ("C08", "vector_bias_additive", G + "ml/layers.py", "whitened_data = whitened_data * self.scale[(k, p)] + self.bias[(k, p)] * mean_vec", "whitened_data = whitened_data * self.scale[(k, p)] + self.bias[(k, p)]", "plain additive bias on vectors (zero at initialisation)"),
    ("C08", "cholesky", G + "ml/layers.py", "whitened_data = _group_norm_K1(self.D, image_block, self.groups, eps=self.eps)", "whitened_data = _group_norm_K1(self.D, image_block, self.groups, method=\"cholesky\", eps=self.eps)", "cholesky whitening (depends on the axis order)"),
    ("C08", "mean_over_tensor_axis", G + "ml/layers.py", "    mean = jnp.mean(image_grouped, axis=tuple(range(1, 2 + D)), keepdims=True)  # (G,1,(1,)*D,D)", "    mean = jnp.mean(image_grouped, axis=tuple(range(1, 3 + D)), keepdims=True)", "statistics averaged over the vector components too"),
    ("C08", "vn_guard_k0", G + "ml/layers.py", "            if (k, p) == (0, 0):\n                out_x.append(k, p, self.scalar_activation(img_block))", "            if k == 0:\n                out_x.append(k, p, self.scalar_activation(img_block))", "scalar activation applied directly to pseudo-scalars"),
    ("C08", "maxpool_no_norm", G + "ml/layers.py", "vmap_max_pool(x.D, image_block, self.patch_len, self.use_norm)", "vmap_max_pool(x.D, image_block, self.patch_len, self.use_norm and k > 0)", "scalars pooled by signed value instead of norm (breaks pseudo-scalars)"),
    ("C08", "unpool_asymmetric", G + "geometric/geometric_image.py", "padding=((patch_len - 1,) * 2,) * self.D,", "padding=((patch_len - 1, patch_len - 2 + (patch_len == 2)),) * (self.D - 1) + ((patch_len - 1,) * 2,),", "harmless for patch 2, asymmetric for patch 3"),
    ("C07", "wrapped_groupnorm", G + "models.py", "                self.group_norm = ml.LayerNorm(norm_keys, self.D)\n", "                self.group_norm = ml.LayerWrapper(eqx.nn.GroupNorm(1, norm_keys[0][1]), norm_keys) if len(norm_keys) == 1 else ml.LayerNorm(norm_keys, self.D)\n", "a conventional group norm wrapped per type in the equivariant branch (single-type signatures)"),
    ("C07", "maxpool_by_value", G + "models.py", "down_layers = (ml.MaxNormPool(2, equivariant), [])", "down_layers = (ml.MaxNormPool(2, not equivariant), [])", "U-Net pools by signed value in equivariant mode"),
    ("C07", "upsample_asymmetric", G + "models.py", "                padding = ((1, 1),) * self.D\n", "                padding = ((1, 1),) * (self.D - 1) + ((2, 0),)\n", "asymmetric padding of the up-sampling transposed convolution"),
    ("C07", "anisotropic_dilation", G + "models.py", "rhs_dilation=(dilation,) * D,", "rhs_dilation=(dilation,) * (D - 1) + (1,),", "dilation schedule applied to all but the last axis"),
    ("C07", "scalar_activation_wrapper", G + "models.py", "            return ml.VectorNeuronNonlinear(\n                input_keys, D, ACTIVATION_REGISTRY[activation_f], key=key\n            )", "            return ml.LayerWrapper(ACTIVATION_REGISTRY[activation_f], input_keys)", "registry activations applied point-wise to every type in equivariant mode"),
    ("C07", "residual_dropped_parity", G + "models.py", "            x = upsample_x.concat(residual_multi_image)\n", "            x = upsample_x.concat(residual_multi_image.norm()) if (0, 0) in residual_multi_image and len(residual_multi_image.keys()) == 1 else upsample_x.concat(residual_multi_image)\n", "harmless for the swept signatures? skip norms -- equivariant anyway; must NOT be flagged as equivariance violation if shapes agree"),
    ("C20", "level_channels", G + "models.py", "                        tuple((k_p, c * (2 ** (downsample - 1))) for k_p, c in mid_keys)", "                        tuple((k_p, c * (2 ** (downsample - 1 if downsample < 2 else downsample))) for k_p, c in mid_keys)", "channel arithmetic off by one level from the second down-sampling on"),
    ("C20", "decode_mid_keys", G + "models.py", "        self.decode = make_conv(\n            self.D,\n            mid_keys,\n            output_keys,", "        self.decode = make_conv(\n            self.D,\n            mid_keys,\n            mid_keys if (equivariant and len(output_keys) > 2) else output_keys,", "U-Net decode emits the mid signature for large output signatures"),
    ("C20", "flatten_size", G + "models.py", "            input_keys_size = sum(in_c * (D**k) for (k, _), in_c in input_keys)", "            input_keys_size = sum(in_c * (D ** min(k, 1)) for (k, _), in_c in input_keys)", "flattened input size miscounts k>=2 components (conventional U-Net)"),
    ("C20", "output_order_from_set", G + "models.py", "        self.output_keys = output_keys\n\n        if equivariant:\n            if mid_keys is None:\n                mid_keys = geom.signature_union(input_keys, output_keys, depth)\n        else:\n            if mid_keys is None:\n                mid_keys = geom.Signature((((0, 0), depth),))\n\n            # use these keys along the way, then for the final output use self.output_keys\n            input_keys = geom.Signature(\n                (((0, 0), sum(in_c * (D**k) for (k, _), in_c in input_keys)),)\n            )\n            output_keys = geom.Signature(\n                (((0, 0), sum(out_c * (D**k) for (k, _), out_c in output_keys)),)\n            )\n\n        # encoder\n        key, subkey1, subkey2 = random.split(key, num=3)\n        self.encoder = [\n            ConvBlock(\n                D,\n                input_keys,\n                mid_keys,\n                use_bias,\n                activation_f,\n                equivariant,\n                conv_filters,\n                1,\n                key=subkey1,\n            ),\n            ConvBlock(\n                D,\n                mid_keys,\n                mid_keys,\n                use_bias,\n                activation_f,\n                equivariant,\n                conv_filters,\n                1,\n                key=subkey2,\n            ),\n        ]\n\n        self.blocks = []\n        for _ in range(num_blocks):\n            # dCNN block\n            dilation_block = []", "        self.output_keys = output_keys\n        if equivariant:\n            output_keys = tuple(sorted(output_keys))\n\n        if equivariant:\n            if mid_keys is None:\n                mid_keys = geom.signature_union(input_keys, output_keys, depth)\n        else:\n            if mid_keys is None:\n                mid_keys = geom.Signature((((0, 0), depth),))\n\n            # use these keys along the way, then for the final output use self.output_keys\n            input_keys = geom.Signature(\n                (((0, 0), sum(in_c * (D**k) for (k, _), in_c in input_keys)),)\n            )\n            output_keys = geom.Signature(\n                (((0, 0), sum(out_c * (D**k) for (k, _), out_c in output_keys)),)\n            )\n\n        # encoder\n        key, subkey1, subkey2 = random.split(key, num=3)\n        self.encoder = [\n            ConvBlock(\n                D,\n                input_keys,\n                mid_keys,\n                use_bias,\n                activation_f,\n                equivariant,\n                conv_filters,\n                1,\n                key=subkey1,\n            ),\n            ConvBlock(\n                D,\n                mid_keys,\n                mid_keys,\n                use_bias,\n                activation_f,\n                equivariant,\n                conv_filters,\n                1,\n                key=subkey2,\n            ),\n        ]\n\n        self.blocks = []\n        for _ in range(num_blocks):\n            # dCNN block\n            dilation_block = []", "DilResNet emits its output types in sorted instead of requested order"),
    ("C20", "preact_output_keys", G + "models.py", "        norm_keys = input_keys if preactivation_order else output_keys\n", "        norm_keys = output_keys\n", "the original ConvBlock pre-activation defect"),
    ("C09", "no_stop_gradient", G + "ml/layers.py", "                    weight_block,\n                    jax.lax.stop_gradient(self.invariant_filters[filter_key]),\n                )\n\n                convolve_contracted_imgs", "                    weight_block,\n                    self.invariant_filters[filter_key],\n                )\n\n                convolve_contracted_imgs", "stop_gradient removed in individual_convolve"),
    ("C09", "alias_bypass", G + "ml/layers.py", "        out = input_multi_image.empty()\n        for (in_k, in_p), images_block in input_multi_image.items():\n            for (out_k, out_p), weight_block in weights[(in_k, in_p)].items():\n                filter_key = (in_k + out_k, (in_p + out_p) % 2)\n\n                # (out_c,in_c,num_inv_filters) (num, spatial, tensor) -> (out_c,in_c,spatial,tensor)\n                filter_block = jnp.einsum(\n                    \"ijk,k...->ij...\",\n                    weight_block,\n                    jax.lax.stop_gradient(self.invariant_filters[filter_key]),", "        out = input_multi_image.empty()\n        bank = self.invariant_filters\n        for (in_k, in_p), images_block in input_multi_image.items():\n            for (out_k, out_p), weight_block in weights[(in_k, in_p)].items():\n                filter_key = (in_k + out_k, (in_p + out_p) % 2)\n\n                # (out_c,in_c,num_inv_filters) (num, spatial, tensor) -> (out_c,in_c,spatial,tensor)\n                filter_block = jnp.einsum(\n                    \"ijk,k...->ij...\",\n                    weight_block,\n                    jax.lax.stop_gradient(bank[filter_key]) if out_k == 0 else bank[filter_key],", "bank read through an alias; unprotected for non-scalar targets"),
    ("C09", "fast_no_stop_gradient", G + "ml/layers.py", "                    weight_block,\n                    jax.lax.stop_gradient(self.invariant_filters[filter_key]),\n                )\n                # (out_c,in_c,spatial,tensor) -> (in_c,spatial,in_tensor,-1,out_c)", "                    weight_block,\n                    self.invariant_filters[filter_key],\n                )\n                # (out_c,in_c,spatial,tensor) -> (in_c,spatial,in_tensor,-1,out_c)", "stop_gradient removed in fast_convolve"),
    ("C09", "manual_update", G + "ml/training.py", "    model = eqx.apply_updates(model, updates)\n", "    model = eqx.apply_updates(model, updates)\n    model = jax.tree_util.tree_map(lambda p: p * 0.999 if eqx.is_array(p) and p.ndim > 3 else p, model)\n", "an extra hand-written parameter modification after the optimiser step"),
    ("C09", "grad_wrt_data", G + "ml/training.py", "    (loss, aux_data), grads = compute_loss_pmap(model, x, y, aux_data)", "    (loss, aux_data), grads = compute_loss_pmap(eqx.nn.inference_mode(model), x, y, aux_data)", "gradient evaluated at a modified copy of the model"),
    ("C09", "bank_rewritten", G + "ml/layers.py", "        if self.fast_mode:\n            x = self.fast_convolve(x, self.weights)", "        if self.fast_mode:\n            self.invariant_filters = self.invariant_filters.copy()\n            x = self.fast_convolve(x, self.weights)", "the bank field is written outside the constructor"),
    ("C03", "skip_identity", G + "geometric/common.py", "[times_group_element(D, ff, parity, gg, precision) for gg in operators]", "[times_group_element(D, ff, parity, gg, precision) for gg in operators[1:]]", "the average skips the first group element"),
    ("C03", "parity_literal", G + "geometric/common.py", "[times_group_element(D, ff, parity, gg, precision) for gg in operators]", "[times_group_element(D, ff, 0, gg, precision) for gg in operators]", "averaging with parity 0 whatever the requested parity"),
    ("C03", "basis_truncated", G + "geometric/common.py", "    filter_matrix = group_average(basis).reshape(len(basis), -1)\n", "    filter_matrix = group_average(basis[:-1]).reshape(len(basis) - 1, -1)\n", "the last basis element is not averaged"),
    ("C03", "no_sign_canonicalisation", G + "geometric/common.py", "    filter_matrix = filter_matrix * leading_signs[:, None]\n", "", "rows are not sign-canonicalised before de-duplication (f and -f both kept)"),
    ("C03", "drop_last_filter", G + "geometric/common.py", "    filters = [ff.rectify() for ff in filters]\n", "    filters = [ff.rectify() for ff in filters]\n    filters = filters[:-1] if len(filters) > 3 else filters\n", "the last member of large families is dropped"),
    ("C03", "rectify_transposes", G + "geometric/geometric_image.py", "        if self.k == 0:\n            if jnp.sum(self.data) < 0:\n                return self.times_scalar(-1)", "        if self.k == 2:\n            return self.transpose((1, 0))\n        if self.k == 0:\n            if jnp.sum(self.data) < 0:\n                return self.times_scalar(-1)", "rectify transposes 2-tensor filters"),
    ("C03", "dict_parity_literal", G + "geometric/common.py", "allfilters[key] = get_unique_invariant_filters(M, k, parity, D, operators, scale)", "allfilters[key] = get_unique_invariant_filters(M, k, 0, D, operators, scale)", "the dictionary builder ignores the requested parity"),
    ("C03", "filter_parity_constant", G + "geometric/common.py", "filters = [GeometricFilter(aa.reshape(shape), parity, D) for aa in amps]", "filters = [GeometricFilter(aa.reshape(shape), 0, D) for aa in amps]", "filters are labelled with parity 0"),
    ("C12", "H_add_treemap", G + "geometric/multi_image.py", "        return self.__class__(\n            {key: image_block + other[key] for key, image_block in self.items()},\n            self.D,\n            self.is_torus,\n        )", "        return jax.tree_util.tree_map(lambda a, b: a + b, self, other)", "harmless: __add__ via tree_map (pairs by sorted key)"),
    ("C13", "H_to_vector_listcomp", G + "geometric/multi_image.py", "        return functools.reduce(\n            lambda x, y: jnp.concatenate([x, y.reshape(-1)]),\n            self.values(),\n            jnp.zeros(0),\n        )", "        return jnp.concatenate([jnp.zeros(0)] + [block.ravel() for block in self.values()])", "harmless: to_vector as one concatenate"),
    ("C04", "H_same_padding_form", G + "geometric/functional_geometric_image.py", "            return (((M - 1) // 2) * dilation, ((M - 1) // 2) * dilation)", "            amount = dilation * (M // 2) if M % 2 == 1 else ((M - 1) // 2) * dilation\n            return (amount, amount)", "harmless: equivalent SAME amount for odd M"),
    ("C18", "H_smse_mean_form", G + "ml/losses.py", "        loss = jnp.sum((image_a - image_b) ** 2, axis=tuple(range(1, image_a.ndim))) / spatial_size\n", "        sq = jnp.square(image_a - image_b)\n        per_pixel = jnp.sum(sq.reshape(sq.shape[:2] + multi_image_x.get_spatial_dims() + (-1,)), axis=(1, -1))\n        loss = jnp.mean(per_pixel, axis=tuple(range(1, per_pixel.ndim)))\n", "harmless: sum over channel/tensor then mean over pixels"),
    ("C19", "H_swapped_test", G + "ml/stopping_conditions.py", "if train_loss < (self.best_train_loss - self.min_delta):", "if (self.best_train_loss - train_loss) > self.min_delta:", "harmless: equivalent improvement test"),
    ("C19", "H_not_ge", G + "ml/stopping_conditions.py", "if val_loss < (self.best_val_loss - self.min_delta):", "if not (val_loss >= self.best_val_loss - self.min_delta):", "harmless: negated comparison"),
    ("C02", "H_center_transpose", G + "geometric/functional_geometric_image.py", "rotated_centering_coords = np.abs(centering_coords @ gg)", "rotated_centering_coords = np.abs(gg.T @ centering_coords.reshape((D, 1))).reshape((1, D))", "harmless: the same centre via gg.T"),
    ("C10", "H_inverse_by_inv", G + "models.py", "rot_out_image = out_image.times_group_element(gg.T)", "rot_out_image = out_image.times_group_element(np.linalg.inv(gg))", "harmless: inverse instead of transpose"),
    ("C08", "H_vn_reciprocal", G + "ml/layers.py", "k_vec_normed = k_vec / (geom.norm(1 + self.D, k_vec, keepdims=True) + self.eps)", "k_vec_normed = k_vec * (1.0 / (geom.norm(1 + self.D, k_vec, keepdims=True) + self.eps))", "harmless: multiply by the reciprocal"),
    ("C15", "H_idx_form", G + "data.py", "        jnp.arange(first_start, last_start)[:, None]\n        + jnp.arange(0, past_steps * delta_t, delta_t)[None, :]\n    )\n\n    first_start = past_steps * delta_t", "        jnp.arange(first_start, last_start)[:, None]\n        + delta_t * jnp.arange(past_steps)[None, :]\n    )\n\n    first_start = past_steps * delta_t", "harmless: equivalent index family"),
    ("C17", "H_floor_div", G + "ml/training.py", "for i in range(int(math.floor(L / batch_size))):", "for i in range(L // batch_size):", "harmless: integer division"),
    ("C16", "H_step_stack", G + "ml/training.py", "            new_input_image = new_input_image.reshape((-1,) + new_input_image.shape[2:])\n", "            new_input_image = jnp.concatenate([new_input_image[c] for c in range(len(new_input_image))], axis=0)\n", "harmless: per-channel concatenation instead of reshape"),
    ("C14", "H_norm_axis_neg", G + "geometric/multi_image.py", "out.append(0, 0, norm(n_lead_axes + self.D, image_block), axis=n_lead_axes - 1)", "out.append(0, 0, jnp.sqrt(jnp.sum(jnp.square(image_block).reshape(image_block.shape[: n_lead_axes + self.D] + (-1,)), axis=-1)), axis=n_lead_axes - 1)", "harmless: norm written out"),
    ("C06", "H_bias_mean_form", G + "ml/layers.py", "                    mean_image = jnp.mean(\n                        image, axis=tuple(range(1, 1 + self.invariant_filters.D)), keepdims=True\n                    )", "                    mean_image = jnp.sum(\n                        image, axis=tuple(range(1, 1 + self.D)), keepdims=True\n                    ) / math.prod(image.shape[1 : 1 + self.D])", "harmless: mean as sum / count"),
    ("C03", "basis_cache_key", G + "geometric/common.py", "    actual_key = key + \":\" + str(shape)\n", "    actual_key = key + \":\" + str(len(shape))\n", "basis cache keyed by the rank only: a second configuration with the same rank but another size gets a stale basis (needs two calls)"),
    ("C13", "copy_aliases_dict", G + "geometric/multi_image.py", "        self.data = {key: image_block for key, image_block in data.items()}\n", "        self.data = data\n", "the constructor keeps the caller's dict: copy()/concat() alias and mutate their source"),
    ("C04", "five_sided_same", G + "geometric/functional_geometric_image.py", "    padding_f = lambda M, dilation, torus: ((((M - 1) // 2) * dilation),) * 2 if torus else (0, 0)", "    padding_f = lambda M, dilation, torus: (((min(M, 4) - 1) // 2) * dilation,) * 2 if torus else (0, 0)", "wrap halo too small for filters wider than 3"),
    ("C08", "H_dataclass_module", G + "ml/layers.py", "    def __init__(self: Self, patch_len: int, use_norm: bool = True) -> None:\n        \"\"\"\n        Constructor for MaxNormPool.\n\n        args:\n            patch_len: sidelength of the patch\n            use_norm: whether to use norm to calculate the max\n        \"\"\"\n        self.patch_len = patch_len\n        self.use_norm = use_norm\n", "", "harmless: MaxNormPool as a dataclass-style equinox module (no hand-written __init__)"),
    ("C19", "H_renamed_fields", G + "ml/stopping_conditions.py", "ALL:epochs_since_best", "n_bad_epochs", "harmless: the counter field is renamed"),
    ("C09", "precombined_trainable_filter", G + "ml/layers.py",
     ["    invariant_filters: geom.MultiImage\n\n    input_keys", "        # If all the in_c match, all out_c match, and all the filter dims match, can use fast_mode\n", "                filter_block = jnp.einsum(\n                    \"ijk,k...->ij...\",\n                    weight_block,\n                    jax.lax.stop_gradient(self.invariant_filters[filter_key]),\n                )\n\n                convolve_contracted_imgs"],
     ["    invariant_filters: geom.MultiImage\n    combined: dict\n\n    input_keys", "        # pre-combine the weights with the invariant filters once, instead of in every call\n        self.combined = {\n            s: {\n                t: jnp.einsum(\n                    \"ijk,k...->ij...\",\n                    wb,\n                    jax.lax.stop_gradient(self.invariant_filters[(s[0] + t[0], (s[1] + t[1]) % 2)]),\n                )\n                for t, wb in ws.items()\n            }\n            for s, ws in self.weights.items()\n        }\n        # If all the in_c match, all out_c match, and all the filter dims match, can use fast_mode\n", "                filter_block = self.combined[(in_k, in_p)][(out_k, out_p)]\n\n                convolve_contracted_imgs"],
     "the weight-combined filters are computed once in __init__ and stored as an array leaf: equivariant at initialisation, but training moves that leaf out of the invariant span"),
    ("C19", "le", G + "ml/stopping_conditions.py", "if train_loss < (self.best_train_loss - self.min_delta):", "if train_loss <= (self.best_train_loss - self.min_delta):", "non-strict improvement test"),
    ("C19", "ge_patience", G + "ml/stopping_conditions.py", "        return self.epochs_since_best > self.patience\n\n\nclass ValLoss", "        return self.epochs_since_best >= self.patience\n\n\nclass ValLoss", "stops one epoch early"),
    ("C19", "no_reset", G + "ml/stopping_conditions.py", "            self.best_model = model\n            self.epochs_since_best = 0\n\n            if self.verbose >= 1:\n                self.log_status(current_epoch, train_loss, val_loss, epoch_time)\n        else:\n            self.epochs_since_best += 1\n\n        return self.epochs_since_best > self.patience\n\n\nclass ValLoss", "            self.best_model = model\n\n            if self.verbose >= 1:\n                self.log_status(current_epoch, train_loss, val_loss, epoch_time)\n        else:\n            self.epochs_since_best += 1\n\n        return self.epochs_since_best > self.patience\n\n\nclass ValLoss", "counter not reset on improvement"),
    ("C19", "val_monitors_train", G + "ml/stopping_conditions.py", "if val_loss < (self.best_val_loss - self.min_delta):", "if train_loss < (self.best_val_loss - self.min_delta):", "ValLoss monitors the training loss"),
    ("C19", "isinstance_guard", G + "ml/stopping_conditions.py", "        if val_loss is None:\n            return False\n", "        if val_loss is None or not isinstance(val_loss, float):\n            return False\n", "the original type guard"),
    ("C19", "train_returns_model", G + "ml/training.py", "    return stop_condition.best_model, aux_data, epoch_loss, val_loss", "    return model, aux_data, epoch_loss, val_loss", "train returns the last instead of the best model"),
]

HARMLESS = {("C12", "sub_template_other")} | {(m[0], m[1]) for m in () }
SKIP = {("C07", "residual_dropped_parity")}


def run_one(m, keep=False):
    prop, mid, rel, old, new, desc = m
    tmp = tempfile.mkdtemp(prefix="ginverif_mut_")
    try:
        shutil.copytree(os.path.join("/repo", "src"), os.path.join(tmp, "src"))
        p = os.path.join(tmp, rel)
        s = open(p).read()
        pairs = list(zip(old, new)) if isinstance(old, (list, tuple)) else [(old, new)]
        for old1, new1 in pairs:
            every = old1.startswith("ALL:")
            if every:
                old1 = old1[4:]
            if s.count(old1) < 1:
                return (prop, mid, "STALE", "pattern not found: %s" % old1[:40])
            s = s.replace(old1, new1) if every else s.replace(old1, new1, 1)
        try:
            ast.parse(s)
        except SyntaxError as e:
            return (prop, mid, "BROKEN", "mutant does not parse: %s" % e)
        open(p, "w").write(s)
        env = dict(os.environ)
        env["GINVERIF_NO_EVIDENCE"] = "1"
        env["GINVERIF_REPLAY_DIR"] = os.path.join(tmp, "replay")
        r = subprocess.run([os.path.join(HERE, "check"), prop, "--repo", tmp, "--tier", "quick"], capture_output=True, text=True, env=env, cwd=HERE)
        first = [l for l in r.stdout.splitlines() if l.startswith("  ")][:1]
        expect = 0 if ((prop, mid) in HARMLESS or mid.startswith("H_")) else 1
        status = "OK" if r.returncode == expect else "MISSED" if expect == 1 else "FALSE-ALARM"
        if r.returncode == 2:
            status = "ERROR"
        return (prop, mid, status, (first[0].strip()[:160] if first else r.stdout.strip().splitlines()[-1][:160] if r.stdout.strip() else r.stderr[-160:]))
    finally:
        shutil.rmtree(tmp, ignore_errors=True)


def run_seeded(name):
    """Apply an archived sub-agent patch (seeded/<name>/patch.diff) to a scratch copy; its property's check must exit 1."""
    d = os.path.join(HERE, "seeded", name)
    prop = name.split("-")[0]
    tmp = tempfile.mkdtemp(prefix="ginverif_seed_")
    try:
        shutil.copytree(os.path.join("/repo", "src"), os.path.join(tmp, "src"))
        r = subprocess.run(["git", "apply", os.path.join(d, "patch.diff")], cwd=tmp, capture_output=True, text=True)
        if r.returncode != 0:
            return (prop, "seeded:" + name[4:26], "STALE", "patch does not apply: %s" % r.stderr.strip()[:100])
        env = dict(os.environ)
        env["GINVERIF_NO_EVIDENCE"] = "1"
        env["GINVERIF_REPLAY_DIR"] = os.path.join(tmp, "replay")
        r = subprocess.run([os.path.join(HERE, "check"), prop, "--repo", tmp, "--tier", "quick"], capture_output=True, text=True, env=env, cwd=HERE)
        first = [l for l in r.stdout.splitlines() if l.startswith("  ")][:1]
        status = "OK" if r.returncode == 1 else ("ERROR" if r.returncode == 2 else "MISSED")
        # a change archived as a KNOWN MISS (meta.json: "known_miss") is expected to stay unreported; it is listed, not hidden,
        # and counts as "not as expected" the day a check starts reporting it (so the record gets updated)
        try:
            import json as _json

            known_miss = bool(_json.load(open(os.path.join(d, "meta.json"))).get("known_miss"))
        except Exception:
            known_miss = False
        if known_miss:
            status = "OK (known miss, see meta.json)" if r.returncode == 0 else ("NOW-REPORTED" if r.returncode == 1 else "ERROR")
        return (prop, "seeded:" + name[4:26], status, first[0].strip()[:160] if first else r.stdout.strip()[-160:])
    finally:
        shutil.rmtree(tmp, ignore_errors=True)


def main(argv):
    jobs = 8
    props = []
    i = 0
    while i < len(argv):
        if argv[i] == "--jobs":
            jobs = int(argv[i + 1])
            i += 2
            continue
        props.append(argv[i].upper())
        i += 1
    ms = [m for m in MUTANTS if (not props or m[0] in props) and (m[0], m[1]) not in SKIP]
    seeds = []
    sd = os.path.join(HERE, "seeded")
    if os.path.isdir(sd):
        seeds = sorted(n for n in os.listdir(sd) if os.path.isfile(os.path.join(sd, n, "patch.diff")) and (not props or n.split("-")[0] in props))
    probes = []
    if not props:
        # differential probes of the trusted base: interpreter semantics vs CPython, array models vs NumPy / jax.lax
        for name, script, py in (("language", "langprobe.py", ["/venv/bin/python", "-I"]), ("arrays", "arrprobe.py", ["/venv/bin/python"]), ("axioms", "axiomprobe.py", ["/venv/bin/python"]), ("evaluation", "evalprobe.py", ["/venv/bin/python"])):
            r = subprocess.run(py + [os.path.join(HERE, "ginverif", "selftest", script)], capture_output=True, text=True, cwd=HERE, env=dict(os.environ, JAX_PLATFORMS="cpu"))
            last = (r.stdout.strip().splitlines() or [r.stderr.strip()[-160:]])[-1]
            probes.append(("-", "probe:" + name, "OK" if r.returncode == 0 else "DIFFERS", last[:160]))
    with ThreadPoolExecutor(jobs) as ex:
        res = probes + list(ex.map(run_one, ms)) + list(ex.map(run_seeded, seeds))
    bad = 0
    for r in res:
        print("%-4s %-22s %-11s %s" % r)
        if not r[2].startswith("OK"):
            bad += 1
    print("mutants: %d, not as expected: %d" % (len(res), bad))
    return 1 if bad else 0


if __name__ == "__main__":
    sys.exit(main(sys.argv[1:]))
