"""ORDER: positional pairing of order-dependent views of two different MultiImage roots (AST rule).

A MultiImage stores its blocks in a dict whose iteration order is the insertion
order (or the sorted order after a pytree round trip), so `values()`, `items()`,
`keys()`, `to_vector()` and `get_signature()` are order-dependent views.  Pairing two
such views of *different* objects positionally (zip, element-wise operator,
from_vector with a foreign template) pairs blocks by position, not by type.

The rule only *locates* constructs; whether the pairing is observable is decided by the
abstract interpreter (a canonicalised order would make it harmless).
"""

import ast

ORDER_VIEWS = {"values", "items", "keys", "to_vector", "get_signature"}


def root_of(expr):
    n = expr
    while True:
        if isinstance(n, ast.Call):
            n = n.func
        elif isinstance(n, ast.Attribute):
            n = n.value
        elif isinstance(n, ast.Subscript):
            n = n.value
        else:
            break
    if isinstance(n, ast.Name):
        return n.id
    return None


def view_root(expr, env):
    """If expr is an order-dependent view return (root, view name)."""
    if isinstance(expr, ast.Call) and isinstance(expr.func, ast.Attribute) and expr.func.attr in ORDER_VIEWS:
        r = root_of(expr.func.value)
        if r is not None:
            return (env.get(r, (r, None))[0] if False else r, expr.func.attr)
    if isinstance(expr, ast.Name) and expr.id in env:
        return env[expr.id]
    return None


def scan_function(fn):
    """Return list of (lineno, kind, description) for positional pairings in one function."""
    env = {}
    hits = []
    for st in ast.walk(fn):
        if isinstance(st, ast.Assign) and len(st.targets) == 1 and isinstance(st.targets[0], ast.Name):
            v = view_root(st.value, env)
            if v is not None:
                env[st.targets[0].id] = v
    for n in ast.walk(fn):
        if isinstance(n, ast.Call) and isinstance(n.func, ast.Name) and n.func.id == "zip":
            views = [view_root(a, env) for a in n.args]
            views = [v for v in views if v is not None]
            roots = {v[0] for v in views}
            if len(views) >= 2 and len(roots) >= 2:
                hits.append((n.lineno, "zip", "zip over %s" % ", ".join("%s.%s()" % v for v in views)))
        elif isinstance(n, ast.BinOp):
            lv, rv = view_root(n.left, env), view_root(n.right, env)
            if lv and rv and lv[0] != rv[0]:
                hits.append((n.lineno, "binop", "%s.%s() %s %s.%s()" % (lv[0], lv[1], type(n.op).__name__, rv[0], rv[1])))
        elif isinstance(n, ast.Call) and isinstance(n.func, ast.Attribute) and n.func.attr == "from_vector" and len(n.args) == 2:
            tmpl = root_of(n.args[1])
            roots = set()
            for sub in ast.walk(n.args[0]):
                v = view_root(sub, env)
                if v is not None:
                    roots.add(v[0])
            if tmpl is not None and roots and (roots - {tmpl}):
                hits.append((n.lineno, "from_vector", "from_vector(vector of %s, template=%s)" % (sorted(roots), tmpl)))
    return hits
