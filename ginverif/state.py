"""STATE: results must not depend on what an earlier call left behind (AST rules over the whole package).

Every property is stated per call ("for every input ...").  A value that survives a call -- a memoised result, a
lazily computed attribute -- is harmless only if nothing can change it or the inputs it was computed from without
the two staying in step.  Two definite defect shapes are reported; both are multi-call sequences that no single-call
obligation (and no test that calls once) can see:

S1  shared-memo mutation.  A function is memoised (functools.lru_cache / functools.cache, or a manual module-level
    memo dict) and returns a *mutable* value (built by numpy calls, or a list / dict / set); a caller binds that result
    (or an element of the returned tuple) to a local name and mutates it in place: augmented assignment (in place for
    numpy arrays and lists), item assignment, a mutating method, or `out=`.  The cached object itself changes, so the next
    call with the same arguments returns the altered value.  Values built by jax.numpy are immutable (`x += 1`
    re-binds) and are not reported; a name whose kind cannot be determined is not reported either.

S2  stale derived attribute.  Inside a class, a method m fills `self.A` lazily -- the store is guarded by a test that
    reads `self.A` (directly, through a local alias, hasattr / getattr) or m is a functools.cached_property -- from
    other attributes `self.F`; another ordinary method m' (not a constructor) re-binds or mutates `self.F` and neither
    writes `self.A` itself nor calls a method of the class that does.  After m' the object answers m from the old `self.F`.
    The same holds for an lru_cache'd method that reads `self.F`.

The scan is purely syntactic + name resolution through the program model; nothing is executed.  Because the expected
number of such constructs on a healthy tree is zero, a built-in positive example is scanned on every run and must be
reported (otherwise the run is an analysis error): the rule can never pass vacuously.
"""

import ast

from .pm import Repo
from .report import AnalysisError, Finding

MEMO_DECORATORS = {"functools.lru_cache", "functools.cache"}
CACHED_PROPERTY = {"functools.cached_property"}
MUTATING_METHODS = {"sort", "fill", "append", "extend", "insert", "pop", "remove", "clear", "update", "setdefault", "popitem", "resize", "put", "itemset", "partition", "byteswap", "setflags", "reverse", "add", "discard"}
CTOR_LIKE = {"__init__", "__post_init__", "__new__", "__setstate__", "tree_unflatten", "__init_subclass__"}


def _decorator_names(pm, mod, fn):
    out = set()
    for d in fn.decorator_list:
        target = d.func if isinstance(d, ast.Call) else d
        r = pm.resolve(mod, target)
        if r:
            out.add(r)
    return out


def _local_values(fn):
    """local name -> list of expressions it may be bound to (whole-value bindings only)."""
    vals = {}
    for n in ast.walk(fn):
        if isinstance(n, ast.Assign):
            for t in n.targets:
                if isinstance(t, ast.Name):
                    vals.setdefault(t.id, []).append(n.value)
                elif isinstance(t, (ast.Tuple, ast.List)):
                    for i, e in enumerate(t.elts):
                        if isinstance(e, ast.Name):
                            if isinstance(n.value, (ast.Tuple, ast.List)) and len(n.value.elts) == len(t.elts):
                                vals.setdefault(e.id, []).append(n.value.elts[i])
                            else:
                                vals.setdefault(e.id, []).append(("elem", i, n.value))
        elif isinstance(n, ast.AnnAssign) and isinstance(n.target, ast.Name) and n.value is not None:
            vals.setdefault(n.target.id, []).append(n.value)
        elif isinstance(n, ast.AugAssign) and isinstance(n.target, ast.Name):
            vals.setdefault(n.target.id, []).append(n.value)
        elif isinstance(n, ast.NamedExpr) and isinstance(n.target, ast.Name):
            vals.setdefault(n.target.id, []).append(n.value)
        elif isinstance(n, (ast.For, ast.comprehension)):
            tgt = n.target
            for e in ast.walk(tgt):
                if isinstance(e, ast.Name):
                    vals.setdefault(e.id, []).append(("iter", n.iter))
    return vals


# ------------------------------------------------------------------------------------------------ S1


def _kind(pm, mod, expr, vals, depth=0, seen=None):
    """'mutable' / 'immutable' / 'unknown' for the object an expression evaluates to."""
    seen = seen or set()
    if depth > 12:
        return "unknown"
    if isinstance(expr, tuple):  # ("elem", i, value) / ("iter", value)
        if expr[0] == "elem":
            v = expr[2]
            if isinstance(v, (ast.Tuple, ast.List)) and expr[1] < len(v.elts):
                return _kind(pm, mod, v.elts[expr[1]], vals, depth + 1, seen)
            return "unknown"
        return "unknown"
    if isinstance(expr, ast.Constant):
        return "immutable"
    if isinstance(expr, (ast.List, ast.Dict, ast.Set, ast.ListComp, ast.DictComp, ast.SetComp)):
        return "mutable"
    if isinstance(expr, ast.Tuple):
        ks = [_kind(pm, mod, e, vals, depth + 1, seen) for e in expr.elts]
        return "mutable" if "mutable" in ks else ("immutable" if all(k == "immutable" for k in ks) else "unknown")
    if isinstance(expr, ast.Call):
        r = pm.resolve(mod, expr.func, local_names=set(vals))
        if r:
            if r.startswith("numpy.") or r in ("list", "dict", "set", "bytearray", "collections.defaultdict", "collections.OrderedDict", "copy.copy", "copy.deepcopy"):
                return "mutable" if not r.startswith("numpy.") or r.split(".")[-1] not in ("prod", "sum", "max", "min", "shape", "ndim", "size", "isscalar", "allclose", "array_equal", "dot") else "unknown"
            if r.startswith("jax.") or r in ("tuple", "int", "float", "str", "bool", "frozenset", "len", "range"):
                return "immutable"
        if isinstance(expr.func, ast.Attribute):
            base = _kind(pm, mod, expr.func.value, vals, depth + 1, seen)
            if expr.func.attr in ("reshape", "transpose", "astype", "copy", "ravel", "flatten", "squeeze", "swapaxes", "view", "T"):
                return base
        return "unknown"
    if isinstance(expr, ast.BinOp):
        a = _kind(pm, mod, expr.left, vals, depth + 1, seen)
        b = _kind(pm, mod, expr.right, vals, depth + 1, seen)
        num = lambda e: isinstance(e, ast.Constant) and isinstance(e.value, (int, float)) and not isinstance(e.value, bool)
        if a == "immutable" and b == "immutable":
            return "immutable"
        if "mutable" in (a, b) and _jaxless(pm, mod, expr, vals):
            # two numpy / list operands (or one and a literal number) give a fresh object of the same, mutable, kind;
            # numpy (op) anything unknown could be a jax array: not decided
            if (a == "mutable" or num(expr.left)) and (b == "mutable" or num(expr.right)):
                return "mutable"
        return "unknown"
    if isinstance(expr, ast.Subscript):
        return _kind(pm, mod, expr.value, vals, depth + 1, seen)
    if isinstance(expr, ast.Attribute) and expr.attr == "T":
        return _kind(pm, mod, expr.value, vals, depth + 1, seen)
    if isinstance(expr, ast.Name):
        if expr.id in seen or expr.id not in vals:
            return "unknown"
        ks = [_kind(pm, mod, v, vals, depth + 1, seen | {expr.id}) for v in vals[expr.id]]
        if ks and all(k == "mutable" for k in ks):
            return "mutable"
        if ks and all(k == "immutable" for k in ks):
            return "immutable"
        return "unknown"
    if isinstance(expr, ast.IfExp):
        a = _kind(pm, mod, expr.body, vals, depth + 1, seen)
        b = _kind(pm, mod, expr.orelse, vals, depth + 1, seen)
        return a if a == b else "unknown"
    return "unknown"


def _jaxless(pm, mod, expr, vals):
    for n in ast.walk(expr):
        if isinstance(n, ast.Call):
            r = pm.resolve(mod, n.func, local_names=set(vals))
            if r and r.startswith("jax."):
                return False
    return True


def _module_memo_dicts(tree):
    names = set()
    for st in tree.body:
        if isinstance(st, ast.Assign):
            v = st.value
            if (isinstance(v, ast.Dict) and not v.keys) or (isinstance(v, ast.Call) and isinstance(v.func, ast.Name) and v.func.id == "dict" and not v.args and not v.keywords):
                for t in st.targets:
                    if isinstance(t, ast.Name):
                        names.add(t.id)
    return names


def _memoised_functions(pm):
    """dotted name -> (mod, qual, fn node, how) for every memoised function / method of the package."""
    out = {}
    for mod in sorted(pm.mods):
        tree = pm.module(mod)
        memo_dicts = _module_memo_dicts(tree)
        for qual, fn in pm.functions(mod):
            decs = _decorator_names(pm, mod, fn)
            how = None
            if decs & MEMO_DECORATORS:
                how = sorted(decs & MEMO_DECORATORS)[0]
            else:
                # manual memo: a module-level dict is tested for a key, stored into and its entry returned
                stores = [n for n in ast.walk(fn) if isinstance(n, ast.Assign) and any(isinstance(t, ast.Subscript) and isinstance(t.value, ast.Name) and t.value.id in memo_dicts for t in n.targets)]
                tests = [n for n in ast.walk(fn) if isinstance(n, ast.Compare) and len(n.ops) == 1 and isinstance(n.ops[0], (ast.In, ast.NotIn)) and isinstance(n.comparators[0], ast.Name) and n.comparators[0].id in memo_dicts]
                if stores and tests:
                    how = "memo dict %s" % stores[0].targets[0].value.id
            if how:
                out[mod + "." + qual] = (mod, qual, fn, how)
    return out


def _returned_kinds(pm, mod, fn, memo_how):
    """kind of the whole returned value and, when every return is a tuple literal of one length, of each element."""
    vals = _local_values(fn)
    rets = [n.value for n in ast.walk(fn) if isinstance(n, ast.Return) and n.value is not None]
    # returns that belong to nested functions are not this function's
    nested = set()
    for n in ast.walk(fn):
        if n is not fn and isinstance(n, (ast.FunctionDef, ast.Lambda)):
            for r in ast.walk(n):
                if isinstance(r, ast.Return):
                    nested.add(id(r.value))
    rets = [r for r in rets if id(r) not in nested]
    if not rets:
        return "unknown", None
    resolved = []
    for r in rets:
        # `return CACHE[key]` of a manual memo: the kind of what was stored
        if isinstance(r, ast.Subscript) and memo_how.startswith("memo dict") and isinstance(r.value, ast.Name) and r.value.id == memo_how.split()[-1]:
            stored = [n.value for n in ast.walk(fn) if isinstance(n, ast.Assign) and any(isinstance(t, ast.Subscript) and isinstance(t.value, ast.Name) and t.value.id == r.value.id for t in n.targets)]
            resolved += stored
        else:
            resolved.append(r)
    whole = [_kind(pm, mod, r, vals) for r in resolved]
    whole_kind = "mutable" if whole and all(k == "mutable" for k in whole) else ("immutable" if all(k == "immutable" for k in whole) else "unknown")
    elems = None
    lits = []
    for r in resolved:
        while isinstance(r, ast.Name) and r.id in vals and len(vals[r.id]) == 1 and not isinstance(vals[r.id][0], tuple):
            r = vals[r.id][0]
        lits.append(r)
    if all(isinstance(r, ast.Tuple) for r in lits) and len({len(r.elts) for r in lits}) == 1:
        elems = []
        for i in range(len(lits[0].elts)):
            ks = [_kind(pm, mod, r.elts[i], vals) for r in lits]
            elems.append("mutable" if all(k == "mutable" for k in ks) else ("immutable" if all(k == "immutable" for k in ks) else "unknown"))
    return whole_kind, elems


def _scan_s1(pm):
    found = []
    memo = _memoised_functions(pm)
    kinds = {name: _returned_kinds(pm, mod, fn, how) for name, (mod, qual, fn, how) in memo.items()}
    n_sites = 0
    for mod in sorted(pm.mods):
        for qual, g in pm.functions(mod):
            locals_g = {a.arg for a in g.args.args + g.args.kwonlyargs}
            bound = {}  # local name -> (memoised function, kind)
            binding_nodes = set()
            for n in ast.walk(g):
                if not isinstance(n, ast.Assign) or not isinstance(n.value, ast.Call):
                    continue
                r = pm.resolve(mod, n.value.func, local_names=locals_g)
                if r is None and isinstance(n.value.func, ast.Attribute) and isinstance(n.value.func.value, ast.Name) and n.value.func.value.id in ("self", "cls"):
                    # self.method(...) of the same class
                    r = mod + "." + qual.split(".")[0] + "." + n.value.func.attr if "." in qual else None
                if r not in memo:
                    continue
                n_sites += 1
                whole, elems = kinds[r]
                for t in n.targets:
                    if isinstance(t, ast.Name):
                        bound[t.id] = (r, whole)
                        binding_nodes.add(id(n))
                    elif isinstance(t, (ast.Tuple, ast.List)):
                        for i, e in enumerate(t.elts):
                            if isinstance(e, ast.Name):
                                bound[e.id] = (r, elems[i] if elems and i < len(elems) else "unknown")
                                binding_nodes.add(id(n))
            if not bound:
                continue
            # a name that is bound again elsewhere is not tracked (flow-insensitive: stay definite)
            rebinds = {}
            for n in ast.walk(g):
                if isinstance(n, ast.Assign) and id(n) not in binding_nodes:
                    for t in n.targets:
                        for e in ast.walk(t):
                            if isinstance(e, ast.Name) and isinstance(e.ctx, ast.Store):
                                rebinds[e.id] = rebinds.get(e.id, 0) + 1
                elif isinstance(n, (ast.For, ast.comprehension)):
                    for e in ast.walk(n.target):
                        if isinstance(e, ast.Name):
                            rebinds[e.id] = rebinds.get(e.id, 0) + 1
            for n in ast.walk(g):
                hit = None
                if isinstance(n, ast.AugAssign):
                    t = n.target
                    if isinstance(t, ast.Name) and t.id in bound:
                        hit = (t.id, "augmented assignment `%s` (in place for numpy arrays and lists)" % ast.unparse(n)[:60])
                    elif isinstance(t, ast.Subscript) and isinstance(t.value, ast.Name) and t.value.id in bound:
                        hit = (t.value.id, "item update `%s`" % ast.unparse(n)[:60])
                elif isinstance(n, ast.Assign):
                    for t in n.targets:
                        if isinstance(t, ast.Subscript) and isinstance(t.value, ast.Name) and t.value.id in bound:
                            hit = (t.value.id, "item assignment `%s`" % ast.unparse(n)[:60])
                elif isinstance(n, ast.Call):
                    if isinstance(n.func, ast.Attribute) and n.func.attr in MUTATING_METHODS and isinstance(n.func.value, ast.Name) and n.func.value.id in bound:
                        hit = (n.func.value.id, "mutating call `%s`" % ast.unparse(n)[:60])
                    for kw in n.keywords:
                        if kw.arg == "out" and isinstance(kw.value, ast.Name) and kw.value.id in bound:
                            hit = (kw.value.id, "`out=%s`" % kw.value.id)
                elif isinstance(n, ast.Delete):
                    for t in n.targets:
                        if isinstance(t, ast.Subscript) and isinstance(t.value, ast.Name) and t.value.id in bound:
                            hit = (t.value.id, "`%s`" % ast.unparse(n)[:60])
                if hit is None:
                    continue
                name, how_mut = hit
                src, kind = bound[name]
                if kind != "mutable" or rebinds.get(name):
                    continue
                m_mod, m_qual, m_fn, m_how = memo[src]
                found.append(dict(kind="shared-memo-mutation", involved=[src, mod + "." + qual], construct=qual, mod=mod, line=n.lineno,
                                  what="`%s` holds the result of the memoised function %s (%s), a mutable object that the cache hands out again on the next call with equal arguments; the %s changes the cached object itself, so later calls of %s return the altered value (a sequence of calls is needed to see it)" % (name, m_qual, m_how, how_mut, m_qual),
                                  witness="memo:%s<-%s" % (m_qual, qual)))
    return found, dict(memoised_functions=len(memo), memo_call_sites=n_sites)


# ------------------------------------------------------------------------------------------------ S2


def _self_attr(node, selfname="self"):
    if isinstance(node, ast.Attribute) and isinstance(node.value, ast.Name) and node.value.id == selfname:
        return node.attr
    return None


def _attrs_read(expr, vals, selfname, seen=None, depth=0):
    """self attributes an expression's value may depend on (through local names)."""
    seen = set() if seen is None else seen
    out = set()
    if isinstance(expr, tuple):
        expr = expr[-1]
    if depth > 12 or expr is None:
        return out
    for n in ast.walk(expr):
        a = _self_attr(n, selfname)
        if a is not None and isinstance(n.ctx, ast.Load):
            out.add(a)
        elif isinstance(n, ast.Call) and isinstance(n.func, ast.Name) and n.func.id in ("getattr", "hasattr") and len(n.args) >= 2 and isinstance(n.args[0], ast.Name) and n.args[0].id == selfname and isinstance(n.args[1], ast.Constant) and isinstance(n.args[1].value, str):
            out.add(n.args[1].value)
        elif isinstance(n, ast.Name) and isinstance(n.ctx, ast.Load) and n.id in vals and n.id not in seen:
            seen.add(n.id)
            for v in vals[n.id]:
                out |= _attrs_read(v, vals, selfname, seen, depth + 1)
    return out



LOSSY_ATTRS = {"keys", "shape", "ndim", "size", "dtype", "nbytes", "__class__", "__len__"}
LOSSY_CALLS = {"len", "type", "id", "bool", "isinstance", "hasattr", "callable"}


def _reads(node, methods, selfname, vals=None, depth=0, seen=None):
    """self attribute -> {"full", "lossy"}: how an expression / statement list depends on the attributes of self.  A read
    under a lossy projection (`.keys()`, `len(...)`, `.shape`, `type(...)`) determines less than the attribute's value;
    `self.m(...)` is expanded through the bodies of the class's own methods."""
    out = {}
    seen = set() if seen is None else seen
    vals = vals or {}

    def add(a, kind):
        out.setdefault(a, set()).add(kind)

    def walk(n, lossy):
        if n is None:
            return
        if isinstance(n, list):
            for x in n:
                walk(x, lossy)
            return
        if isinstance(n, ast.Call):
            f = n.func
            if isinstance(f, ast.Name) and f.id in LOSSY_CALLS:
                for a in n.args:
                    walk(a, True)
                return
            if isinstance(f, ast.Name) and f.id in ("getattr",) and len(n.args) >= 2 and isinstance(n.args[0], ast.Name) and n.args[0].id == selfname and isinstance(n.args[1], ast.Constant):
                add(n.args[1].value, "lossy" if lossy else "full")
                return
            if isinstance(f, ast.Attribute):
                m = _self_attr(f, selfname)
                if m is not None and m in methods and depth < 4 and (m, lossy) not in seen:
                    seen.add((m, lossy))
                    mfn, msel = methods[m]
                    sub = _reads(list(mfn.body), methods, msel, _local_values(mfn), depth + 1, seen)
                    for a, kinds in sub.items():
                        for k in kinds:
                            add(a, "lossy" if lossy else k)
                    for a in n.args:
                        walk(a, lossy)
                    return
                if f.attr in LOSSY_ATTRS:
                    walk(f.value, True)
                    for a in n.args:
                        walk(a, lossy)
                    return
        if isinstance(n, ast.Attribute):
            a = _self_attr(n, selfname)
            if a is not None:
                if isinstance(n.ctx, ast.Load):
                    add(a, "lossy" if lossy else "full")
                return
            if n.attr in LOSSY_ATTRS:
                walk(n.value, True)
                return
        if isinstance(n, ast.Name) and isinstance(n.ctx, ast.Load) and n.id in vals and ("name", n.id) not in seen:
            seen.add(("name", n.id))
            for v in vals[n.id]:
                walk(v[-1] if isinstance(v, tuple) else v, lossy)
            return
        for c in ast.iter_child_nodes(n):
            walk(c, lossy)

    walk(node, False)
    return out


def _writes(fn, selfname):
    """self attributes a method re-binds or mutates in place -> first line."""
    w = {}
    for n in ast.walk(fn):
        tgts = []
        if isinstance(n, ast.Assign):
            tgts = n.targets
        elif isinstance(n, (ast.AugAssign, ast.AnnAssign)):
            tgts = [n.target]
        elif isinstance(n, ast.Delete):
            tgts = n.targets
        for t in tgts:
            for e in ([t] if not isinstance(t, (ast.Tuple, ast.List)) else t.elts):
                a = _self_attr(e, selfname)
                if a is None and isinstance(e, ast.Subscript):
                    a = _self_attr(e.value, selfname)
                if a is not None:
                    w.setdefault(a, n.lineno)
        if isinstance(n, ast.Call):
            f = n.func
            if isinstance(f, ast.Name) and f.id == "setattr" and len(n.args) >= 2 and isinstance(n.args[0], ast.Name) and n.args[0].id == selfname and isinstance(n.args[1], ast.Constant):
                w.setdefault(n.args[1].value, n.lineno)
            if isinstance(f, ast.Attribute) and f.attr == "__setattr__" and len(n.args) >= 2 and isinstance(n.args[0], ast.Name) and n.args[0].id == selfname and isinstance(n.args[1], ast.Constant):
                w.setdefault(n.args[1].value, n.lineno)
            if isinstance(f, ast.Attribute) and f.attr in MUTATING_METHODS:
                a = _self_attr(f.value, selfname)
                if a is not None:
                    w.setdefault(a, n.lineno)
    return w


def _self_calls(fn, selfname):
    return {n.func.attr for n in ast.walk(fn) if isinstance(n, ast.Call) and isinstance(n.func, ast.Attribute) and isinstance(n.func.value, ast.Name) and n.func.value.id == selfname}


def _lazy_fills(fn, selfname, methods=None):
    """[(attribute A, dependencies, line)] for stores `self.A = ...` guarded by a test that reads self.A.
    With `methods` (name -> (FunctionDef, selfname) of the class), the dependencies are every attribute the guarded
    region reads *in full* (through locals and the class's own methods) minus those the guard itself re-validates in
    full: a guard that only re-checks a lossy projection (`tuple(self.keys())`, a length, a shape) validates nothing else."""
    vals = _local_values(fn)
    out = []
    regions = []  # stack of (guard tests, guarded statements)

    def visit(stmts, guard_attrs):
        for st in stmts:
            if isinstance(st, ast.If):
                g = guard_attrs | _attrs_read(st.test, vals, selfname)
                regions.append(([st.test], st.body))
                visit(st.body, g)
                regions.pop()
                regions.append(([st.test], st.orelse))
                visit(st.orelse, g)
                regions.pop()
                continue
            if isinstance(st, ast.Try):
                # try: return self.A  except AttributeError: compute and store
                g = set(guard_attrs)
                for b in st.body:
                    g |= _attrs_read(b, vals, selfname) if isinstance(b, (ast.Return, ast.Expr, ast.Assign)) and getattr(b, "value", None) is not None else set()
                visit(st.body, guard_attrs)
                for h in st.handlers:
                    visit(h.body, g)
                visit(st.orelse, guard_attrs)
                visit(st.finalbody, guard_attrs)
                continue
            if isinstance(st, (ast.For, ast.While, ast.With)):
                visit(st.body, guard_attrs)
                visit(getattr(st, "orelse", []), guard_attrs)
                continue
            if isinstance(st, ast.Assign):
                for t in st.targets:
                    a = _self_attr(t, selfname)
                    if a is not None and a in guard_attrs:
                        deps = _attrs_read(st.value, vals, selfname) - {a}
                        if methods is not None:
                            tests, region = [], [st]
                            for ts, body in regions:
                                if any(a in _attrs_read(t_, vals, selfname) for t_ in ts):
                                    tests, region = ts, body
                                    break
                            if not tests and early_tests:
                                tests, region = early_tests, list(fn.body)
                            rd = _reads(list(region), methods, selfname, vals)
                            rd2 = _reads(st.value, methods, selfname, vals)
                            for k_, v_ in rd2.items():
                                rd.setdefault(k_, set()).update(v_)
                            validated = set()
                            for t_ in tests:
                                # the guard sees the locals as bound *before* it (the fill re-binds them afterwards)
                                before = {}
                                for nm_, vs_ in vals.items():
                                    keep = [v_ for v_ in vs_ if getattr(v_[-1] if isinstance(v_, tuple) else v_, "lineno", 0) < t_.lineno]
                                    if keep:
                                        before[nm_] = keep
                                validated |= {f for f, kinds in _reads(t_, methods, selfname, before).items() if "full" in kinds}
                            deps = {f for f, kinds in rd.items() if "full" in kinds and f not in methods} - validated - {a}
                        out.append((a, deps, st.lineno))
    # an early-return guard (`if self.A is not None: return self.A`) guards the rest of the body
    body = list(fn.body)
    guard = set()
    early_tests = []
    for i, st in enumerate(body):
        if isinstance(st, ast.If) and any(isinstance(x, ast.Return) for x in st.body) and not st.orelse:
            guard |= _attrs_read(st.test, vals, selfname)
            early_tests.append(st.test)
    visit(body, guard)
    return out


def _scan_s2(pm):
    found = []
    n_classes = 0
    n_lazy = 0
    for mod in sorted(pm.mods):
        tree = pm.module(mod)
        classes = {st.name: st for st in tree.body if isinstance(st, ast.ClassDef)}
        for cname, cls in classes.items():
            n_classes += 1
            # methods incl. those of base classes defined in the same module (most derived wins)
            methods = {}
            todo, order = [cls], []
            while todo:
                c = todo.pop(0)
                order.append(c)
                for b in c.bases:
                    if isinstance(b, ast.Name) and b.id in classes and classes[b.id] not in order:
                        todo.append(classes[b.id])
            for c in reversed(order):
                for st in c.body:
                    if isinstance(st, ast.FunctionDef):
                        methods[st.name] = (c.name, st)
            info = {}
            for name, (owner, fn) in methods.items():
                decs = _decorator_names(pm, mod, fn)
                if "staticmethod" in decs or "classmethod" in decs or any(isinstance(d, ast.Name) and d.id in ("staticmethod", "classmethod") for d in fn.decorator_list) or not fn.args.args:
                    continue
                selfname = fn.args.args[0].arg
                info[name] = dict(owner=owner, fn=fn, selfname=selfname, decs=decs, writes=_writes(fn, selfname), calls=_self_calls(fn, selfname))
            derived = []  # (A, deps, filling method, line, how)
            for name, d in info.items():
                if name in CTOR_LIKE:
                    continue
                mtab = {n_: (d_["fn"], d_["selfname"]) for n_, d_ in info.items()}
                for a, deps, line in _lazy_fills(d["fn"], d["selfname"], mtab):
                    if deps:
                        derived.append((a, deps, name, line, "filled lazily (guarded by a test on self.%s)" % a))
                if d["decs"] & CACHED_PROPERTY or d["decs"] & MEMO_DECORATORS:
                    deps = _attrs_read(ast.Module(body=d["fn"].body, type_ignores=[]), _local_values(d["fn"]), d["selfname"]) - {name}
                    if deps:
                        derived.append((name, deps, name, d["fn"].lineno, "memoised by %s" % sorted((d["decs"] & CACHED_PROPERTY) | (d["decs"] & MEMO_DECORATORS))[0]))
            n_lazy += len(derived)
            for a, deps, filler, line, how in derived:
                for name, d in info.items():
                    if name == filler or name in CTOR_LIKE:
                        continue
                    hit = sorted(f for f in deps if f in d["writes"])
                    if not hit:
                        continue
                    if a in d["writes"]:
                        continue
                    if any(c in info and a in info[c]["writes"] for c in d["calls"]):
                        continue
                    f = hit[0]
                    found.append(dict(kind="stale-derived-attribute", involved=["%s.%s.%s" % (mod, cname, filler), "%s.%s.%s" % (mod, cname, name), "%s.%s.%s" % (mod, info[filler]["owner"], filler), "%s.%s.%s" % (mod, d["owner"], name)], construct="%s.%s" % (cname, name), mod=mod, line=d["writes"][f],
                                      what="%s.%s rewrites self.%s but leaves self.%s untouched, which %s.%s computed from self.%s and keeps (%s, line %d): after %s the object still answers %s from the old self.%s (a sequence of calls on one object is needed to see it)" % (cname, name, f, a, cname, filler, f, how, line, name, filler, f),
                                      witness="derived:%s.%s<-%s" % (cname, a, name)))
    return found, dict(classes_scanned=n_classes, lazily_derived_attributes=n_lazy)


# ------------------------------------------------------------------------------------------------ driver

_POSITIVE = '''
import functools
import numpy as np
import jax.numpy as jnp

@functools.lru_cache(maxsize=None)
def table(n):
    a = np.arange(n)[:, None] + np.arange(3)[None, :]
    b = jnp.arange(n)
    return a, b

def user(n, s):
    a, b = table(n)
    a += s
    b += s
    return a, b

_BATCHES: dict[tuple, list] = {}

def batches(images, size, key=None):
    cache_key = None
    if key is None:
        cache_key = (tuple(id(im) for im in images), size)
        if cache_key in _BATCHES:
            return list(_BATCHES[cache_key])
    out = [im[:size] for im in images]
    if cache_key is not None:
        _BATCHES[cache_key] = out
    return out

def rollout(x, steps, constants={}, seen=[]):
    constants["last"] = steps
    seen = list(seen)
    seen.append(x)
    return x, constants, seen

class Img:
    def __init__(self, data):
        self.data = data
        self._norm = None
    def norm(self):
        cached = self._norm
        if cached is None:
            cached = abs(self.data)
            self._norm = cached
        return cached
    def set(self, v):
        self.data = v
    def reset(self, v):
        self.data = v
        self._norm = None

class Multi:
    def __init__(self, data):
        self.data = dict(data)
        self._layout = None
        self._sizes = None
    def keys(self):
        return self.data.keys()
    def items(self):
        return self.data.items()
    def layout(self):
        keys = tuple(self.keys())
        if self._layout is None or self._layout[0] != keys:
            entries = []
            for k, v in self.items():
                entries.append((k, v.shape))
            self._layout = (keys, tuple(entries))
        return self._layout[1]
    def sizes(self):
        # validated against the whole dict: never stale
        if self._sizes is None or self._sizes[0] != self.data:
            self._sizes = (dict(self.data), [v.size for v in self.data.values()])
        return self._sizes[1]
    def put(self, k, v):
        self.data[k] = v
'''


class _MiniPM(Repo):
    """program model of the built-in positive example (one module)"""

    def __init__(self, src):
        self.root = "<builtin>"
        self.src = "<builtin>"
        self.package = "example"
        self.mods = {"example": ("<builtin positive example>", ast.parse(src), src)}
        self._aliases = {}


def _scan_s3(pm):
    """S3 memo key does not determine the result (the CACHE rule of cachekey.py, over the whole package)."""
    from .cachekey import scan_module

    found = []
    n = 0
    for mod in sorted(pm.mods):
        res, nc = scan_module(pm.module(mod))
        n += nc
        for q, line, what in res:
            found.append(dict(kind="memo-key", involved=["%s.%s" % (mod, q)], construct=q, mod=mod, line=line, what=what + " (a sequence of calls is needed to see it)", witness="memo-key:%s" % q))
    return found, dict(keyed_memo_functions=n)


def _scan_s4(pm):
    """S4 mutable default argument changed in place: `def f(x, acc={})` evaluates the default once; a body that
    inserts into / appends to / updates the parameter (without re-binding it first) changes the one shared object, so a
    later call that relies on the default sees what earlier calls left behind."""
    found = []
    n_defaults = 0
    for mod in sorted(pm.mods):
        if pm.is_pkg(mod):
            continue
        for qual, fn in pm.functions(mod):
            a = fn.args
            pos = list(a.posonlyargs) + list(a.args)
            pairs = list(zip(pos[len(pos) - len(a.defaults):], a.defaults)) + [(p_, d_) for p_, d_ in zip(a.kwonlyargs, a.kw_defaults) if d_ is not None]
            for prm, dflt in pairs:
                mutable = isinstance(dflt, (ast.Dict, ast.List, ast.Set, ast.ListComp, ast.DictComp, ast.SetComp)) or (isinstance(dflt, ast.Call) and isinstance(dflt.func, ast.Name) and dflt.func.id in ("dict", "list", "set", "defaultdict", "OrderedDict"))
                if not mutable:
                    continue
                n_defaults += 1
                name = prm.arg
                rebind_lines = [n.lineno for n in ast.walk(fn) if isinstance(n, ast.Assign) and any(isinstance(t, ast.Name) and t.id == name for t in n.targets)]
                first_rebind = min(rebind_lines) if rebind_lines else 10 ** 9
                for n in ast.walk(fn):
                    how = None
                    if isinstance(n, ast.Assign):
                        for t in n.targets:
                            if isinstance(t, ast.Subscript) and isinstance(t.value, ast.Name) and t.value.id == name:
                                how = "item assignment `%s`" % ast.unparse(n)[:60]
                    elif isinstance(n, ast.AugAssign):
                        t = n.target
                        if (isinstance(t, ast.Name) and t.id == name) or (isinstance(t, ast.Subscript) and isinstance(t.value, ast.Name) and t.value.id == name):
                            how = "augmented assignment `%s`" % ast.unparse(n)[:60]
                    elif isinstance(n, ast.Call) and isinstance(n.func, ast.Attribute) and n.func.attr in MUTATING_METHODS and isinstance(n.func.value, ast.Name) and n.func.value.id == name:
                        how = "mutating call `%s`" % ast.unparse(n)[:60]
                    elif isinstance(n, ast.Delete):
                        for t in n.targets:
                            if isinstance(t, ast.Subscript) and isinstance(t.value, ast.Name) and t.value.id == name:
                                how = "`%s`" % ast.unparse(n)[:60]
                    if how and n.lineno < first_rebind:
                        found.append(dict(kind="mutable-default-mutated", involved=["%s.%s" % (mod, qual)], construct=qual, mod=mod, line=n.lineno,
                                          what="parameter `%s` has the mutable default `%s`, evaluated once when the function is defined; the %s changes that shared object, so a later call that relies on the default starts from what earlier calls left behind (a sequence of calls is needed to see it)" % (name, ast.unparse(dflt)[:30], how),
                                          witness="default:%s.%s" % (qual, name)))
                        break
    return found, dict(mutable_defaults=n_defaults)


def scan(pm):
    f1, s1 = _scan_s1(pm)
    f2, s2 = _scan_s2(pm)
    f3, s3 = _scan_s3(pm)
    f4, s4 = _scan_s4(pm)
    stats = dict(s1)
    stats.update(s2)
    stats.update(s3)
    stats.update(s4)
    return f1 + f2 + f3 + f4, stats


def selfcheck():
    pm = _MiniPM(_POSITIVE)
    found, stats = scan(pm)
    keys = sorted(f["witness"] for f in found)
    if keys != ["default:rollout.constants", "derived:Img._norm<-set", "derived:Multi._layout<-put", "memo-key:batches", "memo:table<-user"]:
        raise AnalysisError("STATE rule self-check failed: the built-in positive example gives %s" % keys)
    return len(found)


def apply(ctx):
    """Report the STATE findings that involve a function this property's check analysed or interpreted."""
    n_pos = selfcheck()
    found, stats = scan(ctx.pm)
    ev = ctx.ev
    mine = set(ev.functions) | set(ev.interpreted)
    n = 0
    for f in found:
        if not (set(f["involved"]) & mine):
            continue
        n += 1
        ctx.add(Finding(ctx.prop, "%s.STATE.%s" % (ctx.prop, f["kind"]), f["construct"], f["what"], ctx.pm.path(f["mod"]), f["line"], None, f["witness"]))
    ev.instances("%s.STATE.positive_example_reports" % ctx.prop, n_pos, floor=5)
    ev.extra["state_rule"] = dict(stats, findings_in_package=len(found), findings_involving_this_property=n,
                                  rule="S1 shared-memo mutation, S2 stale derived attribute, S3 memo key that does not determine the result, S4 mutable default argument changed in place (ginverif/state.py, cachekey.py); whole package scanned, reported where an involved function is analysed by this property")
