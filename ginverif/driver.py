"""Command-line driver shared by all property checks."""

import argparse
import functools
import importlib
import multiprocessing
import os
import random
import sys
import time
import traceback

from .report import AnalysisError, Evidence, Finding, finish
from .arr import Unsupported

FORBIDDEN = ("jax", "numpy", "equinox", "ginjax", "optax", "scipy")


def _guarded(fn, item):
    from .interp import StepLimit, REJECTIONS

    try:
        r = fn(item)
        if isinstance(r, dict):
            from . import engine

            entered = set()
            br = {}
            for it, _w in engine._CACHE.values():
                entered.update("%s.%s" % me for me in it.functions_entered)
                sent = it.__dict__.setdefault("_branches_sent", {})
                for k, v in it.branches.items():
                    if sent.get(k, 0) != v:
                        br[k] = v
                        sent[k] = v
            r["__entered__"] = sorted(entered)
            muts = set()
            for it, _w in engine._CACHE.values():
                muts.update(it.mutations)
                it.mutations.clear()
            r["__mutations__"] = sorted(muts, key=repr)
            r["__branches__"] = [(k[0], k[1], k[2], v) for k, v in br.items()]
        return r
    except Unsupported as e:
        return {"__unsupported__": "unmodelled construct: %s" % e}
    except StepLimit as e:
        return {"__unsupported__": "step limit: %s" % e}
    except RecursionError as e:
        return {"__unsupported__": "recursion limit"}
    except REJECTIONS as e:
        # the analysed code rejected a set-up step of the obligation (building the operands, the layer, ...): the
        # harness only builds valid inputs, so this is reported as a violation naming the rejecting statement
        site = getattr(e, "site", None)
        return {"__setup_rejected__": str(e)[:300], "__site__": tuple(site) if site else None}
    except Exception as e:  # never let an arbitrary (possibly unpicklable) exception cross the worker pool
        import traceback as _tb

        return {"__unsupported__": "internal error %s: %s | %s" % (type(e).__name__, e, " / ".join(_tb.format_exc().strip().splitlines()[-4:]))}


def branch_summary(ctx):
    """Self-audit of the swept box: for the `if` tests of the repository functions that were abstractly
    interpreted, how many were seen with both outcomes, with one outcome only, or never reached."""
    import ast

    pm = ctx.pm
    seen = {}
    for (f, ln, col), v in ctx.ev.branches.items():
        if f:
            seen[(f.split("/src/")[-1], ln, col)] = v
    both = one = never = 0
    one_sided, unreached = [], []
    for name in sorted(ctx.ev.interpreted):
        parts = name.split(".")
        node = mod = None
        for i in range(len(parts) - 1, 0, -1):
            m = ".".join(parts[:i])
            if m in pm.mods and not pm.is_pkg(m):
                mod = m
                try:
                    node = pm.func(m, ".".join(parts[i:]), required=False)
                except Exception:
                    node = None
                break
        if node is None or "<" in name:
            continue
        rel = pm.path(mod).split("/src/")[-1]
        for n in ast.walk(node):
            if isinstance(n, (ast.If, ast.IfExp)):
                t = n.test
                v = seen.get((rel, t.lineno, t.col_offset), 0)
                src = ast.unparse(t)
                src = src if len(src) < 70 else src[:67] + "..."
                if v == 3:
                    both += 1
                elif v:
                    one += 1
                    one_sided.append("%s:%d %s: `%s` only %s" % (rel, t.lineno, name.split(".", 1)[-1] if False else ".".join(parts[-2:]), src, "true" if v == 1 else "false"))
                else:
                    never += 1
                    unreached.append("%s:%d %s: `%s`" % (rel, t.lineno, ".".join(parts[-2:]), src))
    return dict(note="if-tests inside the interpreted repository functions; one-sided / unreached tests show where the swept box does not reach (a self-audit, not a verdict)", both_outcomes=both, one_outcome=one, not_reached=never, one_sided=sorted(set(one_sided))[:80], unreached=sorted(set(unreached))[:80])


class Ctx(object):
    def __init__(self, prop, repo, tier, seed, jobs, replay=None):
        self.prop = prop
        self.repo = repo
        self.tier = tier
        self.seed = seed
        self.jobs = jobs
        self.replay = replay
        self.ev = Evidence(prop, tier, seed)
        self.findings = []
        self.errors = []
        self.rng = random.Random(seed)
        self._pm = None
        self.undecided = 0
        self._setup_seen = {}
        self.mutations = set()

    @property
    def pm(self):
        if self._pm is None:
            from .pm import Repo

            self._pm = Repo(self.repo)
        return self._pm

    # properties whose full box is cheap enough (< 2 s on 4 processes) to be swept on every change
    FULL_IN_QUICK = {"C05", "C14", "C16", "C17"}

    def thorough(self):
        return self.tier == "thorough" or self.prop in self.FULL_IN_QUICK

    def add(self, finding):
        self.findings.append(finding)

    def error(self, msg):
        self.errors.append(msg)

    def pairs(self, fn, items, chunk=None):
        """(item, result) pairs for the obligations the analyser could decide; an obligation that meets an
        unmodelled construct is recorded as an analysis error (exit 2 unless a violation is found elsewhere)."""
        items = list(items)
        res = self.pmap(functools.partial(_guarded, fn), items, chunk)
        out = []
        for it, r in zip(items, res):
            if isinstance(r, dict) and r.get("__unsupported__"):
                self.undecided += 1
                msg = "undecided obligation: %s" % r["__unsupported__"]
                if msg not in self.errors and len(self.errors) < 20:
                    self.errors.append(msg)
                continue
            if isinstance(r, dict) and r.get("__setup_rejected__"):
                site = r.get("__site__") or (None, None, None)
                key = (r["__setup_rejected__"][:80], site[2] if len(site) > 2 else None)
                if key not in self._setup_seen:
                    self._setup_seen[key] = 0
                    path = site[0] or self.repo
                    self.add(Finding(self.prop, "%s.AXI.setup-rejected" % self.prop, str(site[2] if len(site) > 2 and site[2] else "?"), "the analysed code rejects a valid set-up step of an obligation (operands / layer construction): %s" % r["__setup_rejected__"], path, site[1] if len(site) > 1 else None, None, "setup-rejected"))
                self._setup_seen[key] += 1
                continue
            if isinstance(r, dict) and "__entered__" in r:
                self.ev.interpreted.update(r.pop("__entered__"))
                self.mutations.update(tuple(m) for m in r.pop("__mutations__", ()))
                for f, ln, col, v in r.pop("__branches__", ()):
                    self.ev.branches[(f, ln, col)] = self.ev.branches.get((f, ln, col), 0) | v
            out.append((it, r))
        return out

    def pmap(self, fn, items, chunk=None):
        """Map a top-level function over items, in parallel in the thorough tier."""
        items = list(items)
        if self.jobs <= 1 or len(items) < 8:
            return [fn(x) for x in items]
        ctxm = multiprocessing.get_context("fork")
        # a worker that dies (or a result that cannot be un-pickled) would make Pool.map wait for ever: bound the wait
        # and turn a stuck pool into an analysis error (exit 2), never a hang
        limit = float(os.environ.get("GINVERIF_POOL_TIMEOUT", "7200" if self.tier == "quick" else "28800"))
        with ctxm.Pool(self.jobs) as pool:
            ar = pool.map_async(fn, items, chunksize=chunk or max(1, len(items) // (self.jobs * 4)))
            try:
                return ar.get(timeout=limit)
            except multiprocessing.TimeoutError:
                pool.terminate()
                raise AnalysisError("the worker pool did not finish within %.0f s (a worker died or hung)" % limit)


def main(argv):
    ap = argparse.ArgumentParser(prog="check")
    ap.add_argument("prop")
    ap.add_argument("--tier", default=os.environ.get("VERIF_TIER", "quick"), choices=["quick", "thorough"])
    ap.add_argument("--repo", default=os.environ.get("VERIF_REPO", "/repo"))
    ap.add_argument("--jobs", type=int, default=None)
    ap.add_argument("--replay", default=None)
    args = ap.parse_args(argv)
    prop = args.prop.upper()
    try:
        seed = int(os.environ.get("VERIF_SEED", "0"))
    except ValueError:
        seed = 0
    jobs = args.jobs if args.jobs is not None else (min(16, os.cpu_count() or 1) if args.tier == "thorough" else min(4, os.cpu_count() or 1))
    if args.replay:
        try:
            import json

            rp = json.load(open(args.replay))
            print("replaying %d recorded finding(s) of %s by re-running the check on %s:" % (len(rp.get("findings", [])), rp.get("property"), args.repo))
            for f in rp.get("findings", [])[:10]:
                print("  recorded: %s %s %s" % (f.get("rule"), f.get("construct"), (f.get("what") or "")[:160]))
        except Exception as e:
            print("cannot read replay file %s: %s" % (args.replay, e))
    t0 = time.time()
    ctx = Ctx(prop, os.path.abspath(args.repo), args.tier, seed, jobs, args.replay)
    try:
        try:
            mod = importlib.import_module("ginverif.rules.%s" % prop.lower())
        except ImportError as e:
            print("ANALYSIS-ERROR property=%s no checker for this property (%s)" % (prop, e))
            return 2
        mod.run(ctx)
        from . import state

        from . import purity

        purity.apply(ctx)  # in-place changes to the arguments of the API calls the obligations made
        state.apply(ctx)  # cross-call state rules (memo aliasing, stale derived attributes) for the functions this check analysed
        ctx.ev.check_floors()
        try:
            ctx.ev.extra["branch_coverage"] = branch_summary(ctx)
        except Exception as e:  # a self-audit figure only: never a verdict
            ctx.ev.extra["branch_coverage"] = {"error": "%s: %s" % (type(e).__name__, e)}
    except AnalysisError as e:
        ctx.error(str(e))
    except Unsupported as e:
        if os.environ.get("GINVERIF_DEBUG"):
            traceback.print_exc()
        ctx.error("unmodelled construct: %s" % e)
    except Exception as e:  # a bug in the analyser must never look like a verdict
        if os.environ.get("GINVERIF_DEBUG"):
            traceback.print_exc()
        tb = traceback.format_exc().strip().splitlines()
        ctx.error("internal error %s: %s | %s" % (type(e).__name__, e, " / ".join(tb[-6:])))
    for m in list(sys.modules):
        if m.split(".")[0] in FORBIDDEN:
            ctx.error("static-analysis discipline broken: module %s was imported by the checker" % m)
            break
    return finish(prop, args.tier, seed, ctx.ev, ctx.findings, t0, ctx.errors)
