"""CACHE: memoisation keys must determine the memoised result (AST rule).

Pattern: a function tests `K in CACHE` / `K not in CACHE` for a module- or class-level dict CACHE and
stores `CACHE[K] = value`.  Every parameter the function's result depends on must occur in the key
expression K in a way that determines it: an occurrence only under a lossy projection
(len(p), type(p), bool(p), id(p), p.shape, p.ndim, p.size, p.dtype; also element-wise, as in
`tuple(id(x) for x in p)`) -- or no occurrence at all -- while the body
uses the parameter itself is a definite defect: a second call with another value of that parameter and the
same projection returns the first call's result (a multi-call sequence no single-call test can see).
"""

import ast

LOSSY_CALLS = {"len", "type", "bool", "id"}  # id(): identity says nothing about the content of a mutable object, and ids are reused
LOSSY_ATTRS = {"shape", "ndim", "size", "dtype"}


def _module_dicts(tree):
    names = set()
    for st in tree.body:
        if isinstance(st, ast.Assign) and isinstance(st.value, (ast.Dict,)) and not st.value.keys:
            for t in st.targets:
                if isinstance(t, ast.Name):
                    names.add(t.id)
        if isinstance(st, ast.Assign) and isinstance(st.value, ast.Call) and isinstance(st.value.func, ast.Name) and st.value.func.id == "dict" and not st.value.args:
            for t in st.targets:
                if isinstance(t, ast.Name):
                    names.add(t.id)
        if isinstance(st, ast.AnnAssign) and isinstance(st.target, ast.Name) and st.value is not None:
            v = st.value
            if (isinstance(v, ast.Dict) and not v.keys) or (isinstance(v, ast.Call) and isinstance(v.func, ast.Name) and v.func.id in ("dict", "OrderedDict") and not v.args):
                names.add(st.target.id)
    return names


def _class_dicts(cls):
    names = set()
    for st in cls.body:
        if isinstance(st, ast.Assign) and isinstance(st.value, ast.Dict) and not st.value.keys:
            for t in st.targets:
                if isinstance(t, ast.Name):
                    names.add(t.id)
    return names


def _cache_name(node, mod_dicts, cls_dicts):
    if isinstance(node, ast.Name) and node.id in mod_dicts:
        return node.id
    if isinstance(node, ast.Attribute) and node.attr in cls_dicts and isinstance(node.value, ast.Name) and node.value.id in ("cls", "self"):
        return node.value.id + "." + node.attr
    return None


def _occurrences(expr, param):
    """list of 'lossy' / 'full' for each occurrence of the parameter in expr"""
    out = []
    parents = {}
    for p in ast.walk(expr):
        for c in ast.iter_child_nodes(p):
            parents[c] = p
    for n in ast.walk(expr):
        if isinstance(n, ast.Name) and n.id == param:
            par = parents.get(n)
            if isinstance(par, ast.comprehension) and par.iter is n and isinstance(par.target, ast.Name):
                # element-wise use: (f(x) for x in param) determines param only as far as f determines x
                comp = parents.get(par)
                elt_nodes = [getattr(comp, "elt", None), getattr(comp, "key", None), getattr(comp, "value", None)]
                inner = []
                for e in elt_nodes:
                    if e is not None:
                        inner += _occurrences(e, par.target.id)
                out.append("full" if "full" in inner else "lossy")
                continue
            if isinstance(par, ast.Call) and isinstance(par.func, ast.Name) and par.func.id in LOSSY_CALLS and n in par.args:
                out.append("lossy")
            elif isinstance(par, ast.Attribute) and par.attr in LOSSY_ATTRS:
                out.append("lossy")
            else:
                out.append("full")
    return out


def scan_module(tree):
    """Yield (function qualname, lineno, message) for every defective memo key in a module."""
    mod_dicts = _module_dicts(tree)
    found = []
    n_caches = 0

    def check_fn(fn, qual, cls_dicts):
        nonlocal n_caches
        assigns = {}
        for n in ast.walk(fn):
            if isinstance(n, ast.Assign) and len(n.targets) == 1 and isinstance(n.targets[0], ast.Name):
                assigns.setdefault(n.targets[0].id, []).append(n.value)
        tests = []
        for n in ast.walk(fn):
            if isinstance(n, ast.Compare) and len(n.ops) == 1 and isinstance(n.ops[0], (ast.In, ast.NotIn)):
                cn = _cache_name(n.comparators[0], mod_dicts, cls_dicts)
                if cn:
                    tests.append((n, cn, n.left))
        if not tests:
            return
        stores = [n for n in ast.walk(fn) if isinstance(n, ast.Assign) and any(isinstance(t, ast.Subscript) and _cache_name(t.value, mod_dicts, cls_dicts) for t in n.targets)]
        if not stores:
            return
        n_caches += 1
        params = [a.arg for a in fn.args.args + fn.args.kwonlyargs if a.arg not in ("self", "cls")]
        parents_fn = {}
        for q_ in ast.walk(fn):
            for c_ in ast.iter_child_nodes(q_):
                parents_fn[c_] = q_
        for test, cn, key in tests:
            # parameters fixed by an enclosing condition (`if rand_key is None:` around the look-up) need not be in the key
            fixed = set()
            up = parents_fn.get(test)
            while up is not None and up is not fn:
                if isinstance(up, (ast.If, ast.While, ast.IfExp)):
                    fixed |= {x.id for x in ast.walk(up.test) if isinstance(x, ast.Name)}
                up = parents_fn.get(up)
            kexpr = key
            key_nodes = [key]
            if isinstance(key, ast.Name) and key.id in assigns:
                # `key = None` placeholders aside, the key must have one defining expression
                cands = [v for v in assigns[key.id] if not (isinstance(v, ast.Constant) and v.value is None)]
                if len(cands) == 1:
                    kexpr = cands[0]
                    key_nodes.append(kexpr)
            in_key = set()
            for kn in key_nodes:
                in_key.update(id(x) for x in ast.walk(kn))
            for p in params:
                occ = _occurrences(kexpr, p)
                # uses of the parameter outside the key expression
                body_occ = []
                parents = {}
                for q in ast.walk(fn):
                    for c in ast.iter_child_nodes(q):
                        parents[c] = q
                for n in ast.walk(fn):
                    if isinstance(n, ast.Name) and n.id == p and isinstance(n.ctx, ast.Load) and id(n) not in in_key:
                        par = parents.get(n)
                        if isinstance(par, ast.Call) and isinstance(par.func, ast.Name) and par.func.id in LOSSY_CALLS:
                            body_occ.append("lossy")
                        elif isinstance(par, ast.Attribute) and par.attr in LOSSY_ATTRS:
                            body_occ.append("lossy")
                        else:
                            body_occ.append("full")
                if "full" not in body_occ:
                    continue  # the result can depend on the parameter at most through the projection
                if not occ and p in fixed:
                    continue
                if not occ:
                    found.append((qual, test.lineno, "the memo key `%s` of cache %s ignores parameter `%s`, which the function uses: a later call with another %s gets a stale result" % (ast.unparse(kexpr)[:70], cn, p, p)))
                elif "full" not in occ:
                    found.append((qual, test.lineno, "the memo key `%s` of cache %s contains parameter `%s` only through a lossy projection (len/type/shape...), but the function uses `%s` itself: two calls that agree on the projection share one cached result" % (ast.unparse(kexpr)[:70], cn, p, p)))

    for st in tree.body:
        if isinstance(st, ast.FunctionDef):
            check_fn(st, st.name, set())
        elif isinstance(st, ast.ClassDef):
            cd = _class_dicts(st)
            for s2 in st.body:
                if isinstance(s2, ast.FunctionDef):
                    check_fn(s2, st.name + "." + s2.name, cd)
    return found, n_caches
