"""C17 -- mini-batching is an aligned partition of the data set.

Deciding method: abstract interpretation of ml.get_batches / MultiImage.get_subset / reshape_pmap
(working tree) with the shuffling permutation an opaque symbol: every batch of every co-batched
multi-image and every type must be the same slice [i*B,(i+1)*B) of one single index vector applied to
the leading axis, then regrouped (B) -> (n_dev, B/n_dev).  AST rule: a single index-vector definition
reaches every get_subset call.
"""

import ast

from .. import arr as A
from ..poly import Poly, as_poly
from ..report import Finding
from .common import *
from ..shims import Device


def worker(job):
    repo, L, B, sets, ndev, keyed, explicit_devices, single = job[:8]
    concrete = job[8] if len(job) > 8 else None
    it, w = get_interp(repo, n_devices=ndev)
    w.concrete_permutation = list(concrete) if concrete is not None else None
    try:
        return _worker(it, w, L, B, sets, ndev, keyed, explicit_devices, single, concrete)
    except Unsupported as e:
        # the implementation looks at the VALUES of the index vector (int(idx[0]), a comparison, a sort ...): the opaque
        # symbol cannot follow that; such code is decided by the case split over all permutations of small ranges
        if keyed and concrete is None and ("symbolic" in str(e) or "data-dependent" in str(e)):
            return dict(cfg=dict(L=L, B=B, devices=ndev, key="opaque", type_sets=[[list(t) for t in s_] for s_ in sets], deferred="value-dependent handling of the index vector (%s): decided by the case split over concrete permutations" % e), problems=[])
        raise
    finally:
        w.concrete_permutation = None


def _worker(it, w, L, B, sets, ndev, keyed, explicit_devices, single, concrete):
    ml = it.get_module("ginjax.ml")
    D = 2
    sp = (2, 3)
    images = []
    blocks_all = []
    for j, types in enumerate(sets):
        bl = {tuple(t): block("m%d" % j, tuple(t), (L, 1 + (j + i) % 2), sp, D) for i, t in enumerate(types)}
        blocks_all.append(bl)
        images.append(make_multi(it, [tuple(t) for t in types], bl, D, True))
    from ..shims import Key

    key = Key(0) if keyed else None
    devs = [Device(i) for i in range(ndev)] if explicit_devices else None
    cfg = dict(L=L, B=B, type_sets=[[list(t) for t in s] for s in sets], devices=ndev, key=("opaque" if concrete is None else "permutation %s" % list(concrete)) if keyed else None, explicit_devices=explicit_devices, single_image_argument=single)
    del w.trace[:]
    arg = images[0] if single else tuple(images)
    res = attempt(lambda: ml.get_batches(arg, B, key, devs))
    problems = []
    if isinstance(res, Rejected):
        if B % ndev == 0:
            problems.append(("rejected", "get_batches rejected a valid configuration: %s" % res.exc, None))
        return dict(cfg=cfg, problems=problems)
    if B % ndev != 0:
        problems.append(("accept", "batch size %d not divisible by %d devices was not rejected" % (B, ndev), None))
        return dict(cfg=cfg, problems=problems)
    perms_made = [t for t in w.trace if t[0] == "permutation"]
    with_repl = [t for t in w.trace if t[0] == "choice_with_replacement"]
    if with_repl:
        problems.append(("index-vector", "the sample indices are drawn with replacement (jax.random.choice, replace=True is its default): a sample can appear several times in an epoch and others never", with_repl[0][3]))
        return dict(cfg=cfg, problems=problems)
    if keyed:
        if len(perms_made) != 1 or perms_made[0][2] != L:
            problems.append(("index-vector", "%d permutations were drawn (sizes %s); exactly one permutation of range(L=%d) must order all co-batched multi-images" % (len(perms_made), [p[2] for p in perms_made], L), perms_made[1][3] if len(perms_made) > 1 else None))
            return dict(cfg=cfg, problems=problems)
        pname = perms_made[0][1]
        idx = A.Arr((L,), [Poly.leaf(pname, (i,)) for i in range(L)], "int") if concrete is None else A.Arr((L,), list(concrete), "int")
    else:
        if perms_made:
            problems.append(("index-vector", "a permutation was drawn although no key was given (order must be the identity)", perms_made[0][3]))
            return dict(cfg=cfg, problems=problems)
        idx = A.arange(L)
    nb = L // B
    n_img = 1 if single else len(images)
    if not isinstance(res, list) or len(res) != n_img:
        problems.append(("shape", "result has %r lists, expected one per multi-image (%d)" % (len(res) if isinstance(res, list) else res, n_img), None))
        return dict(cfg=cfg, problems=problems)
    for j in range(n_img):
        if len(res[j]) != nb:
            problems.append(("count", "%d batches for multi-image %d, expected floor(L/B) = %d" % (len(res[j]), j, nb), None))
            return dict(cfg=cfg, problems=problems)
        for i in range(nb):
            sel = idx[i * B:(i + 1) * B]
            got = res[j][i]
            if not is_multi(got) or set(got.keys()) != set(blocks_all[j].keys()):
                problems.append(("keys", "batch %d of multi-image %d holds %s" % (i, j, sorted(got.keys()) if is_multi(got) else type(got).__name__), None))
                return dict(cfg=cfg, problems=problems)
            for t, blk in blocks_all[j].items():
                exp = A.getitem(blk, (sel,))
                exp = A.reshape(exp, (ndev, B // ndev) + exp.shape[1:])
                if not same_elems(got[t], exp):
                    problems.append(("alignment", "batch %d of multi-image %d, type %s is not rows idx[%d:%d] of the shared index vector regrouped (n_dev, B/n_dev): %s" % (i, j, tname(t), i * B, (i + 1) * B, first_diff(got[t], exp)), site_of(got[t])))
                    return dict(cfg=cfg, problems=problems)
    return dict(cfg=cfg, problems=problems)


def reaching_rule(ctx):
    """AST: in get_batches the index vector is defined once, outside the loops, and the slice handed to
    every get_subset call is derived from it and from the outer loop variable only."""
    pm = ctx.pm
    fn = pm.func(TRAIN_MOD, "get_batches")
    perm_calls = []
    for n in ast.walk(fn):
        if isinstance(n, ast.Call):
            d = pm.resolve(TRAIN_MOD, n.func)
            if d in ("jax.random.permutation", "jax.random.shuffle", "jax.random.choice", "numpy.random.permutation"):
                perm_calls.append(n)
    out = []
    loops = [n for n in ast.walk(fn) if isinstance(n, (ast.For, ast.While, ast.ListComp, ast.GeneratorExp, ast.DictComp))]
    for c in perm_calls:
        for lp in loops:
            if any(x is c for x in ast.walk(lp)) and not (isinstance(lp, ast.For) and any(x is c for x in ast.walk(lp.iter))):
                out.append((c.lineno, "a permutation is drawn inside a loop (%s): samples of co-batched multi-images / successive batches are no longer ordered by one shared index vector" % ast.unparse(c)[:60]))
    return out, len(perm_calls)


def run(ctx):
    ev, pm = ctx.ev, ctx.pm
    ev.explanation = (
        "Abstract interpretation of ml.get_batches (with MultiImage.get_subset and reshape_pmap) where the shuffling permutation is an opaque "
        "symbol vector: each batch i of each co-batched multi-image and each type must equal rows idx[i*B:(i+1)*B] of ONE index vector (identity when "
        "no key) regrouped (n_dev, B/n_dev); the number of batches must be floor(L/B). Slices of one bijection are disjoint, so no sample repeats. "
        "An AST reaching rule checks the permutation is not drawn inside a loop."
    )
    ev.rule_text = "one obligation per (L in 4..9, B<=L incl. non-divisible, 1-3 co-batched multi-images with different type sets, device count, key None/opaque, devices passed or defaulted)"
    ev.assumptions = ["jax.random.permutation(key, L) returns a bijection of range(L) (library semantics)", "jax.devices() returns the configured number of devices"]
    for q in ("get_batches",):
        pm.func(TRAIN_MOD, q)
        ev.functions.add(TRAIN_MOD + "." + q)
    for q in ("MultiImage.get_subset", "MultiImage.reshape_pmap", "MultiImage.get_L"):
        pm.func(MI_MOD, q)
        ev.functions.add(MI_MOD + "." + q)
    hits, n_perm = reaching_rule(ctx)
    ev.instances("C17.REACH.permutation_sites", n_perm)
    for line, what in hits:
        ctx.add(Finding("C17", "C17.REACH", "get_batches", what, pm.path(TRAIN_MOD), line, None, "index-vector"))
    setsA = [[[(0, 0)]], [[(0, 0), (1, 0)], [(1, 0)]], [[(1, 0), (0, 1)], [(0, 0)], [(2, 0), (0, 0)]]]
    jobs = []
    Ls = range(4, 10) if ctx.thorough() else (4, 6, 7, 9)
    for L in Ls:
        for B in range(1, L + 1):
            if not ctx.thorough() and B not in (1, 2, 3, 4, L - 1, L):
                continue
            for sets in setsA:
                for ndev in (1, 2, 3):
                    if B % ndev and not (ndev == 2 and B == 3):
                        continue
                    for keyed in (False, True):
                        for expl in (False, True) if ctx.thorough() else (keyed,):
                            jobs.append((ctx.repo, L, B, sets, ndev, keyed, expl, False))
        jobs.append((ctx.repo, L, 2, setsA[1][:1], 1, True, False, True))
    # case split: every permutation of a small range as the value of the shuffle (an implementation may branch on
    # the values of the index vector -- contiguous runs, sortedness -- which the opaque symbol cannot follow)
    import itertools

    for L, Bs in ((4, (2, 3, 4)), (5, (3, 4))) + (((6, (3, 4, 6)),) if ctx.thorough() else ()):
        for pi, perm in enumerate(itertools.permutations(range(L))):
            if L == 6 and pi % 3:
                continue
            for B in Bs:
                if not ctx.thorough() and L == 5 and (pi + B) % 2:
                    continue
                jobs.append((ctx.repo, L, B, setsA[1], 2 if B % 2 == 0 and pi % 2 else 1, True, False, False, perm))
    results = ctx.pairs(worker, jobs)
    by = {}
    for job, r in results:
        cfg = r["cfg"]
        nontriv = len(cfg["type_sets"]) >= 2 or cfg["key"] is not None or cfg["L"] % cfg["B"] != 0
        if cfg.get("deferred"):
            ev.extra["opaque_permutation_deferred_to_case_split"] = ev.extra.get("opaque_permutation_deferred_to_case_split", 0) + 1
            continue
        ev.obligation("batches", not r["problems"], tuple(str(v) for v in cfg.values()) if nontriv else None, sample=cfg if ev.obligations % 41 == 0 else None)
        for kind, what, site in r["problems"]:
            by.setdefault(kind, []).append((what, site, cfg))
    for kind, items in sorted(by.items()):
        what, site, cfg = items[0]
        node = pm.func(TRAIN_MOD, "get_batches")
        path, line = pm.path(TRAIN_MOD), node.lineno
        q = "get_batches"
        if site and site[0]:
            path, line, q = site[0], site[1], site[2] or q
        ctx.add(Finding("C17", "C17.AXI." + kind, q, "%s (%d of the swept configurations fail)" % (what, len(items)), path, line, cfg, kind))
    ev.instances("C17.AXI.obligations", ev.obligations, floor=100 if ctx.tier == "quick" else 400)
    ev.exhaustive = ctx.thorough()
