"""C20 -- every model maps its input signature to exactly its requested output signature.

Deciding method: abstract interpretation (shape / type level: array contents are not tracked) of the
constructors and __call__ of UNet / ResNet / DilResNet / ConvBlock (working tree) in equivariant and in
conventional mode over the constructor box: the result must hold exactly the requested types, channel
counts and type order, with the input's spatial shape, D and boundary flags; any internal channel / shape
inconsistency surfaces as an abstract error naming the statement.  The conventional mode's component
flattening and its inverse are round-trip checked with tracked provenance (C13) and here for the models'
own output signatures.
"""

import itertools

from .. import arr as A
from ..report import Finding
from .common import *
from .modelbox import build_model, spatial_for, reachable_outputs


def worker(job):
    repo, spec = job
    it, w = get_interp(repo, track=False)
    w.track = False
    cfg = dict(spec)
    problems = []
    D = spec["D"]
    model = attempt(lambda: build_model(it, w, spec, generic_bank=False))
    if isinstance(model, Rejected):
        problems.append(("rejected", "the constructor rejected the configuration: %s" % model.exc, getattr(model.exc, "site", None)))
        return dict(cfg=cfg, problems=problems)
    if spec.get("group_average"):
        # the model behind the symmetrisation wrapper, averaging switched on: same declared signature, same type order
        from .c02 import group

        ops_ = [A.as_arr(g) for g in group(D)[: spec["group_average"]]]
        models_ = it.get_module(MODELS_MOD)
        inner_ = model
        model = attempt(lambda: models_.GroupAverage(inner_, ops_, True, False))
        if isinstance(model, Rejected):
            problems.append(("rejected", "GroupAverage rejected the model: %s" % model.exc, None))
            return dict(cfg=cfg, problems=problems)
    N = spatial_for(spec)
    flags = tuple(spec.get("is_torus", (True,) * D))
    in_sig = [(tuple(t), c) for t, c in spec["input"]]
    out_sig = [(tuple(t), c) for t, c in spec["output"]]
    xb = {t: A.untracked((c,) + tuple(N) + (D,) * t[0]) for t, c in in_sig}
    x = make_multi(it, [t for t, _ in in_sig], xb, D, flags)
    r = attempt(lambda: model(x))
    if isinstance(r, Rejected):
        problems.append(("rejected", "the model rejected an input of its declared signature: %s" % r.exc, getattr(r.exc, "site", None)))
        return dict(cfg=cfg, problems=problems)
    y = r[0] if isinstance(r, tuple) else r
    if not is_multi(y):
        problems.append(("type", "the model returns %s" % type(y).__name__, None))
        return dict(cfg=cfg, problems=problems)
    got = [(t, y[t].shape[0]) for t in y.keys()]
    want_sig = reachable_outputs(spec)
    if dict(got) != dict(want_sig):
        problems.append(("signature", "output signature %s, requested%s %s" % (got, " and reachable through the filters present" if spec.get("missing") else "", want_sig), None))
    elif got != want_sig:
        problems.append(("order", "output types come in order %s, requested order %s" % ([t for t, _ in got], [t for t, _ in want_sig]), None))
    out_sig = want_sig
    for t, c in out_sig:
        if t in y and y[t].shape != (y[t].shape[0],) + tuple(N) + (D,) * t[0]:
            problems.append(("shape", "block %s has shape %r, expected (%d,)+%r+%r" % (tname(t), y[t].shape, c, tuple(N), (D,) * t[0]), site_of(y[t])))
            break
    if y.D != D or tuple(y.is_torus) != tuple(flags):
        problems.append(("meta", "output has D=%r is_torus=%r, input had D=%d is_torus=%r" % (y.D, y.is_torus, D, flags), None))
    return dict(cfg=cfg, problems=problems)


def flatten_worker(job):
    """Conventional mode: to_scalar_multi_image followed by from_scalar_multi_image(output_keys) with the identity
    in between must put every component of every type back at its own position (tracked provenance)."""
    repo, D, sig, nl = job
    it, w = get_interp(repo)
    geom = it.get_module(GEOM)
    sig = [(tuple(t), c) for t, c in sig]
    sp = SPATIAL[D]
    lead = (2,) * (nl - 1)
    xb = {t: block("x", t, lead + (c,), sp, D) for t, c in sig}
    x = make_multi(it, [t for t, _ in sig], xb, D, True)
    r = attempt(lambda: geom.MultiImage.from_scalar_multi_image(x.to_scalar_multi_image(), tuple(sig)))
    cfg = dict(D=D, signature=[[list(t), c] for t, c in sig], leading_axes=nl)
    problems = []
    if isinstance(r, Rejected):
        problems.append(("rejected", "flatten/unflatten rejected: %s" % r.exc, None))
    else:
        for t, c in sig:
            if t not in r or not same_elems(r[t], xb[t]):
                problems.append(("flatten", "component flattening and its inverse do not restore block %s" % tname(t), None))
                break
    return dict(cfg=cfg, problems=problems)


def run(ctx):
    ev, pm = ctx.ev, ctx.pm
    ev.explanation = (
        "Shape/type-level abstract interpretation (contents untracked) of the constructors and __call__ of UNet, ResNet, DilResNet and ConvBlock in equivariant and conventional "
        "mode over the constructor box: the output must hold exactly the requested types with the requested channel counts in the requested order, with the input's spatial shape, "
        "D and boundary flags; every internal shape / channel inconsistency (channel arithmetic per level, skip doubling, flatten sizes) surfaces as an abstract error at the "
        "offending statement. The conventional mode's flatten/unflatten is additionally checked with tracked provenance for the swept signatures."
    )
    ev.rule_text = "one obligation per (class, mode, signatures incl. several types / pseudo-types / unequal channels, depth, blocks, downsamples, convs, normalisation, bias, activation, kernel size, D, flags, extents)"
    ev.assumptions = ["documented output-extent formulas of eqx.nn.Conv / ConvTranspose (shape summaries); their numeric content is not modelled", "for banks with an absent filter type the expected output is the requested signature restricted to the types reachable in one step from the carried types; configurations whose reachable set depends on the number of layers are not used"]
    for q in ("make_conv", "ConvBlock.__init__", "ConvBlock.__call__", "UNet.__init__", "UNet.__call__", "ResNet.__init__", "ResNet.__call__", "DilResNet.__init__", "DilResNet.__call__"):
        pm.func(MODELS_MOD, q)
        ev.functions.add(MODELS_MOD + "." + q)
    for q in ("LayerWrapper.__call__", "LayerWrapperAux.__call__"):
        pm.func(LAYERS_MOD, q)
    th = ctx.thorough()
    sigs = [
        ([((0, 0), 2), ((1, 0), 1)], [((1, 0), 2), ((0, 0), 1)]),
        ([((1, 0), 1), ((0, 1), 2)], [((0, 1), 1), ((1, 1), 2), ((0, 0), 1)]),
        ([((0, 0), 3)], [((2, 0), 1), ((0, 0), 2)]),
        ([((2, 0), 1), ((0, 1), 1)], [((1, 0), 2)]),
    ]
    specs = []
    for D in (2, 3):
        for eq in (True, False):
            for cls in ("ResNet", "DilResNet", "UNet", "ConvBlock"):
                for si, (i, o) in enumerate(sigs):
                    if D == 3 and si >= 2:
                        continue
                    if cls == "ConvBlock" and not eq:
                        i, o = [((0, 0), 3)], [((0, 0), 2)]
                        if si > 0:
                            continue
                    for depth in (1, 2) if (th or si == 0) else (2,):
                        base = dict(D=D, cls=cls, equivariant=eq, input=i, output=o, depth=depth)
                        variants = []
                        if cls == "ResNet":
                            variants = [dict(num_blocks=1, num_conv=1, use_group_norm=True), dict(num_blocks=2, num_conv=2, use_group_norm=False, preactivation_order=False)]
                        elif cls == "DilResNet":
                            variants = [dict(num_blocks=1, use_group_norm=False), dict(num_blocks=2, use_group_norm=True)]
                        elif cls == "UNet":
                            variants = [dict(num_downsamples=1, num_conv=1), dict(num_downsamples=2, num_conv=2, use_group_norm=True), dict(num_downsamples=0, num_conv=1)]
                            if not eq:
                                variants.append(dict(num_downsamples=1, num_conv=1, use_batch_norm=True))
                        else:
                            variants = [dict(preactivation_order=False, use_group_norm=True), dict(preactivation_order=True, use_group_norm=True), dict(preactivation_order=True, use_group_norm=False)]
                        if not th:
                            keep = variants[: 2 if si == 0 else 1]
                            if si == 0:
                                keep += [v for v in variants if v.get("use_batch_norm")]
                            variants = keep
                        for v in variants:
                            for bias in (("auto", False) if (th or si == 0) else ("auto",)):
                                s = dict(base, use_bias=bias, **v)
                                s["activation"] = "relu" if bias == "auto" else None
                                if not eq:
                                    s["kernel_size"] = 3 if bias == "auto" else 1
                                    if s["cls"] == "ConvBlock":
                                        s["kernel_size"] = 3
                                if eq and any(t[0] > 1 for t, _ in list(i) + list(o)):
                                    s["use_group_norm"] = False  # equivariant group norm is documented as not implemented for k>1
                                s["square"] = not (si == 1)
                                if si == 0 and D == 2:
                                    s["is_torus"] = [True, False]
                                elif si == 1:
                                    s["is_torus"] = [False] * D
                                specs.append(s)
    # banks as get_invariant_filters really returns them: for 3^D filters no (0,1) filter exists, so that type is
    # absent from the bank; the output is then the requested signature restricted to the reachable types, in the
    # requested order
    msigs = [
        ([((0, 1), 1), ((1, 0), 1)], [((0, 0), 1), ((1, 1), 1)]),
        ([((0, 0), 1)], [((0, 0), 1), ((0, 1), 1)]),
        ([((1, 0), 1), ((0, 1), 2)], [((0, 1), 1), ((1, 1), 2), ((0, 0), 1)]),
        ([((0, 0), 2)], [((1, 1), 1), ((0, 1), 2)]),
    ]
    n_missing = 0
    for D in (2, 3):
        for cls in ("ResNet", "DilResNet", "UNet", "ConvBlock"):
            for mi, (i, o) in enumerate(msigs):
                if D == 3 and mi >= 2 and not th:
                    continue
                for gn in (True, False) if (th or mi == 0) else (True,):
                    s = dict(D=D, cls=cls, equivariant=True, input=i, output=o, depth=2, use_group_norm=gn, use_bias="auto", activation="relu", missing=[(0, 1)])
                    if cls == "UNet":
                        s.update(num_downsamples=1, num_conv=1)
                    from .modelbox import reachable_outputs as _ro
                    if _ro(s) is None:
                        continue
                    specs.append(s)
                    n_missing += 1
    ev.instances("C20.AXI.missing_bank_configs", n_missing, floor=20)
    # explicit mid_keys (unequal channels per type, a type that is neither input nor output), both modes; a
    # conventional ConvBlock with batch norm
    for D in (2, 3) if th else (2,):
        for cls in ("ResNet", "DilResNet", "UNet"):
            i, o = sigs[0]
            specs.append(dict(D=D, cls=cls, equivariant=True, input=i, output=o, depth=2, use_group_norm=True, use_bias="auto", activation="relu", mid_keys=[((0, 0), 2), ((1, 0), 3), ((1, 1), 1)], num_downsamples=1, num_conv=1, is_torus=[True] + [False] * (D - 1)))
            specs.append(dict(D=D, cls=cls, equivariant=False, input=i, output=o, depth=2, use_group_norm=False, use_bias="auto", activation="relu", kernel_size=3, mid_keys=[((0, 0), 5)], num_downsamples=1, num_conv=2))
    # behind GroupAverage (averaging on): unsorted requested signatures must come back in the requested order
    for eq in (True, False):
        sp_ = dict(D=2, cls="ResNet", equivariant=eq, input=sigs[0][0], output=sigs[0][1], depth=2, use_group_norm=False, use_bias="auto", activation="relu", num_blocks=1, num_conv=1, group_average=2)
        if not eq:
            sp_["kernel_size"] = 3
        specs.append(sp_)
    # single-type signatures of every type (the degenerate signatures where "nothing to fold back" short cuts live):
    # one scalar, one pseudoscalar, one vector, one pseudovector block, asked of every model in both modes
    for D in (2, 3):
        for eq in (True, False):
            for cls in ("ResNet", "DilResNet", "UNet"):
                for t in ((0, 0), (0, 1), (1, 0), (1, 1)):
                    if D == 3 and (t != (0, 1) and not th):
                        continue
                    i1, o1 = [((0, 0), 1), (t, 1)] if t != (0, 0) else [((0, 0), 2)], [(t, 2)]
                    extra = dict(num_blocks=1, num_conv=1) if cls == "ResNet" else dict(num_blocks=1) if cls == "DilResNet" else dict(num_downsamples=1, num_conv=1)
                    sp_ = dict(D=D, cls=cls, equivariant=eq, input=i1, output=o1, depth=2, use_group_norm=False, use_bias="auto", activation="relu", **extra)
                    if not eq:
                        sp_["kernel_size"] = 3
                    specs.append(sp_)
    specs.append(dict(D=2, cls="ResNet", equivariant=False, input=sigs[0][0], output=sigs[0][1], depth=2, use_group_norm=True, use_bias="auto", activation="callable", kernel_size=3, num_blocks=1, num_conv=1))
    specs.append(dict(D=2, cls="ResNet", equivariant=True, input=sigs[0][0], output=sigs[0][1], depth=2, use_group_norm=True, use_bias="auto", activation="callable", num_blocks=1, num_conv=1))
    specs.append(dict(D=2, cls="ConvBlock", equivariant=False, input=[((0, 0), 3)], output=[((0, 0), 2)], depth=2, use_bias="auto", activation="relu", kernel_size=3, use_batch_norm=True, preactivation_order=False))
    specs.append(dict(D=2, cls="ConvBlock", equivariant=False, input=[((0, 0), 3)], output=[((0, 0), 2)], depth=2, use_bias="auto", activation="relu", kernel_size=3, use_batch_norm=True, preactivation_order=True, is_torus=[False, True]))
    jobs = [(ctx.repo, s) for s in specs]
    by = {}
    for job, r in ctx.pairs(worker, jobs):
        cfg = r["cfg"]
        ev.obligation("signature", not r["problems"], tuple(str(v) for v in sorted(cfg.items())), sample={k: v for k, v in cfg.items()} if ev.obligations % 17 == 0 else None)
        for kind, what, site in r["problems"]:
            by.setdefault((cfg["cls"], "equivariant" if cfg["equivariant"] else "conventional", kind), []).append((what, site, cfg))
    fj = [(ctx.repo, D, o, nl) for D in (2, 3) for (i, o) in sigs for nl in (1, 2) if not (D == 3 and any(t[0] == 2 for t, _ in o) and nl == 2)]
    for job, r in ctx.pairs(flatten_worker, fj):
        cfg = r["cfg"]
        ev.obligation("flatten", not r["problems"], tuple(str(v) for v in cfg.values()), sample=cfg if cfg["D"] == 2 and cfg["leading_axes"] == 2 else None)
        for kind, what, site in r["problems"]:
            by.setdefault(("MultiImage", "conventional", kind), []).append((what, site, cfg))
    for (cls, mode, kind), items in sorted(by.items()):
        what, site, cfg = items[0]
        if cls == "MultiImage":
            mod, q = MI_MOD, "MultiImage.from_scalar_multi_image"
        else:
            mod, q = MODELS_MOD, cls + ".__call__"
        node = pm.func(mod, q)
        path, line = pm.path(mod), node.lineno
        extra = ""
        if site and site[0]:
            extra = " [at %s:%s in %s]" % (site[0].split("/src/")[-1], site[1], site[2])
        ctx.add(Finding("C20", "C20.AXI." + kind, q, "%s (%s mode; %d of the swept configurations fail)%s" % (what, mode, len(items), extra), path, line, cfg, kind))
    ev.instances("C20.AXI.obligations", ev.obligations, floor=60 if ctx.tier == "quick" else 300)
    ev.exhaustive = False
