"""C05 -- the image algebra is type-sound: the declared (k, parity) is how results transform.

Deciding method: abstract interpretation of every operation of the GeometricImage algebra (working tree)
on symbolic operands and on their g-transforms: op(g.a, g.b, ...) must equal g acting with the result's
*declared* (k, parity) on op(a, b, ...), as an identity of exact terms, for the generators of B_D
(adjacent axis swaps and a reflection, which imply every element).  Type preservation per operation
gives soundness of every finite expression tree by induction (no depth bound).  Also: add/sub reject
mismatched operands, the constructor reduces parity mod 2, contraction is symmetric in and across its
pairs, the tensor product commutes up to the index transposition.
"""

import itertools

from .. import arr as A
from ..report import Finding
from .common import *
from .equiv import *

OPS = ["add", "sub", "scalar_mul", "mul", "transpose", "contract", "multicontract", "levi_civita", "norm", "convolve", "normalize_scale", "rmul"]


def apply_op(geom, op, a, b, param):
    if op == "add":
        return a + b
    if op == "sub":
        return a - b
    if op == "scalar_mul":
        return a * 3
    if op == "rmul":
        return a.__rmul__(2)
    if op == "normalize_scale":
        return a.times_scalar(5)
    if op == "mul":
        return a * b
    if op == "transpose":
        return a.transpose(param)
    if op == "contract":
        return a.contract(param[0], param[1])
    if op == "multicontract":
        return a.multicontract(param)
    if op == "levi_civita":
        return a.levi_civita_contract(param)
    if op == "norm":
        return a.norm()
    if op == "convolve":
        return a.convolve_with(b)
    raise ValueError(op)


def expected_type(op, D, ta, tb, param):
    ka, pa = ta
    if op in ("add", "sub", "scalar_mul", "rmul", "normalize_scale", "transpose"):
        return (ka, pa)
    if op in ("mul", "convolve"):
        return (ka + tb[0], (pa + tb[1]) % 2)
    if op == "contract":
        return (ka - 2, pa)
    if op == "multicontract":
        return (ka - 2 * len(param), pa)
    if op == "levi_civita":
        return (ka - D + 2, (pa + 1) % 2)
    if op == "norm":
        return (0, 0)


def worker(job):
    repo, op, D, ta, tb, param = job
    it, w = get_interp(repo)
    geom = it.get_module(GEOM)
    N = (3,) * D if op == "convolve" else ((2, 3) if D == 2 else (2, 3, 2))
    if op == "convolve":
        N = (3,) * D
    ta = tuple(ta)
    tb = tuple(tb) if tb is not None else None
    cfg = dict(op=op, D=D, a=list(ta), b=list(tb) if tb else None, param=param)
    problems = []
    da = A.leaf("a", N + (D,) * ta[0])
    a = geom.GeometricImage(da, ta[1], D, True)
    b = None
    if tb is not None:
        db = A.leaf("b", ((3,) * D if op == "convolve" else N) + (D,) * tb[0])
        b = (geom.GeometricFilter if op == "convolve" else geom.GeometricImage)(db, tb[1], D, True)
    if isinstance(param, list):
        param = tuple(tuple(x) if isinstance(x, list) else x for x in param)
    base = attempt(lambda: apply_op(geom, op, a, b, param))
    if isinstance(base, Rejected):
        problems.append(("rejected", "%s rejected well-typed operands: %s" % (op, base.exc), None))
        return dict(cfg=cfg, problems=problems)
    want_t = expected_type(op, D, ta, tb, param)
    got_t = (base.k, base.parity)
    cfg["declared"] = list(got_t)
    if base.D != D or tuple(base.is_torus) != (True,) * D:
        problems.append(("meta", "%s changes D / is_torus to %r / %r" % (op, base.D, base.is_torus), None))
    if base.k != want_t[0]:
        problems.append(("order", "%s yields tensor order %d, expected %d" % (op, base.k, want_t[0]), None))
        return dict(cfg=cfg, problems=problems)
    for g in generators(D):
        if op != "convolve" and any(g[i][i] == 0 for i in range(D)) and len(set(N)) > 1:
            # axis swaps need a grid that is mapped to a grid of the same shape for binary operations
            Ng = tuple(sum(abs(g[i][j]) * N[j] for j in range(D)) for i in range(D))
        ga = geom.GeometricImage(spec_action(da, D, ta[0], ta[1], g)[0], ta[1], D, True)
        gb = None
        if tb is not None:
            gb = (geom.GeometricFilter if op == "convolve" else geom.GeometricImage)(spec_action(db, D, tb[0], tb[1], g)[0], tb[1], D, True)
        res = attempt(lambda: apply_op(geom, op, ga, gb, param))
        if isinstance(res, Rejected):
            problems.append(("rejected", "%s rejected the transformed operands (g=%s): %s" % (op, g, res.exc), None))
            continue
        want = spec_action(base.data, D, base.k, base.parity, g)[0]
        if res.data.shape != want.shape or not same_elems(res.data, want):
            refl = det(g) == -1
            problems.append(("type", "%s: the result declares (k=%d, parity=%d) but does not transform with that type under g=%s%s: %s" % (op, base.k, base.parity, g, " (a reflection: parity bookkeeping)" if refl else "", first_diff(res.data, want) if res.data.shape == want.shape else "shape"), site_of(res.data)))
            cfg.setdefault("g", g)
            break
    return dict(cfg=cfg, problems=problems)


def gen_tree(D, seed, depth, kmax):
    """A pseudo-random well-typed expression tree over leaves of random types: nested tuples + its (k, parity)."""
    from .convspec import _pick

    counter = [0]
    leaves = {}

    def leaf(t=None):
        counter[0] += 1
        if t is None:
            t = (_pick(tuple(range(0, min(kmax, 2) + 1)), seed, "lk", counter[0]), _pick((0, 1), seed, "lp", counter[0]))
        name = "x%d" % counter[0]
        leaves[name] = t
        return ("leaf", name), t

    def gen(d):
        counter[0] += 1
        c = counter[0]
        if d == 0:
            return leaf()
        e, t = gen(d - 1)
        k, p = t
        choices = ["smul", "add", "sub", "mul", "norm"]
        if k >= 2:
            choices += ["contract", "transpose", "contract"]
        if k >= D - 1 and k - D + 2 >= 0:
            choices += ["lc"]
        if k <= kmax - 1:
            choices += ["conv", "mul"]
        op = _pick(tuple(choices), seed, "op", c)
        if op == "smul":
            return ("smul", e, _pick((2, -3, 5), seed, "c", c)), t
        if op in ("add", "sub"):
            e2, _ = leaf(t)
            if _pick((0, 1), seed, "wrap", c):
                e2 = ("smul", e2, 7)
            return (op, e, e2) if _pick((0, 1), seed, "side", c) else (op, e2, e), t
        if op == "norm":
            return ("norm", e), (0, 0)
        if op == "contract":
            i, j = _pick(tuple(itertools.permutations(range(k), 2)), seed, "ij", c)
            return ("contract", e, i, j), (k - 2, p)
        if op == "transpose":
            perm = _pick(tuple(itertools.permutations(range(k))), seed, "perm", c)
            return ("transpose", e, perm), t
        if op == "lc":
            idx = _pick(tuple(itertools.permutations(range(k), D - 1)), seed, "lc", c)
            return ("lc", e, idx), (k - D + 2, (p + 1) % 2)
        k2max = kmax - k
        t2 = (_pick(tuple(range(0, min(k2max, 2) + 1)), seed, "k2", c), _pick((0, 1), seed, "p2", c))
        if op == "mul":
            if d >= 2 and _pick((0, 1), seed, "deep", c) and t2[0] <= 1:
                e2, t2 = gen(0)
                if t2[0] + k > kmax:
                    e2, t2 = leaf((0, t2[1]))
            else:
                e2, _ = leaf(t2)
            return (("mul", e, e2) if _pick((0, 1), seed, "side", c) else ("mul", e2, e)), (k + t2[0], (p + t2[1]) % 2)
        # conv: with an arbitrary (non-invariant) filter leaf
        counter[0] += 1
        name = "f%d" % counter[0]
        leaves[name] = ("filter", t2)
        return ("conv", e, ("leaf", name)), (k + t2[0], (p + t2[1]) % 2)

    e, t = gen(depth)
    return e, t, leaves


def eval_tree(geom, e, env):
    op = e[0]
    if op == "leaf":
        return env[e[1]]
    if op == "smul":
        return eval_tree(geom, e[1], env) * e[2]
    if op == "add":
        return eval_tree(geom, e[1], env) + eval_tree(geom, e[2], env)
    if op == "sub":
        return eval_tree(geom, e[1], env) - eval_tree(geom, e[2], env)
    if op == "mul":
        return eval_tree(geom, e[1], env) * eval_tree(geom, e[2], env)
    if op == "norm":
        return eval_tree(geom, e[1], env).norm()
    if op == "contract":
        return eval_tree(geom, e[1], env).contract(e[2], e[3])
    if op == "transpose":
        return eval_tree(geom, e[1], env).transpose(tuple(e[2]))
    if op == "lc":
        return eval_tree(geom, e[1], env).levi_civita_contract(tuple(e[2]))
    if op == "conv":
        return eval_tree(geom, e[1], env).convolve_with(eval_tree(geom, e[2], env))
    raise ValueError(op)


def show_tree(e):
    if e[0] == "leaf":
        return e[1]
    if e[0] in ("add", "sub", "mul", "conv"):
        return "(%s %s %s)" % (show_tree(e[1]), {"add": "+", "sub": "-", "mul": "*", "conv": "conv"}[e[0]], show_tree(e[2]))
    if e[0] == "smul":
        return "%d*%s" % (e[2], show_tree(e[1]))
    return "%s(%s%s)" % (e[0], show_tree(e[1]), "".join(", %s" % (x,) for x in e[2:]))


def tree_worker(job):
    """A whole expression tree (the statement's own quantifier): evaluating it on g-transformed leaves must equal g
    acting with the DECLARED type of the result on the original value -- composition also exercises the meta-data
    (D, is_torus, declared type) that each operation hands to the next one."""
    repo, D, seed, depth = job
    it, w = get_interp(repo)
    geom = it.get_module(GEOM)
    kmax = 3 if D == 2 else 2
    e, t, leaves = gen_tree(D, seed, depth, kmax)
    N = (3,) * D
    cfg = dict(op="tree", D=D, expression=show_tree(e), leaves={n: list(v) if v[0] != "filter" else ["filter", list(v[1])] for n, v in leaves.items()}, expected_type=list(t))
    problems = []
    A.set_cut(24)
    try:
        def build(g):
            env = {}
            for n, v in leaves.items():
                is_f = v[0] == "filter"
                k, p = v[1] if is_f else v
                d = A.leaf(n, N + (D,) * k)
                if g is not None:
                    d = spec_action(d, D, k, p, g)[0]
                env[n] = (geom.GeometricFilter if is_f else geom.GeometricImage)(d, p, D, True)
            return env

        base = attempt(lambda: eval_tree(geom, e, build(None)))
        if isinstance(base, Rejected):
            problems.append(("rejected", "a well-typed expression is rejected: %s" % base.exc, None))
            return dict(cfg=cfg, problems=problems)
        cfg["declared"] = [base.k, base.parity]
        if (base.k, base.parity) != tuple(t) or base.D != D or tuple(base.is_torus) != (True,) * D:
            problems.append(("type", "the expression declares (k=%r, parity=%r, D=%r, is_torus=%r); the algebra gives (k=%d, parity=%d)" % (base.k, base.parity, base.D, base.is_torus, t[0], t[1]), None))
            return dict(cfg=cfg, problems=problems)
        for g in generators(D):
            res = attempt(lambda: eval_tree(geom, e, build(g)))
            if isinstance(res, Rejected):
                problems.append(("rejected", "the expression is rejected on transformed leaves (g=%s): %s" % (g, res.exc), None))
                break
            want = spec_action(base.data, D, base.k, base.parity, g)[0]
            if res.data.shape != want.shape or not same_elems(res.data, want):
                problems.append(("type", "the expression's result declares (k=%d, parity=%d) but does not transform with that type under g=%s" % (base.k, base.parity, g), site_of(res.data)))
                cfg["g"] = g
                break
    finally:
        A.set_cut(None)
    return dict(cfg=cfg, problems=problems)


def law_worker(job):
    repo, law, D = job
    it, w = get_interp(repo)
    geom = it.get_module(GEOM)
    N = (2, 3) if D == 2 else (2, 2, 3)
    cfg = dict(law=law, D=D)
    problems = []
    GI = geom.GeometricImage

    def img(name, k, p, torus=True, shape=None, d=None):
        d = d or D
        return GI(A.leaf(name, (shape or N) + (d,) * k), p, d, torus)

    if law == "reject":
        a = img("a", 1, 0)
        cases = {
            "parity": img("b", 1, 1),
            "order": img("b", 2, 0),
            "shape": img("b", 1, 0, shape=tuple(reversed(N)) if len(set(N)) > 1 else tuple(n + 1 for n in N)),
            "is_torus": img("b", 1, 0, torus=False),
        }
        for name, b in cases.items():
            for opn, f in (("+", lambda: a + b), ("-", lambda: a - b)):
                r = attempt(f)
                if not isinstance(r, Rejected):
                    problems.append(("reject", "a %s b is accepted although the operands differ in %s" % (opn, name), None))
        for name, b in (("shape", cases["shape"]), ("is_torus", cases["is_torus"])):
            r = attempt(lambda: a * b)
            if not isinstance(r, Rejected):
                problems.append(("reject", "a * b is accepted although the operands differ in %s" % name, None))
    elif law == "parity_mod2":
        for p in (2, 3, -1):
            r = attempt(lambda: img("a", 1, p))
            if isinstance(r, Rejected) or r.parity != p % 2:
                problems.append(("parity", "constructor keeps parity %r for input parity %d (expected %d)" % (None if isinstance(r, Rejected) else r.parity, p, p % 2), None))
        a1 = img("a", 0, 1)
        b1 = img("b", 1, 1)
        r = attempt(lambda: a1 * b1)
        if isinstance(r, Rejected) or r.parity != 0:
            problems.append(("parity", "pseudo x pseudo product declares parity %r (expected 0)" % (None if isinstance(r, Rejected) else r.parity), None))
    elif law == "contract_symmetry":
        a = img("a", 3, 0)
        for (i, j) in ((0, 1), (0, 2), (1, 2)):
            r1, r2 = attempt(lambda: a.contract(i, j)), attempt(lambda: a.contract(j, i))
            if isinstance(r1, Rejected) or isinstance(r2, Rejected) or not same_elems(r1.data, r2.data):
                problems.append(("symmetry", "contract(%d,%d) != contract(%d,%d)" % (i, j, j, i), None))
        if D == 2:
            a4 = img("a", 4, 1)
            for p1, p2 in ((((0, 1), (2, 3)), ((2, 3), (0, 1))), (((0, 2), (1, 3)), ((3, 1), (2, 0))), (((0, 3), (1, 2)), ((1, 2), (3, 0)))):
                r1, r2 = attempt(lambda: a4.multicontract(p1)), attempt(lambda: a4.multicontract(p2))
                if isinstance(r1, Rejected) or isinstance(r2, Rejected) or not same_elems(r1.data, r2.data):
                    problems.append(("symmetry", "multicontract(%s) != multicontract(%s)" % (p1, p2), None))
            # serial contraction == multicontract
            r3 = attempt(lambda: a4.contract(0, 1).contract(0, 1))
            r4 = attempt(lambda: a4.multicontract(((0, 1), (2, 3))))
            if isinstance(r3, Rejected) or isinstance(r4, Rejected) or not same_elems(r3.data, r4.data):
                problems.append(("symmetry", "serial contraction differs from multicontract", None))
    elif law == "product_commutes":
        a, b = img("a", 1, 0), img("b", 2, 1)
        ab, ba = attempt(lambda: a * b), attempt(lambda: b * a)
        if isinstance(ab, Rejected) or isinstance(ba, Rejected):
            problems.append(("product", "tensor product rejected", None))
        else:
            r = attempt(lambda: ba.transpose((2, 0, 1)))
            if isinstance(r, Rejected) or not same_elems(ab.data, r.data) or ab.parity != ba.parity:
                problems.append(("product", "a*b is not b*a with its tensor indices transposed (image-a-first layout)", None))
    return dict(cfg=cfg, problems=problems)


def run(ctx):
    ev, pm = ctx.ev, ctx.pm
    ev.explanation = (
        "Abstract interpretation of each GeometricImage operation (+, -, scalar multiples, tensor product, transpose, contract, multicontract, Levi-Civita contraction, "
        "norm, convolution with an arbitrary filter) on symbolic operands and on their transforms under the generators of B_D: op(g.a, g.b) must equal g acting with the "
        "*declared* (k, parity) of the result on op(a, b), as an identity of exact terms. Because every operation preserves typing, every finite expression tree is "
        "type-sound by induction -- no depth bound. Plus: rejection of mismatched operands, parity mod 2, symmetry of contraction, commutativity of the product up to transposition."
    )
    ev.rule_text = "one obligation per (operation, D, operand types k<=3 both parities, index choice); non-trivial = reflection generator included (always) and k>=1"
    ev.assumptions = ["einsum / tensordot semantics as modelled", "norm = sqrt(sum of squares)", "typing of single operations composes (induction over expression trees)"]
    for q in ("GeometricImage.__add__", "GeometricImage.__sub__", "GeometricImage.__mul__", "GeometricImage.transpose", "GeometricImage.contract", "GeometricImage.multicontract", "GeometricImage.levi_civita_contract", "GeometricImage.norm", "GeometricImage.__init__", "GeometricImage.convolve_with"):
        pm.func(GI_MOD, q)
        ev.functions.add(GI_MOD + "." + q)
    for q in ("mul", "multicontract", "norm"):
        pm.func(FN_MOD, q)
    th = ctx.thorough()
    jobs = []
    for D in (2, 3):
        kmax = 3 if D == 2 else 2
        for k in range(kmax + 1):
            for p in (0, 1):
                t = (k, p)
                for op in ("add", "sub"):
                    jobs.append((ctx.repo, op, D, t, t, None))
                for op in ("scalar_mul", "rmul", "normalize_scale", "norm"):
                    if th or op in ("scalar_mul", "norm"):
                        jobs.append((ctx.repo, op, D, t, None, None))
                if k >= 2:
                    for perm in itertools.permutations(range(k)):
                        if perm != tuple(range(k)) and (th or perm[0] != 0):
                            jobs.append((ctx.repo, "transpose", D, t, None, list(perm)))
                    for i, j in itertools.combinations(range(k), 2):
                        jobs.append((ctx.repo, "contract", D, t, None, [i, j]))
                if k >= D - 1:
                    for idx in itertools.permutations(range(k), D - 1):
                        if th or idx == tuple(range(D - 1)) or idx == tuple(reversed(range(k)))[: D - 1]:
                            jobs.append((ctx.repo, "levi_civita", D, t, None, list(idx) if D > 2 else list(idx)))
                for k2 in range(0, (2 if D == 2 else 1) + 1):
                    for p2 in (0, 1):
                        if k + k2 <= (3 if D == 2 else 2):
                            jobs.append((ctx.repo, "mul", D, t, (k2, p2), None))
                            if k + k2 <= 2 and (th or (p2 == 1 or k2 == 1)):
                                jobs.append((ctx.repo, "convolve", D, t, (k2, p2), None))
        if D == 2:
            for p in (0, 1):
                for pairs in ([[0, 1], [2, 3]], [[0, 3], [1, 2]], [[1, 3]]):
                    jobs.append((ctx.repo, "multicontract", D, (4, p), None, pairs))
    by = {}
    for job, r in ctx.pairs(worker, jobs):
        cfg = r["cfg"]
        ev.obligation("typing", not r["problems"], tuple(str(v) for v in cfg.values()) if cfg["a"][0] >= 1 or cfg["a"][1] == 1 else None, sample=cfg if ev.obligations % 37 == 0 else None)
        for kind, what, site in r["problems"]:
            by.setdefault((cfg["op"], kind), []).append((what, site, cfg))
    # whole expression trees (pseudo-random, deterministic): the statement's own quantifier, beyond the induction
    deep = ctx.tier == "thorough"  # (the quick tier of this property already runs the full single-operation box)
    tj = [(ctx.repo, D, "t%d" % i, 1 + i % (4 if deep else 3)) for D in (2, 3) for i in range((2500 if D == 2 else 800) if deep else (150 if D == 2 else 60))]
    for job, r in ctx.pairs(tree_worker, tj):
        cfg = r["cfg"]
        ev.obligation("tree", not r["problems"], (cfg["D"], cfg["expression"]), sample=cfg if ev.obligations % 11 == 0 else None)
        for kind, what, site in r["problems"]:
            by.setdefault(("tree", kind), []).append(("%s: %s" % (cfg["expression"], what), site, cfg))
    lj = [(ctx.repo, law, D) for law in ("reject", "parity_mod2", "contract_symmetry", "product_commutes") for D in (2, 3)]
    for job, r in ctx.pairs(law_worker, lj):
        cfg = r["cfg"]
        ev.obligation("law", not r["problems"], tuple(cfg.values()), sample=cfg if cfg["D"] == 2 else None)
        for kind, what, site in r["problems"]:
            by.setdefault((cfg["law"], kind), []).append((what, site, cfg))
    METHOD = {"add": "GeometricImage.__add__", "sub": "GeometricImage.__sub__", "scalar_mul": "GeometricImage.__mul__", "rmul": "GeometricImage.__rmul__", "normalize_scale": "GeometricImage.times_scalar", "mul": "GeometricImage.__mul__", "transpose": "GeometricImage.transpose", "contract": "GeometricImage.contract", "multicontract": "GeometricImage.multicontract", "levi_civita": "GeometricImage.levi_civita_contract", "norm": "GeometricImage.norm", "convolve": "GeometricImage.convolve_with", "reject": "GeometricImage.__add__", "parity_mod2": "GeometricImage.__init__", "contract_symmetry": "GeometricImage.contract", "product_commutes": "GeometricImage.__mul__", "tree": "GeometricImage.__init__"}
    for (op, kind), items in sorted(by.items()):
        what, site, cfg = items[0]
        q = METHOD[op]
        node = pm.func(GI_MOD, q)
        ctx.add(Finding("C05", "C05.AXI." + kind, q, "%s (%d of the swept configurations fail)" % (what, len(items)), pm.path(GI_MOD), node.lineno, cfg, op + ":" + kind))
    ev.instances("C05.AXI.obligations", ev.obligations, floor=120 if ctx.tier == "quick" else 200)
    ev.exhaustive = th
