"""C02 -- the group action on images is a genuine, type-correct group action.

Deciding method: abstract interpretation of times_group_element (array level, GeometricImage,
MultiImage; working tree) on symbolic images for every element of the hyperoctahedral group and
shapes with pairwise distinct extents; the oracle is the defining formula
(g.A)(x') = det(g)^p g^{(x)k} A(g^-1 (x'-c') + c), N' = |g| N, written directly on symbols, plus
metadata transport (D, k, parity kept; extents and boundary flags carried with their axes) and the
composition / identity laws.
"""

import itertools
from fractions import Fraction

from .. import arr as A
from ..poly import Poly
from ..report import Finding
from .common import *


def group(D):
    out = []
    for perm in itertools.permutations(range(D)):
        for signs in itertools.product((1, -1), repeat=D):
            out.append([[signs[i] if perm[i] == j else 0 for j in range(D)] for i in range(D)])
    return out


def det(g):
    D = len(g)
    tot = 0
    for perm in itertools.permutations(range(D)):
        sgn = 1
        for i in range(D):
            for j in range(i + 1, D):
                if perm[i] > perm[j]:
                    sgn = -sgn
        pr = 1
        for i in range(D):
            pr *= g[i][perm[i]]
        tot += sgn * pr
    return tot


def matmul(a, b):
    n = len(a)
    return [[sum(a[i][k] * b[k][j] for k in range(n)) for j in range(n)] for i in range(n)]


def spec_action(data, D, k, parity, g):
    """The defining formula, evaluated on symbols. data: Arr (spatial, tensor)."""
    N = data.shape[:D]
    Nr = tuple(sum(abs(g[i][j]) * N[j] for j in range(D)) for i in range(D))
    c_in = [Fraction(n - 1, 2) for n in N]
    c_out = [Fraction(n - 1, 2) for n in Nr]
    sgn = det(g) ** parity
    el = []
    # for each tensor output index the single input index and sign: out[i..] = prod g[i_m, j_m] A[j..]
    row = []
    for i in range(D):
        j = [jj for jj in range(D) if g[i][jj] != 0][0]
        row.append((j, g[i][j]))
    for xo in itertools.product(*[range(n) for n in Nr]):
        d = [xo[i] - c_out[i] for i in range(D)]
        # g^-1 = g^T for signed permutations
        src = [sum(g[i][j] * d[i] for i in range(D)) + c_in[j] for j in range(D)]
        assert all(s.denominator == 1 and 0 <= s < N[j] for j, s in enumerate(src)), (src, N)
        src = tuple(int(s) for s in src)
        for ti in itertools.product(range(D), repeat=k):
            s = sgn
            tj = []
            for m in ti:
                j, v = row[m]
                tj.append(j)
                s *= v
            e = data[src + tuple(tj)].elems[0]
            el.append(e * s if s != 1 else e)
    return A.Arr(Nr + (D,) * k, el, "float"), Nr


def worker(job):
    repo, D, shape, k, p, entry, nl, gi, hi = job
    it, w = get_interp(repo)
    geom = it.get_module(GEOM)
    G = group(D)
    g = G[gi]
    gA = A.as_arr(g)
    flags = (True, False, True)[:D] if D > 1 else (True,)
    cfg = dict(D=D, shape=list(shape), k=k, parity=p, entry=entry, leading_axes=nl, g=g)
    problems = []
    if entry == "array":
        data = A.leaf("A", tuple(shape) + (D,) * k)
        res = attempt(lambda: geom.times_group_element(D, data, p, gA))
        exp, Nr = spec_action(data, D, k, p, g)
        if isinstance(res, Rejected):
            problems.append(("rejected", "times_group_element rejected a valid image: %s" % res.exc, None))
        elif not same_elems(res, exp):
            problems.append(("formula", "result differs from the defining formula: %s" % first_diff(res, exp), site_of(res)))
        if hi is not None and not problems:
            h = G[hi]
            r2 = attempt(lambda: geom.times_group_element(D, geom.times_group_element(D, data, p, A.as_arr(h)), p, gA))
            r3 = attempt(lambda: geom.times_group_element(D, data, p, A.as_arr(matmul(g, h))))
            cfg["h"] = h
            if isinstance(r2, Rejected) or isinstance(r3, Rejected) or not same_elems(r2, r3):
                problems.append(("composition", "g.(h.A) differs from (gh).A", None))
    elif entry == "image":
        data = A.leaf("A", tuple(shape) + (D,) * k)
        img = geom.GeometricImage(data, p, D, flags)
        res = attempt(lambda: img.times_group_element(gA))
        exp, Nr = spec_action(data, D, k, p, g)
        if isinstance(res, Rejected):
            problems.append(("rejected", "GeometricImage.times_group_element rejected a valid image: %s" % res.exc, None))
        else:
            if not same_elems(res.data, exp):
                problems.append(("formula", "GeometricImage result differs from the defining formula: %s" % first_diff(res.data, exp), site_of(res.data)))
            want_flags = tuple(flags[[j for j in range(D) if g[i][j] != 0][0]] for i in range(D))
            if res.D != D or res.k != k or res.parity != p % 2 or tuple(res.spatial_dims) != tuple(Nr):
                problems.append(("meta", "result has D=%r k=%r parity=%r extents=%r, expected D=%d k=%d parity=%d extents=%r" % (res.D, res.k, res.parity, res.spatial_dims, D, k, p % 2, Nr), None))
            if tuple(res.is_torus) != want_flags:
                problems.append(("flags", "boundary flags %r are not carried with their axes (expected %r for axis permutation of g)" % (tuple(res.is_torus), want_flags), None))
    else:
        c = 2
        lead = {0: (), 1: (c,), 2: (3, c)}[nl]
        types = [(k, p)] if k == 0 or D == 1 else [(k, p), (0, 1 - p)]
        blocks = {t: block("A", t, lead, tuple(shape), D) for t in types}
        m = make_multi(it, types, blocks, D, flags)
        res = attempt(lambda: m.times_group_element(gA))
        if isinstance(res, Rejected):
            problems.append(("rejected", "MultiImage.times_group_element rejected a valid multi-image: %s" % res.exc, None))
        elif not is_multi(res) or set(res.keys()) != set(types):
            problems.append(("keys", "result holds %s" % (sorted(res.keys()) if is_multi(res) else type(res).__name__), None))
        else:
            want_flags = tuple(flags[[j for j in range(D) if g[i][j] != 0][0]] for i in range(D))
            for t in types:
                blk = blocks[t]
                flat = A.reshape(blk, (-1,) + tuple(shape) + (D,) * t[0])
                exps = [spec_action(flat[i], D, t[0], t[1], g)[0] for i in range(flat.shape[0])]
                exp = A.reshape(A.stack(exps, 0), tuple(lead) + exps[0].shape)
                if res[t].shape != exp.shape:
                    problems.append(("shape", "block %s has shape %r, expected %r (extents must be carried with their axes)" % (tname(t), res[t].shape, exp.shape), site_of(res[t])))
                    break
                if not same_elems(res[t], exp):
                    problems.append(("formula", "block %s differs from the per-image defining formula: %s" % (tname(t), first_diff(res[t], exp)), site_of(res[t])))
                    break
            if res.D != D:
                problems.append(("meta", "D changed to %r" % (res.D,), None))
            if tuple(res.is_torus) != want_flags:
                problems.append(("flags", "boundary flags %r are not carried with their axes (expected %r)" % (tuple(res.is_torus), want_flags), None))
    return dict(cfg=cfg, problems=problems)


def ops_worker(job):
    repo, D = job
    it, w = get_interp(repo)
    geom = it.get_module(GEOM)
    res = attempt(lambda: geom.make_all_operators(D))
    problems = []
    if isinstance(res, Rejected):
        return dict(problems=[("rejected", "make_all_operators rejected D=%d: %s" % (D, res.exc))])
    got = []
    for m in res:
        if not isinstance(m, A.Arr) or not m.is_concrete() or m.shape != (D, D):
            problems.append(("type", "operator is not a concrete %dx%d matrix" % (D, D)))
            return dict(problems=problems)
        got.append(tuple(tuple(r) for r in m.tolist()))
    want = set(tuple(tuple(r) for r in g) for g in group(D))
    if set(got) != want or len(got) != len(want):
        problems.append(("group", "make_all_operators(%d) returns %d matrices (%d distinct); expected exactly the %d signed permutation matrices" % (D, len(got), len(set(got)), len(want))))
    res2 = attempt(lambda: geom.make_C2_group(D))
    if not isinstance(res2, Rejected):
        got2 = set(tuple(tuple(r) for r in m.tolist()) for m in res2)
        want2 = set()
        for signs in itertools.product((1, -1), repeat=D):
            want2.add(tuple(tuple(signs[i] if i == j else 0 for j in range(D)) for i in range(D)))
        if got2 != want2:
            problems.append(("group", "make_C2_group(%d) is not the axis-flip group" % D))
    return dict(problems=problems)


def run(ctx):
    ev, pm = ctx.ev, ctx.pm
    ev.explanation = (
        "Abstract interpretation of times_group_element (array level, GeometricImage method, MultiImage method with 0-2 leading axes) on symbolic "
        "images for every element g of B_D (D=1,2,3) and boxes with pairwise distinct extents (incl. extent 1): the result must equal the defining "
        "formula det(g)^p g^{(x)k} A(g^-1(x'-c')+c) with N'=|g|N element for element, keep D,k,p, and carry extents and per-axis boundary flags with "
        "their axes; composition g.(h.A)=(gh).A is checked on pairs; make_all_operators must return exactly the signed permutation matrices."
    )
    ev.rule_text = "one obligation per (entry point, D, shape, k, parity, g [, h], leading axes); non-trivial = g permutes axes of unequal extent or k>=1"
    ev.assumptions = ["identity/inverse/linearity/norm preservation are corollaries of the defining formula and are not re-derived", "einsum / integer-array indexing semantics as modelled"]
    for q in ("get_rotated_keys", "times_group_element", "hash", "parse_shape"):
        pm.func(FN_MOD, q)
        ev.functions.add(FN_MOD + "." + q)
    pm.func(GI_MOD, "GeometricImage.times_group_element")
    pm.func(MI_MOD, "MultiImage.times_group_element")
    pm.func(COMMON_MOD, "make_all_operators")
    ev.functions.update([GI_MOD + ".GeometricImage.times_group_element", MI_MOD + ".MultiImage.times_group_element", COMMON_MOD + ".make_all_operators"])
    by = {}
    for D in (1, 2, 3):
        r = ops_worker((ctx.repo, D))
        ev.obligation("operators", not r["problems"], ("ops", D))
        for kind, what in r["problems"]:
            by.setdefault(("make_all_operators", COMMON_MOD, kind), []).append((what, None, dict(D=D)))
    jobs = []
    shapes = {1: [(3,), (1,), (4,)], 2: [(2, 3), (3, 3), (1, 4), (4, 2)], 3: [(2, 3, 4), (3, 3, 3), (1, 2, 3), (2, 2, 3), (2, 3, 2), (3, 1, 3)]}
    if ctx.thorough():
        shapes[2] += [(a, b) for a in range(1, 6) for b in range(1, 6) if (a, b) not in shapes[2]]
        shapes[3] += [(4, 3, 2), (1, 1, 5), (2, 5, 3), (3, 1, 3)]
    for D in (1, 2, 3):
        G = group(D)
        for si, shape in enumerate(shapes[D]):
            for k in (0, 1, 2, 3):
                if D == 1 and k > 0:
                    continue
                for p in (0, 1):
                    gsel = range(len(G))
                    if not ctx.thorough():
                        if D == 3:
                            if (si > 0 and k > 0) or k > 2:
                                continue
                            if k == 2 and p == 1:
                                continue
                            gsel = range(len(G)) if k <= 1 else range(0, len(G), 5)
                        elif si > 1 and k > 1:
                            continue
                    elif D == 3 and k == 3 and si > 0:
                        continue
                    for gi in gsel:
                        hi = None
                        if k <= 1 and (ctx.thorough() or gi % 3 == 0):
                            hi = (gi * 7 + 3) % len(G)
                        jobs.append((ctx.repo, D, shape, k, p, "array", 0, gi, hi))
                        if k <= 2 and (ctx.thorough() or (gi % 2 == 0 and k <= 1)):
                            jobs.append((ctx.repo, D, shape, k, p, "image", 0, gi, None))
                        if k <= 1 and (ctx.thorough() or gi % 4 == 1):
                            for nl in (0, 1, 2):
                                jobs.append((ctx.repo, D, shape, k, p, "multi", nl, gi, None))
    for job, r in ctx.pairs(worker, jobs):
        cfg = r["cfg"]
        g = cfg["g"]
        permutes = any(g[i][i] == 0 for i in range(cfg["D"]))
        nontriv = cfg["k"] >= 1 or (permutes and len(set(cfg["shape"])) > 1)
        ev.obligation("action", not r["problems"], (cfg["entry"], cfg["D"], tuple(cfg["shape"]), cfg["k"], cfg["parity"], str(g), cfg["leading_axes"]) if nontriv else None, sample=cfg if ev.obligations % 211 == 0 else None)
        q, mod = {"array": ("times_group_element", FN_MOD), "image": ("GeometricImage.times_group_element", GI_MOD), "multi": ("MultiImage.times_group_element", MI_MOD)}[cfg["entry"]]
        for kind, what, site in r["problems"]:
            by.setdefault((q, mod, kind), []).append((what, site, cfg))
    for (q, mod, kind), items in sorted(by.items()):
        what, site, cfg = items[0]
        node = pm.func(mod, q)
        path, line = pm.path(mod), node.lineno
        construct = q
        if site and site[0] and kind in ("formula",):
            # attribute to the function whose statement produced the wrong pixels if it is one of ours
            pass
        ctx.add(Finding("C02", "C02.AXI." + kind, construct, "%s (%d of the swept configurations fail)" % (what, len(items)), path, line, cfg, kind))
    ev.instances("C02.AXI.obligations", ev.obligations, floor=300 if ctx.tier == "quick" else 3000)
    ev.exhaustive = ctx.thorough()
