"""C14 -- no cross-talk between batch entries, channels or tensor types.

Deciding method: (1) abstract interpretation of every per-image MultiImage operation (working tree)
with 0-3 leading axes of pairwise distinct sizes: the result at each leading index must be exactly the
single-image operation applied to that image, and must depend on no element of any other image;
(2) call-graph rule (AST): no cross-batch collective (axis_name / lax.p*) is reachable from a layer or
model call except the batch-norm wrapper; (3) statistic rule: GroupNorm-style reductions never include
a mapped batch axis (vmap is per-entry by construction, trusted).
"""

import ast
import itertools

from .. import arr as A
from ..poly import as_poly, leaves_of
from ..report import Finding
from .common import *

LEADS = {0: (), 1: (2,), 2: (3, 2), 3: (2, 3, 2)}


def only_from(arr, name, lead_idx, nlead):
    """True if every element depends only on leaf `name` elements whose leading index is lead_idx."""
    for e in arr.elems:
        for (n, idx) in leaves_of(as_poly(e)):
            if n != name or tuple(idx[:nlead]) != tuple(lead_idx):
                return False, (n, idx)
    return True, None


def worker(job):
    repo, op, D, types, nl, param = job
    it, w = get_interp(repo)
    geom = it.get_module(GEOM)
    fn = it.get_module(FN_MOD)
    sp = {1: (4,), 2: (2, 4), 3: (2, 4, 2)}[D]
    flags = (True,) * D
    lead = LEADS[nl]
    types = [tuple(t) for t in types]
    blocks = {t: block("A", t, lead, sp, D) for t in types}
    m = make_multi(it, types, blocks, D, flags)
    cfg = dict(op=op, D=D, types=[list(t) for t in types], leading_axes=nl, param=param)
    problems = []
    if op == "times_group_element":
        g = param
        gA = A.as_arr(g)
        res = attempt(lambda: m.times_group_element(gA))
        single = lambda t, img: fn.times_group_element(D, img, t[1], gA)
        out_type = lambda t: t
    elif op == "norm":
        res = attempt(lambda: m.norm())
        single = lambda t, img: fn.norm(D, img)
        out_type = None
    elif op == "average_pool":
        res = attempt(lambda: m.average_pool(2))
        single = lambda t, img: fn.average_pool(D, img, 2)
        out_type = lambda t: t
    elif op == "to_images":
        res = attempt(lambda: m.to_images())
    elif op == "get_component":
        carg = slice(param[0][0], param[0][1]) if isinstance(param[0], (list, tuple)) else param[0]
        res = attempt(lambda: m.get_component(carg, param[1]) if nl == 1 else m.batch_get_component(carg, param[1]))
    if isinstance(res, Rejected):
        ok_reject = (op == "norm" and nl == 0) or (op == "get_component" and nl not in (1, 2))
        if not ok_reject:
            problems.append(("rejected", "%s rejected a valid multi-image: %s" % (op, res.exc), None))
        return dict(cfg=cfg, problems=problems)
    if op in ("times_group_element", "average_pool"):
        for t in types:
            blk = blocks[t]
            if t not in res or tuple(res[t].shape[:len(lead)]) != tuple(lead):
                problems.append(("per-image", "%s: block %s comes back with leading axes %s, the input has %s (entries are regrouped across batch / channel axes)" % (op, tname(t), list(res[t].shape[:len(lead)]) if t in res else "missing", list(lead)), site_of(res[t]) if t in res else None))
                return dict(cfg=cfg, problems=problems)
            for li in itertools.product(*[range(s) for s in lead]):
                exp = single(t, blk[li] if li else blk)
                got = res[t][li] if li else res[t]
                if not same_elems(got, exp):
                    problems.append(("per-image", "%s: block %s at leading index %s is not the single-image result: %s" % (op, tname(t), list(li), first_diff(got, exp)), site_of(res[t])))
                    return dict(cfg=cfg, problems=problems)
    elif op == "norm":
        # all norms are concatenated on the last leading axis, as (0,0), in type order
        if list(res.keys()) != [(0, 0)]:
            problems.append(("keys", "norm holds %s" % list(res.keys()), None))
            return dict(cfg=cfg, problems=problems)
        pieces = []
        for t in types:
            blk = blocks[t]
            flat = A.reshape(blk, (-1,) + tuple(sp) + (D,) * t[0])
            ex = A.stack([single(t, flat[i]) for i in range(flat.shape[0])], 0)
            pieces.append(A.reshape(ex, lead + tuple(sp)))
        exp = A.concatenate(pieces, nl - 1)
        if not same_elems(res[(0, 0)], exp):
            problems.append(("per-image", "norm: %s" % first_diff(res[(0, 0)], exp), site_of(res[(0, 0)])))
    elif op == "to_images":
        want = []
        for t in types:
            flat = A.reshape(blocks[t], (-1,) + tuple(sp) + (D,) * t[0])
            for i in range(flat.shape[0]):
                want.append((t, flat[i]))
        if len(res) != len(want):
            problems.append(("count", "to_images gives %d images, expected %d" % (len(res), len(want)), None))
        else:
            for im, (t, b) in zip(res, want):
                if (im.k, im.parity) != t or not same_elems(im.data, b):
                    problems.append(("per-image", "to_images: an image of type %s does not hold exactly one (batch, channel) entry" % tname(t), site_of(im.data)))
                    break
    elif op == "get_component":
        comp, steps = param
        # documented layout: types (in sorted order), then channel-major / tensor-minor components; the
        # channel axis of a block is (channel x time step), channel-major
        cols = []
        for t in sorted(types):
            b = blocks[t]
            c = lead[-1] // steps
            for ci in range(c):
                for ti in itertools.product(range(D), repeat=t[0]):
                    cols.append((t, ci, ti))

        def plane(blks, col, ts):
            t, ci, ti = col
            return blks[t][(ci * steps + ts,) + (slice(None),) * D + ti]

        got = res[(0, 0)] if is_multi(res) and list(res.keys()) == [(0, 0)] else None
        if got is None:
            problems.append(("keys", "get_component does not return a single scalar block", None))
        elif nl == 1:
            # a slice selects several components: the result is again a (component x time step) block, component-major
            # like every (channel x time step) axis of the library
            sel = cols[comp[0]:comp[1]] if isinstance(comp, (list, tuple)) else [cols[comp]]
            exp = A.stack([plane(blocks, col, ts) for col in sel for ts in range(steps)], 0)
            if got.shape != exp.shape or not same_elems(got, exp):
                problems.append(("component", "get_component(%s, future_steps=%d) is not component(s) %s (type, channel, tensor index) of the image at each time step, component-major: %s" % (comp, steps, sel, first_diff(got, exp) if got.shape == exp.shape else "shape %r vs %r" % (got.shape, exp.shape)), site_of(got)))
        else:
            # batched: entry b must be what the single-image operation returns for entry b
            for bi in range(lead[0]):
                single = make_multi(it, types, {t: blocks[t][bi] for t in types}, D, flags)
                exp = attempt(lambda: single.get_component(carg, steps))
                if isinstance(exp, Rejected):
                    problems.append(("rejected", "get_component rejected the single image: %s" % exp.exc, None))
                    break
                if got[bi].shape != exp[(0, 0)].shape or not same_elems(got[bi], exp[(0, 0)]):
                    problems.append(("per-image", "batch_get_component(%s)[%d] is not get_component(%s) of batch entry %d: %s" % (comp, bi, comp, bi, first_diff(got[bi], exp[(0, 0)]) if got[bi].shape == exp[(0, 0)].shape else "shape %r vs %r" % (got[bi].shape, exp[(0, 0)].shape)), site_of(got)))
                    break
    return dict(cfg=cfg, problems=problems)


COLLECTIVES = {"psum", "pmean", "pmax", "pmin", "all_gather", "ppermute", "all_to_all", "psum_scatter", "axis_index"}


def collective_rule(ctx):
    """Collectives / named axes reachable from layer and model code (AST over layers.py and models.py)."""
    pm = ctx.pm
    hits = []
    n_sites = 0
    for mod in (LAYERS_MOD, MODELS_MOD, MI_MOD, FN_MOD, GI_MOD):
        for q, fn in pm.functions(mod):
            for n in ast.walk(fn):
                if isinstance(n, ast.Call):
                    d = pm.resolve(mod, n.func) or ""
                    last = d.split(".")[-1]
                    if d.startswith("jax.lax.") and last in COLLECTIVES:
                        hits.append((mod, q, n.lineno, "cross-batch collective %s is called" % d))
                    for kw in n.keywords:
                        if kw.arg == "axis_name" and not (isinstance(kw.value, ast.Constant) and kw.value.value is None):
                            n_sites += 1
                            # allowed only for the batch-norm wrapper, which is cross-batch by design
                            if not d.endswith("BatchNorm"):
                                hits.append((mod, q, n.lineno, "axis_name=%s passed to %s: named batch axis outside batch norm" % (ast.unparse(kw.value), d or ast.unparse(n.func))))
                            else:
                                # must be under a `use_batch_norm` guard
                                guarded = False
                                for parent in ast.walk(fn):
                                    if isinstance(parent, ast.If) and any(x is n for x in ast.walk(parent)) and "use_batch_norm" in ast.unparse(parent.test):
                                        guarded = True
                                if not guarded:
                                    hits.append((mod, q, n.lineno, "BatchNorm (cross-batch statistics) constructed outside a `use_batch_norm` guard"))
    return hits, n_sites


def loss_worker(job):
    """'One sample can never influence another's ... loss': the per-sample losses (reduce=None) of a batch are
    interpreted on symbolic predictions / targets; entry i (every time step of it) may depend only on pixels of batch
    entry i, and must equal the loss of that entry alone."""
    repo, fn, D, steps, B = job
    it, w = get_interp(repo)
    ml = it.get_module("ginjax.ml")
    types = [(0, 0), (1, 0)]
    ch = {(0, 0): 2, (1, 0): 1}
    sp = SPATIAL[D]
    xb = {t: block("x", t, (B, ch[t] * steps), sp, D) for t in types}
    yb = {t: block("y", t, (B, ch[t] * steps), sp, D) for t in types}
    cfg = dict(op=fn, D=D, batch=B, steps=steps, channels_per_step={tname(t): c for t, c in ch.items()}, reduce=None)
    problems = []
    f = getattr(ml, fn)

    def call(xblocks, yblocks):
        x = make_multi(it, types, xblocks, D, True)
        y = make_multi(it, types, yblocks, D, True)
        return f(x, y, None) if fn == "smse_loss" else f(x, y, steps, None)

    res = attempt(lambda: call(xb, yb))
    if isinstance(res, Rejected):
        problems.append(("rejected", "%s(reduce=None) rejected: %s" % (fn, res.exc), None))
        return dict(cfg=cfg, problems=problems)
    if not isinstance(res, A.Arr) or res.ndim < 1 or res.shape[0] != B:
        problems.append(("shape", "%s(reduce=None) returns %r for a batch of %d" % (fn, getattr(res, "shape", res), B), None))
        return dict(cfg=cfg, problems=problems)
    for i in range(B):
        row = res[i]
        bad = None
        for e in (row.elems if isinstance(row, A.Arr) else [row]):
            for (n, idx) in leaves_of(as_poly(e)):
                if idx[0] != i:
                    bad = (n, idx)
                    break
            if bad:
                break
        if bad:
            problems.append(("per-image", "the loss of batch entry %d depends on %s%s, a pixel of batch entry %d" % (i, bad[0], list(bad[1]), bad[1][0]), site_of(res)))
            break
        alone = attempt(lambda: call({t: b[i:i + 1] for t, b in xb.items()}, {t: b[i:i + 1] for t, b in yb.items()}))
        if isinstance(alone, Rejected):
            problems.append(("rejected", "%s rejected a batch of one: %s" % (fn, alone.exc), None))
            break
        if not same_elems(A.reshape(alone, row.shape) if isinstance(row, A.Arr) else alone, row):
            problems.append(("per-image", "the loss of batch entry %d within the batch differs from the loss of that entry alone" % i, site_of(res)))
            break
    return dict(cfg=cfg, problems=problems)


def run(ctx):
    ev, pm = ctx.ev, ctx.pm
    ev.explanation = (
        "(1) Abstract interpretation of MultiImage.times_group_element / norm / average_pool / get_component / batch_get_component / to_images with 0-3 "
        "leading axes (sizes 2,3,2; channels != D != any extent where possible): the result at each leading index must equal the single-image functional "
        "operation applied to that image, as exact provenance. (2) AST call-graph rule over layers/models: no jax.lax collective and no named batch axis "
        "except eqx.nn.BatchNorm under a use_batch_norm guard. vmap applies its function per entry by definition (trusted), so with (2) nothing a layer "
        "or model calls communicates across the mapped axis."
    )
    ev.rule_text = "one obligation per (operation, D, type list, number of leading axes, group element / component); non-trivial = >=1 leading axis"
    ev.assumptions = ["jax.vmap applies the function independently per entry", "eqx.nn.BatchNorm is cross-batch by design and outside the quantifier"]
    for q in ("MultiImage.times_group_element", "MultiImage.norm", "MultiImage.average_pool", "MultiImage.get_component", "MultiImage.batch_get_component", "MultiImage.to_images"):
        pm.func(MI_MOD, q)
        ev.functions.add(MI_MOD + "." + q)
    hits, n_sites = collective_rule(ctx)
    ev.instances("C14.COLLECTIVE.axis_name_sites", n_sites, floor=1)
    for mod, q, line, what in hits:
        ctx.add(Finding("C14", "C14.COLLECTIVE", q, what, pm.path(mod), line, None, "collective"))
    jobs = []
    Ds = (1, 2, 3) if ctx.thorough() else (1, 2)
    for D in Ds:
        tsets = [[(0, 0)], [(0, 1), (0, 0)]] if D == 1 else [[(1, 0)], [(0, 0), (1, 0)], [(2, 0), (0, 1)]]
        if D == 3 and True:
            tsets = tsets[:2]
        gs = {1: [[[-1]]], 2: [[[0, 1], [-1, 0]], [[1, 0], [0, -1]]], 3: [[[0, 1, 0], [0, 0, 1], [1, 0, 0]], [[0, 0, -1], [0, 1, 0], [1, 0, 0]]]}[D]
        for ts in tsets:
            for nl in (0, 1, 2, 3):
                for g in gs:
                    jobs.append((ctx.repo, "times_group_element", D, ts, nl, g))
                jobs.append((ctx.repo, "norm", D, ts, nl, None))
                if D > 1:
                    jobs.append((ctx.repo, "average_pool", D, ts, nl, None))
                jobs.append((ctx.repo, "to_images", D, ts, nl, None))
                if nl in (1, 2) and D == 2:
                    for steps in (1, 2):
                        ncomp = sum((2 // steps) * D ** t[0] for t in ts)
                        for comp in range(ncomp) if (ctx.thorough() or steps == 1) else sorted({0, ncomp - 1, ncomp // 2}):
                            jobs.append((ctx.repo, "get_component", D, ts, nl, [comp, steps]))
                        if ncomp >= 2:
                            jobs.append((ctx.repo, "get_component", D, ts, nl, [[0, 2], steps]))
                            jobs.append((ctx.repo, "get_component", D, ts, nl, [[ncomp - 2, ncomp], steps]))
    by = {}
    for job, r in ctx.pairs(worker, jobs):
        cfg = r["cfg"]
        ev.obligation("per-image", not r["problems"], tuple(str(v) for v in cfg.values()) if cfg["leading_axes"] >= 1 else None, sample=cfg if ev.obligations % 23 == 0 else None)
        for kind, what, site in r["problems"]:
            by.setdefault((cfg["op"], kind), []).append((what, site, cfg))
    for (op, kind), items in sorted(by.items()):
        what, site, cfg = items[0]
        q = "MultiImage." + op
        node = pm.func(MI_MOD, q)
        ctx.add(Finding("C14", "C14.AXI." + kind, q, "%s (%d of the swept configurations fail)" % (what, len(items)), pm.path(MI_MOD), node.lineno, cfg, op))
    lj = [(ctx.repo, "smse_loss", D, 1, 3) for D in (1, 2)] + [(ctx.repo, "timestep_smse_loss", D, st, B) for D in (1, 2) for st in (1, 3) for B in (2, 3)]
    for q in ("smse_loss", "timestep_smse_loss"):
        pm.func(LOSSES_MOD, q)
        ev.functions.add(LOSSES_MOD + "." + q)
    lby = {}
    for job, r in ctx.pairs(loss_worker, lj):
        ev.obligation("per-sample loss", not r["problems"], tuple(str(v) for v in r["cfg"].values()))
        for kind, what, site in r["problems"]:
            lby.setdefault((r["cfg"]["op"], kind), []).append((what, site, r["cfg"]))
    for (q, kind), items in sorted(lby.items()):
        what, site, cfg = items[0]
        ctx.add(Finding("C14", "C14.AXI." + kind, q, "%s (%d of the swept configurations fail)" % (what, len(items)), pm.path(LOSSES_MOD), pm.func(LOSSES_MOD, q).lineno, cfg, kind + ":loss"))
    ev.instances("C14.AXI.obligations", ev.obligations, floor=80 if ctx.tier == "quick" else 150)
    ev.exhaustive = ctx.thorough()
