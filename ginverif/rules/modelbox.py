"""Constructor box shared by C07 (equivariance of networks) and C20 (signature conformance)."""

import itertools

from .. import arr as A
from ..shims import Key
from .common import *
from .equiv import *
from .c08 import symbolise

KINDS = [(k, p) for k in range(5) for p in (0, 1)]


def needed_kinds(sigs):
    ks = set()
    types = set()
    for s in sigs:
        types.update(t for t, _ in s)
    for a in types:
        for b in types:
            ks.add((a[0] + b[0], (a[1] + b[1]) % 2))
    return sorted(ks)


def build_model(it, w, spec, generic_bank=True):
    """spec: dict(cls, D, input, output, depth, equivariant, + class specific options)."""
    models = it.get_module(MODELS_MOD)
    jaxm = it.get_module("jax")
    D = spec["D"]
    in_sig = tuple((tuple(t), c) for t, c in spec["input"])
    out_sig = tuple((tuple(t), c) for t, c in spec["output"])
    eq = spec.get("equivariant", True)
    kw = {}
    bank = up_bank = None
    if eq:
        G = group(D)
        kinds = needed_kinds([in_sig, out_sig] + ([tuple((tuple(t), c) for t, c in spec["mid_keys"])] if spec.get("mid_keys") else []))
        if spec.get("missing"):
            kinds = [k for k in kinds if tuple(k) not in [tuple(m) for m in spec["missing"]]]
        if spec.get("_plain_bank"):
            fb = {t: A.leaf("F%s" % tname(t), (1,) + (3,) * D + (D,) * t[0]) for t in kinds}
            ub = {t: A.leaf("U%s" % tname(t), (1,) + (2,) * D + (D,) * t[0]) for t in kinds}
        elif generic_bank:
            fb = invariant_bank_blocks(D, 3, kinds, G, nf=1)
            ub = invariant_bank_blocks(D, 2, kinds, G, nf=1, prefix="U")
        else:
            fb = {t: A.untracked((2,) + (3,) * D + (D,) * t[0]) for t in kinds}
            ub = {t: A.untracked((1,) + (2,) * D + (D,) * t[0]) for t in kinds}
        bank = make_multi(it, kinds, fb, D, True)
        up_bank = make_multi(it, kinds, ub, D, True)
    else:
        kw["kernel_size"] = spec.get("kernel_size", 3)
    act = spec.get("activation", "relu")
    if act == "callable":
        act = jaxm.nn.tanh
    cls = spec["cls"]
    common = dict(use_bias=spec.get("use_bias", "auto"), activation_f=act, equivariant=eq, conv_filters=bank, key=Key(0))
    common.update(kw)
    if spec.get("mid_keys") and cls != "ConvBlock":
        geomm = it.get_module(GEOM)
        common["mid_keys"] = geomm.Signature(tuple((tuple(t), c) for t, c in spec["mid_keys"]))
    if cls == "ResNet":
        return models.ResNet(D, in_sig, out_sig, spec["depth"], num_blocks=spec.get("num_blocks", 1), num_conv=spec.get("num_conv", 1), use_group_norm=spec.get("use_group_norm", True), preactivation_order=spec.get("preactivation_order", True), **common)
    if cls == "DilResNet":
        return models.DilResNet(D, in_sig, out_sig, spec["depth"], num_blocks=spec.get("num_blocks", 1), use_group_norm=spec.get("use_group_norm", False), **common)
    if cls == "UNet":
        return models.UNet(D, in_sig, out_sig, spec["depth"], num_downsamples=spec.get("num_downsamples", 1), num_conv=spec.get("num_conv", 1), upsample_filters=up_bank, use_group_norm=spec.get("use_group_norm", False), use_batch_norm=spec.get("use_batch_norm", False), **common)
    if cls == "ConvBlock":
        common.pop("activation_f")
        return models.ConvBlock(D, in_sig, out_sig, spec.get("use_bias", "auto"), act, eq, bank, spec.get("kernel_size"), spec.get("use_group_norm", False), False, spec.get("preactivation_order", False), Key(0)) if False else models.ConvBlock(D, in_sig, out_sig, use_bias=spec.get("use_bias", "auto"), activation_f=act, equivariant=eq, conv_filters=bank, kernel_size=spec.get("kernel_size"), use_group_norm=spec.get("use_group_norm", False), use_batch_norm=spec.get("use_batch_norm", False), preactivation_order=spec.get("preactivation_order", False), key=Key(0))
    raise ValueError(cls)


def spatial_for(spec):
    D = spec["D"]
    if spec["cls"] == "UNet":
        f = 2 ** spec.get("num_downsamples", 1)
        return (f * 2,) * D if spec.get("square", True) else (f * 2, f) + (f,) * (D - 2)
    return (3,) * D if spec.get("square", True) else (3, 2) + (2,) * (D - 2)


def reachable_outputs(spec):
    """Requested output signature restricted to the types reachable from the input types through the filter
    types present in the bank (equivariant mode), in the requested order.  Returns None when the answer depends
    on how many layers the architecture has (a type reachable only in >= 2 steps): such configurations are not
    used as obligations."""
    in_sig = [(tuple(t), c) for t, c in spec["input"]]
    out_sig = [(tuple(t), c) for t, c in spec["output"]]
    missing = set(tuple(m) for m in spec.get("missing", ()))
    if not spec.get("equivariant", True) or not missing:
        return out_sig
    bank = set(tuple(k) for k in needed_kinds([in_sig, out_sig])) - missing

    def step(src, dst):
        return set(t for t in dst if any(((s[0] + t[0]), (s[1] + t[1]) % 2) in bank for s in src))

    ins = set(t for t, _ in in_sig)
    outs = [t for t, _ in out_sig]
    if spec["cls"] == "ConvBlock":
        r = step(ins, outs)
        return [(t, c) for t, c in out_sig if t in r]
    mid = ins | set(outs)
    r1 = step(ins, mid)
    if step(r1, mid) != r1:
        return None
    r = step(r1, outs)
    return [(t, c) for t, c in out_sig if t in r]
