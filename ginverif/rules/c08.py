"""C08 -- normalisation, nonlinearity and pooling blocks commute with the group action.

Deciding method: abstract interpretation of ml.GroupNorm / LayerNorm / VectorNeuronNonlinear /
MaxNormPool and geom.max_pool / average_pool / GeometricImage.unpool (working tree) on x and on g.x with
symbolic pixels and *symbolic learnable parameters* (every scale, bias and mixing weight is replaced by a
symbol after construction, so zero/one initial values hide nothing): block(g.x) == g.block(x) must hold as
an identity of exact terms for the generators of B_D.  Non-polynomial steps are uninterpreted functions of
exactly compared arguments; eigh is modelled up to its covariance under signed permutations (axiom A8);
arg-max selection is modelled as 'the candidate with the maximal comparator' (unique maximum assumed).
"""

import itertools

from .. import arr as A
from ..interp import Obj
from ..report import Finding
from ..shims import Key, EqxGroupNorm
from .common import *
from .equiv import *


ORBIT_LIMIT = None


def _is_fresh_leaf(v):
    from ..poly import leaf_of

    if v.tag is None:
        return False
    for e in v.elems[: min(len(v.elems), 4)]:
        lf = leaf_of(e) if isinstance(e, A.Poly) else None
        if lf is None or lf[0] != v.tag:
            return False
    return True


def symbolise(world, v, seen=None, path="p"):
    """Replace every concrete floating parameter array reachable from a layer by a fresh symbolic array."""
    seen = seen if seen is not None else set()
    if id(v) in seen:
        return v
    seen.add(id(v))
    if isinstance(v, A.Arr):
        # every floating array leaf of a model is trainable and independent of every other leaf: constants
        # (zeros/ones initial values) AND arrays derived from other leaves at construction time (e.g. a
        # pre-combined filter) become fresh symbols; fresh parameter arrays are kept as they are
        if v.elems is not None and v.dtype == "float" and v.size > 0 and not _is_fresh_leaf(v):
            return world.fresh_param(v.shape, "S")
        return v
    if isinstance(v, dict):
        for k in list(v):
            v[k] = symbolise(world, v[k], seen, path)
        return v
    if isinstance(v, list):
        for i in range(len(v)):
            v[i] = symbolise(world, v[i], seen, path)
        return v
    if isinstance(v, tuple):
        return tuple(symbolise(world, x, seen, path) for x in v)
    if isinstance(v, Obj):
        at = object.__getattribute__(v, "attrs")
        for k in list(at):
            if k in ("invariant_filters",):
                continue
            at[k] = symbolise(world, at[k], seen, path)
        return v
    if isinstance(v, EqxGroupNorm):
        return v
    return v


def check_layer(it, layer_fn, sig, D, N, flags, problems, cfg, what, shift=None):
    """Generators on every axis-permutation of the extents N: a non-cubic box and its permuted copies form one orbit,
    and f(g.x) == g.f(x) for the generators on each member gives it for the whole group on that orbit."""
    shapes = sorted(set(itertools.permutations(N)))
    shapes.remove(tuple(N))
    if ORBIT_LIMIT is not None and D == 3:
        shapes = shapes[:ORBIT_LIMIT - 1]  # quick tier: the primary orientation and one permuted copy in D=3
    for Ns in [tuple(N)] + shapes:
        if shift is not None and Ns != tuple(N):
            # shifts are stated along the first axis with amounts tied to N: only on the primary orientation
            _check_layer_on(it, layer_fn, sig, D, Ns, flags, problems, cfg, what, None)
        else:
            _check_layer_on(it, layer_fn, sig, D, Ns, flags, problems, cfg, what, shift)
        if problems:
            return


def _check_layer_on(it, layer_fn, sig, D, N, flags, problems, cfg, what, shift=None):
    xb = {t: block("x", t, (c,), N, D) for t, c in sig}
    order = [t for t, _ in sig]
    x = make_multi(it, order, xb, D, flags)
    y = attempt(lambda: layer_fn(x))
    if isinstance(y, Rejected):
        problems.append(("rejected", "%s rejected a supported input: %s" % (what, y.exc), None))
        return
    if not is_multi(y) or set(y.keys()) != set(order):
        problems.append(("types", "%s returns types %s for input types %s" % (what, sorted(y.keys()) if is_multi(y) else type(y).__name__, sorted(order)), None))
        return
    for g in generators(D):
        gx = act_blocks(xb, D, g)
        yg = attempt(lambda: layer_fn(make_multi(it, order, gx, D, permute_tuple(flags, g))))
        if isinstance(yg, Rejected):
            problems.append(("rejected", "%s rejected g.x: %s" % (what, yg.exc), None))
            continue
        for t in order:
            want = act_block(y[t], D, t, g)
            if t not in yg or yg[t].shape != want.shape or not same_elems(yg[t], want):
                problems.append(("equivariance", "%s(g.x) != g.%s(x) for the %s block (type %s) and g=%s: %s" % (what, what, tname(t), "pseudo" if t[1] else "plain", g, first_diff(yg[t], want) if t in yg and yg[t].shape == want.shape else "shape"), site_of(yg[t]) if t in yg else None))
                cfg.setdefault("g", g)
                cfg.setdefault("failing_type", list(t))
                return
    if shift is not None:
        sx = {t: shift_block(b, D, shift[0]) for t, b in xb.items()}
        ys = attempt(lambda: layer_fn(make_multi(it, order, sx, D, flags)))
        if not isinstance(ys, Rejected):
            out_shift = shift[1]
            for t in order:
                want = shift_block(y[t], D, out_shift)
                if not same_elems(ys[t], want):
                    problems.append(("translation", "%s does not commute with the shift by %s pixels" % (what, list(shift[0])), None))
                    return


def worker(job):
    repo, kind, D, sig, param = job
    it, w = get_interp(repo)
    ml = it.get_module("ginjax.ml")
    geom = it.get_module(GEOM)
    sig = tuple((tuple(t), c) for t, c in sig)
    cfg = dict(block=kind, D=D, signature=[[list(t), c] for t, c in sig], param=param)
    problems = []
    flags = (True,) * D
    if kind in ("GroupNorm", "LayerNorm"):
        N = (2, 3) if D == 2 else (2, 2, 3)
        layer = attempt(lambda: ml.GroupNorm(sig, D, param) if kind == "GroupNorm" else ml.LayerNorm(sig, D))
        if isinstance(layer, Rejected):
            problems.append(("rejected", "constructor rejected: %s" % layer.exc, None))
            return dict(cfg=cfg, problems=problems)
        symbolise(w, layer)
        check_layer(it, layer, sig, D, N, flags, problems, cfg, kind)
    elif kind == "VectorNeuronNonlinear":
        N = (2, 3) if D == 2 else (2, 2, 3)
        act = getattr(it.get_module("jax").nn, param)
        layer = attempt(lambda: ml.VectorNeuronNonlinear(sig, D, act, key=Key(0)))
        if isinstance(layer, Rejected):
            problems.append(("rejected", "constructor rejected: %s" % layer.exc, None))
            return dict(cfg=cfg, problems=problems)
        symbolise(w, layer)
        check_layer(it, layer, sig, D, N, flags, problems, cfg, kind)
    elif kind == "MaxNormPool":
        N = (2, 4) if D == 2 else (2, 2, 4)
        if param == 3:
            N = (3, 6) if D == 2 else (3, 3, 6)
        layer = ml.MaxNormPool(param, True)
        sh = tuple(param if i == 0 else 0 for i in range(D))
        check_layer(it, layer, sig, D, N, flags, problems, cfg, kind, shift=(sh, tuple(1 if i == 0 else 0 for i in range(D))))
    elif kind in ("max_pool", "max_pool_cmp", "average_pool", "unpool"):
        N = (2, 4) if D == 2 else (2, 2, 4)
        if param == 3 and kind != "unpool":
            N = (3, 6) if D == 2 else (3, 3, 6)
        if kind == "unpool":
            N = (2, 3) if D == 2 else (2, 2, 3)
        MI = geom.MultiImage
        GI = geom.GeometricImage

        def labelled(r, t, x):
            # the GeometricImage methods must hand back the input's type labels: pooling keeps the type
            if (r.k, r.parity % 2, r.D, tuple(r.is_torus)) != (t[0], t[1], D, tuple(x.is_torus)) and not any(p[0] == "labels" for p in problems):
                problems.append(("labels", "GeometricImage.%s returns an image declared (k=%r, parity=%r, D=%r, is_torus=%r) for an input of type %s, D=%d, is_torus=%r" % (kind, r.k, r.parity, r.D, r.is_torus, tname(t), D, tuple(x.is_torus)), None))
            return r.data

        def fn(x):
            out = {}
            for t in x.keys():
                blk = x[t]
                res = []
                for c in range(blk.shape[0]):
                    if kind == "max_pool_cmp":
                        # selection by an explicit comparator image (the first scalar channel of the input)
                        res.append(geom.max_pool(D, blk[c], param, False, x[(0, 0)][0]))
                    elif kind == "max_pool":
                        res.append(geom.max_pool(D, blk[c], param, True))
                        if c == 0:
                            m = labelled(GI(blk[c], t[1], D, x.is_torus).max_pool(param, True), t, x)
                            if not same_elems(m, res[-1]) and not any(p[0] == "method" for p in problems):
                                problems.append(("method", "GeometricImage.max_pool differs from geom.max_pool on the same data", None))
                    elif kind == "average_pool":
                        res.append(geom.average_pool(D, blk[c], param))
                        if c == 0:
                            m = labelled(GI(blk[c], t[1], D, x.is_torus).average_pool(param), t, x)
                            if not same_elems(m, res[-1]) and not any(p[0] == "method" for p in problems):
                                problems.append(("method", "GeometricImage.average_pool differs from geom.average_pool on the same data", None))
                    else:
                        res.append(labelled(GI(blk[c], t[1], D, x.is_torus).unpool(param), t, x))
                out[t] = A.stack(res, 0)
            return MI(out, D, x.is_torus)

        sh = tuple(param if i == 0 else 0 for i in range(D)) if kind != "unpool" else tuple(1 if i == 0 else 0 for i in range(D))
        osh = tuple(1 if i == 0 else 0 for i in range(D)) if kind != "unpool" else tuple(param if i == 0 else 0 for i in range(D))
        check_layer(it, fn, sig, D, N, flags, problems, cfg, kind, shift=(sh, osh))
    return dict(cfg=cfg, problems=problems)


CONSTRUCT = {
    "GroupNorm": (LAYERS_MOD, "GroupNorm.__call__"),
    "LayerNorm": (LAYERS_MOD, "GroupNorm.__call__"),
    "VectorNeuronNonlinear": (LAYERS_MOD, "VectorNeuronNonlinear.__call__"),
    "MaxNormPool": (LAYERS_MOD, "MaxNormPool.__call__"),
    "max_pool": (FN_MOD, "max_pool"),
    "max_pool_cmp": (FN_MOD, "max_pool"),
    "average_pool": (FN_MOD, "average_pool"),
    "unpool": (GI_MOD, "GeometricImage.unpool"),
}


def run(ctx):
    ev, pm = ctx.ev, ctx.pm
    ev.explanation = (
        "Abstract interpretation of GroupNorm/LayerNorm (scalar path through eqx.nn.GroupNorm modelled by its definition; vector path _group_norm_K1 with eigh whitening), "
        "VectorNeuronNonlinear, MaxNormPool, geom.max_pool, average_pool and GeometricImage.unpool on x and g.x with symbolic pixels and with every learnable parameter replaced "
        "by a symbol (so zero/one initial values cannot hide a non-equivariant term): block(g.x) == g.block(x) as an identity of exact terms for the generators of B_D, for "
        "every accepted type incl. pseudo-scalars and pseudo-vectors, every group count dividing the channels, the default non-zero eps, several activations and patch lengths; "
        "pool/unpool also for shifts by the patch length."
    )
    ev.rule_text = "one obligation per (block, D, signature, group count / activation / patch length); each covers all generators of B_D; non-trivial = a pseudo-type or k>=1 present"
    ev.assumptions = [
        "A8: eigh is covariant under signed permutations (eigvals(hCh^T)=eigvals(C), eigvecs(hCh^T)=h eigvecs(C)); near-degenerate covariance not decided",
        "A10: arg-max selection picks the candidate with the maximal comparator; ties are not decided",
        "eqx.nn.GroupNorm computes (x-mean)*rsqrt(var+eps)*weight+bias per channel group",
        "activations are arbitrary (uninterpreted) scalar functions",
    ]
    for mod, q in set(CONSTRUCT.values()):
        pm.func(mod, q)
        ev.functions.add(mod + "." + q)
    pm.func(LAYERS_MOD, "_group_norm_K1")
    pm.func(LAYERS_MOD, "GroupNorm.__init__")
    th = ctx.thorough()
    global ORBIT_LIMIT
    ORBIT_LIMIT = None if th else 2
    jobs = []
    for D in (2, 3):
        norm_sigs = [(((0, 0), 2), ((1, 0), 2)), (((0, 1), 2),), (((1, 1), 2), ((0, 0), 4))]
        if D == 3 and not th:
            norm_sigs = [(((0, 0), 2), ((1, 0), 2), ((0, 1), 2))]
        for sig in norm_sigs:
            for groups in (1, 2):
                jobs.append((ctx.repo, "GroupNorm", D, sig, groups))
            jobs.append((ctx.repo, "LayerNorm", D, sig, None))
        vn_sigs = [(((0, 0), 1), ((1, 0), 2)), (((0, 1), 2), ((1, 1), 1)), (((2, 0), 1),)]
        if D == 3:
            vn_sigs = vn_sigs[:2] if th else [(((1, 0), 2), ((0, 1), 1))]
        for sig in vn_sigs:
            for actn in ("relu", "gelu", "tanh") if th else ("relu", "tanh"):
                jobs.append((ctx.repo, "VectorNeuronNonlinear", D, sig, actn))
        pool_sigs = [(((0, 0), 1), ((1, 0), 1)), (((0, 1), 1), ((1, 1), 1)), (((2, 0), 1),)]
        if D == 3:
            pool_sigs = pool_sigs[:1] + (pool_sigs[1:2] if th else [])
        for sig in pool_sigs:
            jobs.append((ctx.repo, "MaxNormPool", D, sig, 2))
            jobs.append((ctx.repo, "max_pool", D, sig, 2))
            if any(t == (0, 0) for t, _ in sig):
                jobs.append((ctx.repo, "max_pool_cmp", D, sig, 2))
            jobs.append((ctx.repo, "average_pool", D, sig, 2))
            jobs.append((ctx.repo, "unpool", D, sig, 2))
            if D == 2:
                jobs.append((ctx.repo, "unpool", D, sig, 3))
                if sig is pool_sigs[0] or th:
                    # patch length 3 (odd: the patch has a centre pixel)
                    jobs.append((ctx.repo, "MaxNormPool", D, sig, 3))
                    jobs.append((ctx.repo, "average_pool", D, sig, 3))
                    jobs.append((ctx.repo, "max_pool", D, sig, 3))
        if th:
            # more channels per group, deeper tensor orders for the pooling blocks, D=3 with every pooling signature
            jobs.append((ctx.repo, "GroupNorm", D, (((0, 0), 4), ((1, 0), 4), ((0, 1), 4), ((1, 1), 4)), 4))
            jobs.append((ctx.repo, "GroupNorm", D, (((1, 0), 6), ((0, 1), 3)), 3))
            for sig in ((((2, 1), 1), ((0, 0), 2)), (((1, 0), 2), ((1, 1), 2))):
                for blk in ("MaxNormPool", "max_pool", "max_pool_cmp", "average_pool", "unpool"):
                    if blk == "max_pool_cmp" and not any(t == (0, 0) for t, _ in sig):
                        continue
                    jobs.append((ctx.repo, blk, D, sig, 2))
    by = {}
    for job, r in ctx.pairs(worker, jobs):
        cfg = r["cfg"]
        nontriv = any(t[0] >= 1 or t[1] == 1 for t, _ in cfg["signature"])
        ev.obligation("block", not r["problems"], tuple(str(v) for v in cfg.values()) if nontriv else None, sample={k: v for k, v in cfg.items()} if ev.obligations % 9 == 0 else None)
        for kind, what, site in r["problems"]:
            ft = tuple(cfg.get("failing_type", ()))
            wit = kind
            if kind == "equivariance" and ft:
                wit = "equivariance:" + ("pseudoscalar" if ft == (0, 1) else "k=%d,p=%d" % ft)
            by.setdefault((cfg["block"] if cfg["block"] != "LayerNorm" else "GroupNorm", kind, wit), []).append((what, site, cfg))
    for (blk, kind, wit), items in sorted(by.items()):
        what, site, cfg = items[0]
        mod, q = CONSTRUCT[blk]
        node = pm.func(mod, q)
        extra = ""
        if site and site[0]:
            extra = " [last array operation at %s:%s in %s]" % (site[0].split("/src/")[-1], site[1], site[2])
        ctx.add(Finding("C08", "C08.AXI." + kind, q, "%s (%d of the swept configurations fail)%s" % (what, len(items), extra), pm.path(mod), node.lineno, cfg, wit))
    ev.instances("C08.AXI.obligations", ev.obligations, floor=30 if ctx.tier == "quick" else 50)
    ev.exhaustive = False
