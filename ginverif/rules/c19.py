"""C19 -- stopping conditions stop training exactly when specified, for any loss history.

Deciding method (no execution): CF path enumeration of TrainLoss.stop / ValLoss.stop / EpochStop.stop
normalised to roles and compared with the transition function of the statement (strict improvement
test on the monitored argument; on improvement best:=loss, best_model:=model, counter:=0; otherwise
counter+=1 only; result counter>patience) -- a transition-function check discharges the 'all histories'
quantifier by induction.  KIND: every early-exit guard is evaluated on a class table for the value
kinds the statement lists (Python float, NumPy scalar, JAX scalar) and the kinds train() supplies.
train(): argument roles, epoch increment, returned model (AST).
"""

import ast
from fractions import Fraction

from ..paths import enumerate_paths, PathUnsupported
from ..report import Finding, AnalysisError
from .common import *
from ..shims import Key

KINDS = ["PyFloat", "NumPyFloat32", "NumPyFloat64", "JaxArray"]

# class table: which kinds are instances of which (resolved) class names
ISINSTANCE = {
    "float": {"PyFloat", "NumPyFloat64"},
    "int": set(),
    "bool": set(),
    "numpy.floating": {"NumPyFloat32", "NumPyFloat64"},
    "numpy.float32": {"NumPyFloat32"},
    "numpy.float64": {"NumPyFloat64"},
    "numpy.generic": {"NumPyFloat32", "NumPyFloat64"},
    "numpy.number": {"NumPyFloat32", "NumPyFloat64"},
    "numpy.ndarray": set(),
    "numbers.Real": {"PyFloat", "NumPyFloat32", "NumPyFloat64"},
    "numbers.Number": {"PyFloat", "NumPyFloat32", "NumPyFloat64"},
    "jax.Array": {"JaxArray"},
    "jax.numpy.ndarray": {"JaxArray"},
    "jaxtyping.ArrayLike": None,
}


class Unknown(Exception):
    pass


def strip_float(e):
    """float(x) / x.item() / jnp.asarray(x) are value-preserving conversions."""
    while True:
        if isinstance(e, ast.Call) and isinstance(e.func, ast.Name) and e.func.id == "float" and len(e.args) == 1:
            e = e.args[0]
        elif isinstance(e, ast.Call) and isinstance(e.func, ast.Attribute) and e.func.attr == "item" and not e.args:
            e = e.func.value
        else:
            return e


def eval_guard(pm, mod, test, var, kind, converted):
    """Three-valued evaluation of a guard for the monitored variable `var` holding a value of `kind`."""
    if isinstance(test, ast.BoolOp):
        vals = [eval_guard(pm, mod, v, var, kind, converted) for v in test.values]
        if isinstance(test.op, ast.Or):
            if any(v is True for v in vals):
                return True
            if all(v is False for v in vals):
                return False
            return None
        if any(v is False for v in vals):
            return False
        if all(v is True for v in vals):
            return True
        return None
    if isinstance(test, ast.UnaryOp) and isinstance(test.op, ast.Not):
        v = eval_guard(pm, mod, test.operand, var, kind, converted)
        return None if v is None else (not v)
    if isinstance(test, ast.Compare) and len(test.ops) == 1:
        l, r = test.left, test.comparators[0]
        if isinstance(l, ast.Name) and l.id == var and isinstance(r, ast.Constant) and r.value is None:
            if isinstance(test.ops[0], ast.Is):
                return False
            if isinstance(test.ops[0], ast.IsNot):
                return True
            if isinstance(test.ops[0], ast.Eq):
                return False
            if isinstance(test.ops[0], ast.NotEq):
                return True
    if isinstance(test, ast.Call) and isinstance(test.func, ast.Name) and test.func.id == "isinstance" and len(test.args) == 2:
        a = test.args[0]
        if isinstance(a, ast.Name) and a.id == var:
            k = "PyFloat" if converted else kind
            classes = test.args[1].elts if isinstance(test.args[1], ast.Tuple) else [test.args[1]]
            res = False
            for c in classes:
                d = pm.resolve(mod, c) or ast.unparse(c)
                d = {"np.floating": "numpy.floating"}.get(d, d)
                if d not in ISINSTANCE or ISINSTANCE[d] is None:
                    return None
                if k in ISINSTANCE[d]:
                    res = True
            return res
    return None


def lin(e, atoms):
    """Linear form {atom: coeff, 1: const} of an expression over role atoms, or raise Unknown."""
    e = strip_float(e)
    if isinstance(e, ast.BinOp) and isinstance(e.op, (ast.Add, ast.Sub)):
        a, b = lin(e.left, atoms), lin(e.right, atoms)
        out = dict(a)
        for k, v in b.items():
            out[k] = out.get(k, 0) + (v if isinstance(e.op, ast.Add) else -v)
        return {k: v for k, v in out.items() if v != 0}
    if isinstance(e, ast.UnaryOp) and isinstance(e.op, ast.USub):
        return {k: -v for k, v in lin(e.operand, atoms).items()}
    if isinstance(e, ast.Constant) and isinstance(e.value, (int, float)):
        return {1: e.value} if e.value else {}
    t = ast.unparse(e)
    if t in atoms:
        return {atoms[t]: 1}
    raise Unknown(t)


def improvement_form(test, atoms):
    """Return ('lt'|'le', linear form of rhs-lhs) for `lhs < rhs`-like tests."""
    negated = False
    while isinstance(test, ast.UnaryOp) and isinstance(test.op, ast.Not):
        negated = not negated
        test = test.operand
    if not (isinstance(test, ast.Compare) and len(test.ops) == 1):
        raise Unknown(ast.unparse(test))
    op = test.ops[0]
    l, r = test.left, test.comparators[0]
    if negated:
        # on real numbers: not (a >= b) == a < b, etc.
        op = {ast.Gt: ast.LtE, ast.GtE: ast.Lt, ast.Lt: ast.GtE, ast.LtE: ast.Gt}.get(type(op), type(None))()
    if isinstance(op, (ast.Gt, ast.GtE)):
        l, r = r, l
        strict = isinstance(op, ast.Gt)
    elif isinstance(op, (ast.Lt, ast.LtE)):
        strict = isinstance(op, ast.Lt)
    else:
        raise Unknown(ast.unparse(test))
    a, b = lin(l, atoms), lin(r, atoms)
    d = dict(b)
    for k, v in a.items():
        d[k] = d.get(k, 0) - v
    return strict, {k: v for k, v in d.items() if v != 0}


def check_patience(ctx, clsname, monitor_index, best_field_hint):
    pm = ctx.pm
    fn = pm.func(STOP_MOD, clsname + ".stop")
    ctx.ev.functions.add(STOP_MOD + "." + clsname + ".stop")
    params = [a.arg for a in fn.args.args]
    if len(params) < 6:
        raise AnalysisError("%s.stop does not take (self, model, epoch, train_loss, val_loss, time)" % clsname)
    model_p, monitor = params[1], params[1 + monitor_index]
    other_loss = params[1 + (3 if monitor_index == 2 else 2)]
    path, line0 = pm.path(STOP_MOD), fn.lineno
    out = []
    try:
        paths = enumerate_paths(fn)
    except PathUnsupported as e:
        raise AnalysisError("%s.stop: %s" % (clsname, e))
    ctx.ev.instances("C19.CF.paths", len(paths))
    # find the state fields from __init__
    init = pm.func(STOP_MOD, clsname + ".__init__")
    fields = [ast.unparse(t) for st in ast.walk(init) if isinstance(st, ast.Assign) for t in st.targets]
    best_fields = [f for f in fields if f.startswith("self.best_") and f != "self.best_model"]
    counter_fields = [f for f in fields if "since" in f or "counter" in f or "wait" in f]
    if len(best_fields) != 1 or len(counter_fields) != 1:
        raise AnalysisError("%s: cannot identify the best-loss / counter state fields (%s / %s)" % (clsname, best_fields, counter_fields))
    best, counter = best_fields[0], counter_fields[0]
    atoms = {monitor: "loss", best: "best", "self.min_delta": "delta", other_loss: "other"}
    n_improve = n_noimp = n_early = 0
    for p in paths:
        # split conditions into guards on the monitored value and the improvement test
        converted = False
        eff = {}
        order = []
        for tgt, val, kind in p.effects:
            if tgt == monitor and kind == "set" and ast.unparse(strip_float(val)) == monitor:
                converted = True
                continue
            eff[tgt] = (val, kind)
            order.append(tgt)
        imp = None
        guards = []
        for test, pol in p.conds:
            try:
                strict, form = improvement_form(test, atoms)
                imp = (strict, form, pol, test)
            except Unknown:
                guards.append((test, pol))
        state_eff = {k: v for k, v in eff.items() if k.startswith("self.")}
        ret_txt = ast.unparse(p.ret) if p.ret is not None and not isinstance(p.ret, ast.Raise) else None
        if imp is None:
            # an early exit: must not be taken by any of the value kinds, and must change nothing
            n_early += 1
            for kind in KINDS:
                taken = True
                undecided = False
                for test, pol in guards:
                    v = eval_guard(pm, STOP_MOD, test, monitor, kind, converted)
                    if v is None:
                        undecided = True
                    elif v != pol:
                        taken = False
                if taken and not undecided and guards:
                    out.append(Finding("C19", "C19.KIND", clsname + ".stop", "a %s loss takes the early exit `%s` (returns %s) and never reaches the improvement test: the condition never stops for the values train() passes" % (kind, " and ".join(("" if pol else "not ") + "(" + ast.unparse(t) + ")" for t, pol in guards), ret_txt), path, guards[0][0].lineno, dict(kind=kind), "loss-kind"))
                elif taken and undecided:
                    raise AnalysisError("%s.stop: cannot evaluate early-exit guard %s for kind %s" % (clsname, [ast.unparse(t) for t, _ in guards], kind))
            if state_eff:
                out.append(Finding("C19", "C19.CF.early-exit", clsname + ".stop", "the early-exit path changes state %s" % sorted(state_eff), path, line0, None, "early-exit-effect"))
            continue
        strict, form, pol, test = imp
        if pol:
            n_improve += 1
        else:
            n_noimp += 1
        # guards on a path that reaches the test must hold for every kind (else that kind is diverted)
        want = {"best": 1, "delta": -1, "loss": -1}
        if form != want:
            if form == {"best": 1, "delta": -1, "other": -1}:
                out.append(Finding("C19", "C19.CF.monitor", clsname + ".stop", "the improvement test `%s` monitors %s instead of %s" % (ast.unparse(test), other_loss, monitor), path, test.lineno, None, "monitored-quantity"))
            else:
                out.append(Finding("C19", "C19.CF.test", clsname + ".stop", "the improvement test `%s` is not `loss < best - min_delta`" % ast.unparse(test), path, test.lineno, None, "improvement-test"))
            continue
        if not strict:
            out.append(Finding("C19", "C19.CF.test", clsname + ".stop", "the improvement test `%s` is not strict (a loss equal to best - min_delta would count as an improvement)" % ast.unparse(test), path, test.lineno, None, "improvement-test"))
        ret_ok = False
        if p.ret is not None and isinstance(p.ret, ast.Compare) and len(p.ret.ops) == 1:
            l, r, op = ast.unparse(p.ret.left), ast.unparse(p.ret.comparators[0]), p.ret.ops[0]
            if (l == counter and r == "self.patience" and isinstance(op, ast.Gt)) or (l == "self.patience" and r == counter and isinstance(op, ast.Lt)):
                ret_ok = True
        if not ret_ok:
            out.append(Finding("C19", "C19.CF.result", clsname + ".stop", "the result `%s` is not `%s > self.patience`" % (ret_txt, counter), path, p.ret.lineno if p.ret is not None else line0, None, "result"))
        if pol:
            exp = {best: monitor, "self.best_model": model_p, counter: "0"}
            got = {}
            for k, (val, kind) in state_eff.items():
                got[k] = ast.unparse(strip_float(val)) if kind == "set" else "<aug>"
            for k, v in exp.items():
                if got.get(k) != v:
                    out.append(Finding("C19", "C19.CF.improve", clsname + ".stop", "on improvement %s must become %s, but the path %s" % (k, v, ("sets it to " + got[k]) if k in got else "leaves it unchanged"), path, test.lineno, None, "improve:" + k.split(".")[-1]))
            for k in got:
                if k not in exp:
                    out.append(Finding("C19", "C19.CF.improve", clsname + ".stop", "on improvement the path also changes %s" % k, path, test.lineno, None, "improve-extra"))
        else:
            ok = set(state_eff) == {counter}
            if ok:
                val, kind = state_eff[counter]
                if kind == "aug":
                    ok = isinstance(val.op, ast.Add) and isinstance(val.value, ast.Constant) and val.value.value == 1
                else:
                    ok = ast.unparse(val) in (counter + " + 1", "1 + " + counter)
            if not ok:
                got = {k: (ast.unparse(v[0]) if v[1] == "set" else ast.unparse(v[0])) for k, v in state_eff.items()}
                out.append(Finding("C19", "C19.CF.no-improve", clsname + ".stop", "without improvement only %s += 1 may happen, but the path does %s" % (counter, got or "nothing"), path, test.lineno, None, "no-improve"))
    if n_improve < 1 or n_noimp < 1:
        raise AnalysisError("%s.stop: improvement / no-improvement paths not found (%d / %d)" % (clsname, n_improve, n_noimp))
    return out


def check_epochstop(ctx):
    pm = ctx.pm
    fn = pm.func(STOP_MOD, "EpochStop.stop")
    ctx.ev.functions.add(STOP_MOD + ".EpochStop.stop")
    params = [a.arg for a in fn.args.args]
    model_p, epoch_p = params[1], params[2]
    out = []
    try:
        paths = enumerate_paths(fn)
    except PathUnsupported as e:
        raise AnalysisError("EpochStop.stop: %s" % e)
    ctx.ev.instances("C19.CF.paths", len(paths))
    for p in paths:
        eff = {t: ast.unparse(v) for t, v, k in p.effects if k == "set"}
        if eff.get("self.best_model") != model_p:
            out.append(Finding("C19", "C19.CF.epochstop", "EpochStop.stop", "a path does not hand back the last model (self.best_model := %s)" % eff.get("self.best_model"), pm.path(STOP_MOD), fn.lineno, None, "epochstop-model"))
        r = p.ret
        ok = isinstance(r, ast.Compare) and len(r.ops) == 1 and ((ast.unparse(r.left) == epoch_p and ast.unparse(r.comparators[0]) == "self.epochs" and isinstance(r.ops[0], ast.GtE)) or (ast.unparse(r.left) == "self.epochs" and ast.unparse(r.comparators[0]) == epoch_p and isinstance(r.ops[0], ast.LtE)))
        if not ok:
            out.append(Finding("C19", "C19.CF.epochstop", "EpochStop.stop", "the result `%s` is not `%s >= self.epochs`" % (ast.unparse(r) if r is not None else None, epoch_p), pm.path(STOP_MOD), r.lineno if r is not None else fn.lineno, None, "epochstop-result"))
    return out


def check_train(ctx):
    pm = ctx.pm
    fn = pm.func(TRAIN_MOD, "train")
    ctx.ev.functions.add(TRAIN_MOD + ".train")
    out = []
    path = pm.path(TRAIN_MOD)
    loops = [n for n in fn.body if isinstance(n, ast.While)]
    if len(loops) != 1:
        raise AnalysisError("train: expected exactly one top-level while loop, found %d" % len(loops))
    lp = loops[0]
    call = None
    for n in ast.walk(lp.test):
        if isinstance(n, ast.Call) and isinstance(n.func, ast.Attribute) and n.func.attr == "stop":
            call = n
    if call is not None and lp.test is call:
        return [Finding("C19", "C19.TRAIN.loop", "train", "the training loop runs while %s is true: it trains only once the condition says stop" % ast.unparse(call)[:60], path, lp.lineno, None, "loop-polarity")]
    if call is None or not (isinstance(lp.test, ast.UnaryOp) and isinstance(lp.test.op, ast.Not)):
        raise AnalysisError("train: loop condition is not `not <stop_condition>.stop(...)`")
    if len(call.args) != 5:
        raise AnalysisError("train: stop() is not called with 5 positional arguments")
    names = [ast.unparse(a) for a in call.args]
    model_v, epoch_v, tl_v, vl_v, _ = names
    # roles: model_v is the variable updated by train_step; tl_v accumulates train_step losses; vl_v from the validation map
    assigns = {}
    for n in ast.walk(lp):
        if isinstance(n, ast.Assign):
            for t in n.targets:
                for nm in ([t] if isinstance(t, ast.Name) else (t.elts if isinstance(t, ast.Tuple) else [])):
                    if isinstance(nm, ast.Name):
                        assigns.setdefault(nm.id, []).append(n)
        elif isinstance(n, ast.AugAssign) and isinstance(n.target, ast.Name):
            assigns.setdefault(n.target.id, []).append(n)

    def from_call(var, callee):
        for a in assigns.get(var, []):
            for c in ast.walk(a):
                if isinstance(c, ast.Call):
                    d = pm.resolve(TRAIN_MOD, c.func) or ""
                    if d.endswith("." + callee):
                        return True
        return False

    if not from_call(model_v, "train_step"):
        out.append(Finding("C19", "C19.TRAIN.roles", "train", "the model handed to stop() (%s) is not the one updated by train_step" % model_v, path, call.lineno, None, "model-role"))
    # tl_v: its per-iteration value derives from train_step's loss
    loss_vars = set()
    for a in assigns.get(model_v, []):
        if isinstance(a, ast.Assign) and isinstance(a.targets[0], ast.Tuple):
            loss_vars.update(e.id for e in a.targets[0].elts if isinstance(e, ast.Name))
    derives = any(any(isinstance(x, ast.Name) and x.id in loss_vars for x in ast.walk(a)) for a in assigns.get(tl_v, []))
    if not derives:
        out.append(Finding("C19", "C19.TRAIN.roles", "train", "the training loss handed to stop() (%s) does not derive from train_step's loss" % tl_v, path, call.lineno, None, "train-loss-role"))
    if not from_call(vl_v, "map_loss_in_batches"):
        out.append(Finding("C19", "C19.TRAIN.roles", "train", "the validation loss handed to stop() (%s) does not come from map_loss_in_batches on the validation set" % vl_v, path, call.lineno, None, "val-loss-role"))
    else:
        for a in assigns.get(vl_v, []):
            for c in ast.walk(a):
                if isinstance(c, ast.Call) and (pm.resolve(TRAIN_MOD, c.func) or "").endswith(".map_loss_in_batches"):
                    argt = " ".join(ast.unparse(x) for x in c.args)
                    if "validation" not in argt.lower():
                        out.append(Finding("C19", "C19.TRAIN.roles", "train", "the validation loss is computed on %s, not on the validation data" % argt[:80], path, c.lineno, None, "val-data-role"))
    incs = [a for a in assigns.get(epoch_v, []) if isinstance(a, ast.AugAssign)]
    top_incs = [s for s in lp.body if isinstance(s, ast.AugAssign) and isinstance(s.target, ast.Name) and s.target.id == epoch_v and isinstance(s.op, ast.Add) and isinstance(s.value, ast.Constant) and s.value.value == 1]
    if len(incs) != 1 or len(top_incs) != 1:
        out.append(Finding("C19", "C19.TRAIN.epoch", "train", "the epoch counter %s is not incremented exactly once per iteration" % epoch_v, path, lp.lineno, None, "epoch-increment"))
    # initial values: the stop condition is consulted before the first epoch with epoch 0 and no losses yet
    pre = {}
    for st in fn.body:
        if st is lp:
            break
        if isinstance(st, ast.Assign):
            for tg in st.targets:  # a = b = v, and (a, b) = (v, w)
                if isinstance(tg, ast.Name):
                    pre[tg.id] = (st.value, st.lineno)
                elif isinstance(tg, (ast.Tuple, ast.List)) and isinstance(st.value, (ast.Tuple, ast.List)) and len(tg.elts) == len(st.value.elts):
                    for te, ve in zip(tg.elts, st.value.elts):
                        if isinstance(te, ast.Name):
                            pre[te.id] = (ve, st.lineno)
        elif isinstance(st, ast.AnnAssign) and isinstance(st.target, ast.Name) and st.value is not None:
            pre[st.target.id] = (st.value, st.lineno)
    for v in (epoch_v, tl_v, vl_v):
        if v not in pre or not isinstance(pre[v][0], ast.Constant):
            raise AnalysisError("train: the value of %s before the first epoch is not a literal assignment (%s)" % (v, ast.unparse(pre[v][0]) if v in pre else "none found"))
    e0, e0line = pre[epoch_v]
    if e0.value != 0 or isinstance(e0.value, bool):
        out.append(Finding("C19", "C19.TRAIN.epoch", "train", "the epoch counter %s starts at %r, not 0: an epoch-count condition stops after the wrong number of epochs" % (epoch_v, e0.value), path, e0line, None, "epoch-initial"))
    for v, role in ((tl_v, "training"), (vl_v, "validation")):
        a0, a0line = pre[v]
        if a0.value is not None:
            out.append(Finding("C19", "C19.TRAIN.roles", "train", "before the first epoch the %s loss handed to stop() is %r, not None: a patience condition would record it as a loss" % (role, a0.value), path, a0line, None, "initial-loss"))
    rets = [n for n in ast.walk(fn) if isinstance(n, ast.Return) and n.value is not None]
    stop_obj = ast.unparse(call.func.value)
    for r in rets:
        first = r.value.elts[0] if isinstance(r.value, ast.Tuple) else r.value
        # definite only when the loop's current model (the variable handed to stop()) is returned; any other expression
        # (a local alias of the kept model, a helper call) is left to the semantic train-loop check, which decides it
        cur_model = ast.unparse(call.args[0]) if call.args else None
        if ast.unparse(first) != stop_obj + ".best_model" and ast.unparse(first) == cur_model:
            out.append(Finding("C19", "C19.TRAIN.return", "train", "train returns %s instead of %s.best_model" % (ast.unparse(first), stop_obj), path, r.lineno, None, "returned-model"))
    ctx.ev.instances("C19.TRAIN.stop_calls", 1)
    return out


def train_loop_worker(job):
    """Semantic check of ml.train: the function is abstractly interpreted with its collaborators (get_batches,
    train_step, map_loss_in_batches, the clock, the optimiser) replaced by recording stubs that feed a given loss
    history; the number of epochs trained and the model handed back are compared with the statement, for every
    stopping condition.  Independent of how the loop is written (while / do-while / flag variable)."""
    repo, kind, param, hist = job[:4]
    reused = len(job) > 4 and job[4] == "reused"
    it, w = get_interp(repo)
    ml = it.get_module("ginjax.ml")
    tr = it.get_module(TRAIN_MOD)
    ns = tr.__dict__["ns"]
    log = dict(epochs=0, steps=0, vals=0)
    train_hist = [h[0] for h in hist]
    val_hist = [h[1] for h in hist]

    def get_batches(multi_images, batch_size, rand_key=None, devices=None):  # parameter names as in the repository (keyword calls)
        log["epochs"] += 1
        if log["epochs"] > len(hist):
            raise _HistoryExhausted()
        return [["xb0", "xb1"], ["yb0", "yb1"]]

    def train_step(map_and_loss, model, optim, opt_state, x, y, aux_data=None):
        aux = aux_data
        log["steps"] += 1
        e = log["epochs"]
        return "model@%d.%d" % (e, log["steps"]), opt_state, A.Arr((), [train_hist[e - 1]], "float"), aux

    def map_loss_in_batches(*a, **k):
        log["vals"] += 1
        return A.Arr((), [val_hist[log["epochs"] - 1]], "float")

    class Clock(object):
        @staticmethod
        def time():
            return 0

    class Optim(object):
        @staticmethod
        def init(x):
            return "opt-state"

    saved = {k: ns.get(k) for k in ("get_batches", "train_step", "map_loss_in_batches", "time")}
    ns.update(get_batches=get_batches, train_step=train_step, map_loss_in_batches=map_loss_in_batches, time=Clock)
    problems = []
    cfg = dict(condition=kind, param=param, history=[list(map(str, h)) for h in hist])
    try:
        if kind == "EpochStop":
            cond = ml.EpochStop(param, 0)
        elif kind == "TrainLoss":
            cond = ml.TrainLoss(param[0], param[1], 0)
        else:
            cond = ml.ValLoss(param[0], param[1], 0)
        vx, vy = ("VX", "VY") if kind == "ValLoss" or param == "with-validation" else (None, None)
        if reused:
            # the same condition object was used by an earlier run (another model, an unbeatable loss): whatever train
            # hands back now must be a model of THIS run
            low = A.Arr((), [Fraction(-1000)], "float")
            attempt(lambda: cond.stop("foreign-model-of-an-earlier-run", 1, low, low, 0))
            cfg["condition_reused_from_an_earlier_run"] = True
        try:
            res = attempt(lambda: ml.train("X", "Y", "map_and_loss", "model@0", Key(0), cond, 2, Optim(), vx, vy))
        except _HistoryExhausted:
            res = _HistoryExhausted
    finally:
        for k, v in saved.items():
            if v is None:
                ns.pop(k, None)
            else:
                ns[k] = v
    if isinstance(res, Rejected) and res is not _HistoryExhausted:
        problems.append(("train-rejected", "train raised: %s" % res.exc, cfg))
        return dict(cfg=cfg, problems=problems)
    if reused:
        got_model = res[0] if isinstance(res, tuple) and res is not _HistoryExhausted else res
        if res is _HistoryExhausted:
            problems.append(("train-epochs", "train is still running after %d epochs with a re-used %s(%s) whose best loss cannot be beaten" % (len(hist), kind, param), cfg))
        elif not (isinstance(got_model, str) and got_model.startswith("model@")):
            problems.append(("train-model", "train handed back %r, which is neither the model it was given nor one its own steps produced (the %s object had been used by an earlier run)" % (got_model, kind), cfg))
        return dict(cfg=cfg, problems=problems)
    # reference: the statement's state machine over the fed history
    def model_after(e):
        return "model@0" if e == 0 else "model@%d.%d" % (e, 2 * e)

    if kind == "EpochStop":
        exp_epochs, exp_model = param, model_after(param)
    else:
        patience, delta = param
        series = train_hist if kind == "TrainLoss" else val_hist
        best, since, best_e, exp_epochs = None, 0, 0, None
        for e, loss in enumerate(series, start=1):
            if best is None or loss < best - delta:
                best, since, best_e = loss, 0, e
            else:
                since += 1
            if since > patience:
                exp_epochs = e
                break
        if exp_epochs is None:
            return dict(cfg=cfg, problems=[("history", "the fed history does not make the reference stop (box error)", cfg)])
        exp_model = model_after(best_e)
    if res is _HistoryExhausted:
        problems.append(("train-epochs", "train is still running after %d epochs with %s(%s) on the loss history %s; the statement stops it after epoch %d" % (len(hist), kind, param, [str(x) for x in (train_hist if kind != "ValLoss" else val_hist)], exp_epochs), cfg))
        return dict(cfg=cfg, problems=problems)
    got_model = res[0] if isinstance(res, tuple) else res
    if log["epochs"] != exp_epochs:
        problems.append(("train-epochs", "train ran %d epoch(s) with %s(%s) on the loss history %s; the statement gives %d" % (log["epochs"], kind, param, [str(x) for x in (train_hist if kind != "ValLoss" else val_hist)], exp_epochs), cfg))
    elif got_model != exp_model:
        problems.append(("train-model", "train handed back %r with %s(%s); the statement gives %r" % (got_model, kind, param, exp_model), cfg))
    return dict(cfg=cfg, problems=problems)


class _HistoryExhausted(Exception):
    """The stubbed training loop asked for more epochs than the fed loss history holds."""


def check_siblings(ctx):
    """TrainLoss.stop and ValLoss.stop must be equal up to train<->val renaming."""
    pm = ctx.pm
    a = pm.func(STOP_MOD, "TrainLoss.stop")
    b = pm.func(STOP_MOD, "ValLoss.stop")

    def norm(fn, frm, to):
        body = [s for s in fn.body if not (isinstance(s, ast.Expr) and isinstance(s.value, ast.Constant))]
        txt = "\n".join(ast.unparse(s) for s in body)
        return txt.replace(frm, to)

    ta = norm(a, "train_loss", "@L@").replace("val_loss", "@O@")
    tb = norm(b, "val_loss", "@L@").replace("train_loss", "@O@")
    # log_status argument order is positional (train, val): normalise that call
    import re

    ta = re.sub(r"self\.log_status\([^)]*\)", "self.log_status(...)", ta)
    tb = re.sub(r"self\.log_status\([^)]*\)", "self.log_status(...)", tb)
    return ta == tb


# ------------------------------------------------------------------------------------ AXI transition check


def _num(x):
    from fractions import Fraction as F

    from ..shims import NpScalar
    from .. import arr as A

    if isinstance(x, NpScalar):
        return x.v
    if isinstance(x, A.Arr):
        return x.elems[0] if x.size == 1 and x.is_concrete() else None
    return x


def _mk(kind, v):
    from ..shims import NpScalar
    from .. import arr as A

    if v is None:
        return None
    if kind == "PyFloat":
        return float(v)  # a genuine Python float (the representatives are small integers, exactly representable)
    if kind == "NumPyFloat32":
        return NpScalar(v, "float32")
    if kind == "NumPyFloat64":
        return NpScalar(v, "float64")
    return A.Arr((), [v], "float")


def state_fields(pm, clsname):
    init = pm.func(STOP_MOD, clsname + ".__init__")
    fields = [ast.unparse(t) for st in ast.walk(init) if isinstance(st, ast.Assign) for t in st.targets]
    best_fields = [f for f in fields if f.startswith("self.best_") and f != "self.best_model"]
    counter_fields = [f for f in fields if "since" in f or "counter" in f or "wait" in f]
    if len(best_fields) != 1 or len(counter_fields) != 1:
        # names are not conventional: identify the fields by their role in stop()
        stop = pm.func(STOP_MOD, clsname + ".stop")
        attrs = lambda e: [n for n in ast.walk(e) if isinstance(n, ast.Attribute) and isinstance(n.value, ast.Name) and n.value.id == "self"]
        counter_fields = []
        for r in ast.walk(stop):
            if isinstance(r, ast.Return) and r.value is not None and any(a.attr == "patience" for a in attrs(r.value)):
                counter_fields = ["self." + a.attr for a in attrs(r.value) if a.attr != "patience"]
        init_numeric = []
        for st in ast.walk(init):
            if isinstance(st, ast.Assign) and any(isinstance(n, ast.Attribute) and n.attr == "inf" for n in ast.walk(st.value)):
                init_numeric += [ast.unparse(t) for t in st.targets]
        best_fields = init_numeric
        if len(best_fields) != 1 or len(set(counter_fields)) != 1:
            raise AnalysisError("%s: cannot identify the best-loss / counter state fields (%s / %s)" % (clsname, best_fields, counter_fields))
        counter_fields = [counter_fields[0]]
    return best_fields[0][5:], counter_fields[0][5:]


def transition_worker(job):
    """Abstract interpretation of <cls>.stop on one representative of every order type of
    (loss, best, best - min_delta) x (counter, patience) x value kind; compared with the stated transition."""
    repo, clsname, monitor_index, best_f, counter_f, consts = job
    it, w = get_interp(repo)
    ml = it.get_module("ginjax.ml")
    cls = getattr(ml, clsname)
    problems = []
    base_reported = []
    n = 0
    INF = float("inf")
    narrowing_reported = []
    for kind in KINDS:
        # the loss value 0 (falsy, and the boundary of the non-negative losses) is a representative of its own: a
        # truthiness test or a sign test in stop() separates it from the positive losses
        for delta, best, losses in ((2, 10, (0, 7, 8, 9, 10, 11)), (0, 10, (0, 9, 10, 11)), (2, INF, (0, 5)), (0, INF, (0, 5)), (0, 0, (0, 1)), (2, 1, (0, 1, 2)), (2, 0, (0,))) + tuple((d, b, tuple(consts)) for d in (0, 2) for b in (10, INF) if consts):
            for loss in losses + (None,):
                for counter in (0, 1, 2):
                    for patience in (0, 1, 2):
                        for verbose in (0, 1):
                            n += 1
                            obj = attempt(lambda: cls(patience, delta, verbose))
                            if isinstance(obj, Rejected):
                                return dict(n=n, problems=[("rejected", "%s(patience=%d, min_delta=%d, verbose=%d) rejected: %s" % (clsname, patience, delta, verbose, obj.exc), dict(kind=kind))])
                            at = object.__getattribute__(obj, "attrs")
                            # base case of the induction: a fresh condition has no best loss yet (+inf) and has counted
                            # no non-improving epoch
                            b0, c0 = _num(at.get(best_f)), at.get(counter_f)
                            if (b0 != INF or c0 != 0 or isinstance(c0, bool)) and not base_reported:
                                base_reported.append(1)
                                problems.append(("initial", "a freshly constructed %s starts with best loss %r and non-improving epoch counter %r (expected +inf and 0)" % (clsname, b0, c0), dict(kind=kind, patience=patience, min_delta=delta)))
                            at[best_f] = best
                            at[counter_f] = counter
                            at["best_model"] = "model@best"
                            lv = _mk(kind, loss)
                            other = _mk(kind, 3)  # the non-monitored loss is much better: monitoring it is visible
                            args = ["model@now", 4, lv, other, 0.5] if monitor_index == 2 else ["model@now", 4, other, lv, 0.5]
                            del A.NARROWED[:]
                            res = attempt(lambda: obj.stop(*args))
                            if A.NARROWED and kind == "NumPyFloat64" and not narrowing_reported:
                                narrowing_reported.append(1)
                                problems.append(("narrowing", "stop() turns the np.float64 loss into a JAX array before comparing it (jnp.asarray / jnp.array: float32 unless jax_enable_x64): improvements smaller than float32 resolution become ties and losses above 3.4e38 become inf, so the condition stops early on double-precision histories that the statement covers (float(loss) keeps the value)", dict(kind=kind, patience=patience, min_delta=delta)))
                            cfgd = dict(kind=kind, best=str(best), loss=loss, min_delta=delta, counter=counter, patience=patience, verbose=verbose)
                            if isinstance(res, Rejected):
                                problems.append(("rejected", "stop() raised for a %s loss: %s" % (kind, res.exc), cfgd))
                                continue
                            if loss is None:
                                exp = (False, best, counter, "model@best")
                            elif loss < best - delta:
                                exp = (0 > patience, loss, 0, "model@now")
                            else:
                                exp = (counter + 1 > patience, best, counter + 1, "model@best")
                            got_best = _num(at.get(best_f))
                            got = (bool(res) if not isinstance(res, A.Arr) else bool(res), got_best, at.get(counter_f), at.get("best_model"))
                            if got != exp:
                                what = []
                                names = ("stop result", "best loss", "non-improving epoch counter", "best model")
                                for nm, g, e in zip(names, got, exp):
                                    if g != e:
                                        what.append("%s is %s, expected %s" % (nm, g, e))
                                kindtag = "kind" if (loss is not None and got == (False, best, counter, "model@best")) else "transition"
                                problems.append((kindtag, "; ".join(what), cfgd))
    return dict(n=n, problems=problems)


def epochstop_worker(job):
    repo, = job
    it, w = get_interp(repo)
    ml = it.get_module("ginjax.ml")
    problems = []
    n = 0
    for epochs in (1, 3, 12):
        for verbose in (0, 1, 2):
            for cur in range(0, epochs + 2):
                n += 1
                obj = attempt(lambda: ml.EpochStop(epochs, verbose))
                if isinstance(obj, Rejected):
                    return dict(n=n, problems=[("rejected", "EpochStop rejected: %s" % obj.exc, None)])
                res = attempt(lambda: obj.stop("model@now", cur, 1, None, 0.5))
                if isinstance(res, Rejected):
                    problems.append(("rejected", "EpochStop.stop raised: %s" % res.exc, dict(epochs=epochs, epoch=cur, verbose=verbose)))
                    continue
                at = object.__getattribute__(obj, "attrs")
                if bool(res) != (cur >= epochs) or at.get("best_model") != "model@now":
                    problems.append(("epochstop", "EpochStop(%d).stop at epoch %d returns %s and hands back %s (expected %s and the current model)" % (epochs, cur, bool(res), at.get("best_model"), cur >= epochs), dict(epochs=epochs, epoch=cur, verbose=verbose)))
    return dict(n=n, problems=problems)


def run(ctx):
    ev, pm = ctx.ev, ctx.pm
    ev.explanation = (
        "(1) Semantic transition check: TrainLoss/ValLoss/EpochStop.stop are abstractly interpreted (working tree) from one representative of every order type of (loss, best, best-min_delta) x (counter, patience) x value kind (Python float, np.float32, np.float64, JAX scalar), and the resulting (stop, best, counter, best_model) is compared with the transition of the statement -- robust to any re-formulation of the method; (2) control-flow path enumeration of the same methods (AST): every path is normalised to roles "
        "(monitored loss, best, min_delta, counter, patience, model) and compared with the transition function of the statement; because the check is on the "
        "transition function, it covers every loss history by induction. KIND: each early-exit guard is evaluated on an isinstance class table for Python floats, "
        "NumPy float32/float64 scalars and JAX scalars -- the kinds the statement lists and train() supplies; a guard that diverts one of them is a violation. "
        "train(): argument roles at the stop() call, one epoch increment per iteration, returned model."
    )
    ev.rule_text = "rule instances = control-flow paths of the three stop methods x value kinds, plus the stop() call site in train"
    ev.assumptions = ["comparison of a loss with a float behaves as on real numbers (NaN not considered)", "float(x) / x.item() preserve the value", "isinstance class table: float ⊇ {Python float, np.float64}; np.floating ⊇ NumPy float scalars; jax.Array ⊇ JAX scalars"]
    findings = []
    cf_notes = []
    for clsname, mi, hint in (("TrainLoss", 2, "train"), ("ValLoss", 3, "val")):
        try:
            findings += check_patience(ctx, clsname, mi, hint)
        except AnalysisError as e:
            # the syntactic normal form is not recognised: the semantic transition check below decides
            cf_notes.append(str(e))
    try:
        findings += check_epochstop(ctx)
    except AnalysisError as e:
        cf_notes.append(str(e))
    ev.extra["cf_notes"] = cf_notes
    try:
        findings += check_train(ctx)
    except AnalysisError as e:
        # the syntactic form of the loop is not recognised: the semantic train-loop check below decides
        cf_notes.append(str(e))
        ev.extra["cf_notes"] = cf_notes
    # DONATE: the model stop() keeps by reference must not reach a buffer-donating compiled step (use-after-donate of the best model)
    from .. import donate

    donate.apply(ctx, "C19")
    # semantic train-loop check (decides): ml.train with stubbed collaborators, fed loss histories
    H = [(5, 9), (4, 8), (4, 9), (3, 7), (3, 7), (3, 8), (2, 8), (2, 9), (2, 9), (2, 9), (2, 9), (2, 9)]
    lj = [(ctx.repo, "EpochStop", n, H) for n in (0, 1, 2, 3)]
    lj += [(ctx.repo, "EpochStop", n, H) for n in (1,)]
    for patience in (0, 1, 2, 3):
        for delta in (0, 1):
            lj.append((ctx.repo, "TrainLoss", (patience, delta), H))
            lj.append((ctx.repo, "ValLoss", (patience, delta), H))
    lj.append((ctx.repo, "TrainLoss", (1, 0), [(3, 1), (3, 1), (2, 1), (2, 1), (2, 1), (2, 1)]))
    lj.append((ctx.repo, "ValLoss", (1, 0), [(1, 2), (1, 2), (1, 1), (1, 1), (1, 1), (1, 1)]))
    for patience in (0, 2):
        lj.append((ctx.repo, "TrainLoss", (patience, 0), H, "reused"))
        lj.append((ctx.repo, "ValLoss", (patience, 0), H, "reused"))
    n_loop = 0
    for job, r in ctx.pairs(train_loop_worker, lj):
        n_loop += 1
        ev.obligation("train-loop", not r["problems"], (job[1], str(job[2]), len(job[3])), sample=r["cfg"] if n_loop % 7 == 0 else None)
        for kind, what, cfgd in r["problems"]:
            findings.append(Finding("C19", "C19.TRAIN." + kind, "train", what, pm.path(TRAIN_MOD), pm.func(TRAIN_MOD, "train").lineno, cfgd, kind + ":" + job[1]))
    ev.instances("C19.TRAIN.loop_runs", n_loop, floor=20)
    # semantic transition check (decides): abstract interpretation of stop() on representatives of every order type
    tj = []
    for clsname, mi in (("TrainLoss", 2), ("ValLoss", 3)):
        bf, cf = state_fields(pm, clsname)
        # every numeric literal of the method (and its neighbours) is a loss representative: a comparison with a
        # literal in stop() splits the order types there
        lits = set()
        for n in ast.walk(pm.func(STOP_MOD, clsname + ".stop")):
            if isinstance(n, ast.Constant) and isinstance(n.value, (int, float)) and not isinstance(n.value, bool) and 0 <= n.value < 10**6:
                lits.update(v for v in (n.value - 1, n.value, n.value + 1) if v >= 0)
        tj.append((ctx.repo, clsname, mi, bf, cf, tuple(sorted(lits - {0, 5, 7, 8, 9, 10, 11}))))
    n_axi = 0
    for job, r in ctx.pairs(transition_worker, tj):
        n_axi += r["n"]
        seen_k = {}
        for kind, what, cfgd in r["problems"]:
            key = (kind, what.split(";")[0][:40])
            if key in seen_k:
                seen_k[key][1] += 1
                continue
            seen_k[key] = [(kind, what, cfgd), 1]
        fn = pm.func(STOP_MOD, job[1] + ".stop")
        for (kind, what, cfgd), cnt in seen_k.values():
            rule = "C19.KIND" if kind == "kind" else "C19.AXI." + kind
            wit = "loss-kind" if kind == "kind" else kind
            msg = what if kind != "kind" else "a %s loss never reaches the state machine (%s): the condition ignores the values train() passes" % (cfgd["kind"], what)
            findings.append(Finding("C19", rule, job[1] + ".stop", "%s (%d of the representative states fail)" % (msg, cnt), pm.path(STOP_MOD), fn.lineno, cfgd, wit))
    for job, r in ctx.pairs(epochstop_worker, [(ctx.repo,)]):
        n_axi += r["n"]
        if r["problems"]:
            kind, what, cfgd = r["problems"][0]
            fn = pm.func(STOP_MOD, "EpochStop.stop")
            findings.append(Finding("C19", "C19.AXI." + kind, "EpochStop.stop", "%s (%d of the representative states fail)" % (what, len(r["problems"])), pm.path(STOP_MOD), fn.lineno, cfgd, kind))
    ev.instances("C19.AXI.representative_states", n_axi, floor=1000)
    same = check_siblings(ctx)
    ev.extra["siblings_equal_up_to_renaming"] = same
    n = 0
    seen = set()
    for f in findings:
        k = (f.key(), f.what)
        if k in seen:
            continue
        seen.add(k)
        ctx.add(f)
    total = ev.rule_instances.get("C19.CF.paths", 0)
    ev.obligations = total * len(KINDS) + 4 + n_axi
    ev.discharged = ev.obligations - len(seen)
    ev.evaluations = ev.obligations
    for kind in KINDS:
        for c in ("TrainLoss", "ValLoss"):
            ev.nontrivial.add((c, kind))
    ev.samples = [dict(cls="TrainLoss", path="loss is not None, loss < best - min_delta", kinds=KINDS), dict(cls="ValLoss", path="no improvement: counter += 1; return counter > patience"), dict(site="train: while not stop_condition.stop(model, epoch, epoch_loss, epoch_val_loss, epoch_time)")]
    ev.exhaustive = True
