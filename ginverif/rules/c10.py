"""C10 -- symmetrisation wrappers make any inner model equivariant.

Deciding method: abstract interpretation of models.GroupAverage / Climate1D / ModelWrapper (working
tree) with the inner model an *uninterpreted function symbol* of its complete input.  Because equal
inputs give equal symbols, wrapper(h.x) and h.wrapper(x) can be compared as exact terms: equality is
equivariance for every inner model.  Additionally: the result equals the group-average definition,
averaging-off returns the inner result, to1d/from1d is a lossless round trip, the longitude flip becomes
the 1-D reflection, get_1d_signature agrees with to1d.
"""

import itertools

from .. import arr as A
from ..poly import Poly, as_poly, sym_id, pk
from ..report import Finding
from .common import *
from .c02 import group, spec_action, matmul


AUX0 = "state-0"


class InnerModel(object):
    """Uninterpreted model: each output element is a function symbol of the whole input (values, types, order by type)."""

    def __init__(self, it, out_sig, D, spatial_of=None, is_torus=True):
        self.it = it
        self.out_sig = out_sig
        self.D = D
        self.spatial_of = spatial_of
        self.is_torus = is_torus
        self.n_calls = 0

    def __call__(self, x, aux=None):
        self.n_calls += 1
        MI = self.it.get_module(GEOM).MultiImage
        # the model may be stateful: its output is a function of the input *and* of the auxiliary state it is handed,
        # and it hands back a new state
        key = (tuple((t, x[t].shape, tuple(pk(e) for e in x[t].elems)) for t in sorted(x.keys())), repr(aux))
        kid = sym_id(("appkey", key))
        sp = x.get_spatial_dims() if self.spatial_of is None else self.spatial_of
        blocks = {}
        for t, c in self.out_sig:
            shape = (c,) + tuple(sp) + (self.D,) * t[0]
            n = 1
            for s in shape:
                n *= s
            blocks[t] = A.Arr(shape, [Poly.fn("M", kid, t, i) for i in range(n)], "float")
        return MI(blocks, x.D, x.is_torus), (None if aux is None else ("state-after", kid))


def act(blocks, D, g, nlead=1):
    out = {}
    for t, b in blocks.items():
        flat = A.reshape(b, (-1,) + b.shape[nlead:])
        ex = [spec_action(flat[i], D, t[0], t[1], g)[0] for i in range(flat.shape[0])]
        out[t] = A.reshape(A.stack(ex, 0), b.shape[:nlead] + ex[0].shape)
    return out


def transpose(g):
    return [list(r) for r in zip(*g)]


SUBGROUPS = {
    "B2": lambda: group(2),
    "rot": lambda: [g for g in group(2) if g[0][0] * g[1][1] - g[0][1] * g[1][0] == 1],
    "C2xC2": lambda: [g for g in group(2) if g[0][1] == 0],
    "trivial": lambda: [[[1, 0], [0, 1]]],
    "flipx": lambda: [[[1, 0], [0, 1]], [[-1, 0], [0, 1]]],
}


def ga_worker(job):
    repo, gname, sig, out_sig, hi, mode = job
    it, w = get_interp(repo)
    models = it.get_module(MODELS_MOD)
    D = 2
    G = SUBGROUPS[gname.split(":")[0]]()
    if gname.endswith(":reversed"):
        G = list(reversed(G))  # the identity is then the last operator of the list
    elif gname.endswith(":rotated"):
        G = G[1:] + G[:1]
    N = (3, 3)  # square: every element maps the grid to itself
    sig = [(tuple(t), c) for t, c in sig]
    out_sig = [(tuple(t), c) for t, c in out_sig]
    xb = {t: block("x", t, (c,), N, D) for t, c in sig}
    x = make_multi(it, [t for t, _ in sig], xb, D, True)
    cfg = dict(group=gname, order=len(G), input=[[list(t), c] for t, c in sig], output=[[list(t), c] for t, c in out_sig], mode=mode, h=hi)
    problems = []
    inner = InnerModel(it, out_sig, D)
    ops = [A.as_arr(g) for g in G]
    if mode == "off":
        wrapper = models.GroupAverage(inner, ops, False, False)
        res = attempt(lambda: wrapper(x, AUX0))
        direct, direct_aux = inner(x, AUX0)
        if isinstance(res, Rejected):
            problems.append(("rejected", "wrapper rejected the input: %s" % res.exc, None))
        else:
            out, aux = res
            for t, _ in out_sig:
                if t not in out or not same_elems(out[t], direct[t]):
                    problems.append(("off", "with averaging off the result is not the inner model's result (block %s)" % tname(t), None))
                    break
            if aux != direct_aux:
                problems.append(("off", "with averaging off the returned state is %r, not the inner model's %r" % (aux, direct_aux), None))
        return dict(cfg=cfg, problems=problems)
    wrapper = models.GroupAverage(inner, ops, mode == "always", mode == "inference")
    res = attempt(lambda: wrapper(x, AUX0))
    if isinstance(res, Rejected):
        problems.append(("rejected", "wrapper rejected the input: %s" % res.exc, None))
        return dict(cfg=cfg, problems=problems)
    out, aux = res
    # definition: (1/|G|) sum_g g^-1 . M(g . x)
    spec_inner = InnerModel(it, out_sig, D)
    acc = None
    for g in G:
        gx = act(xb, D, g)
        mx, _ = spec_inner(make_multi(it, sorted(gx), gx, D, True), AUX0)  # every copy sees the caller's state
        back = act({t: mx[t] for t, _ in out_sig}, D, transpose(g))
        acc = back if acc is None else {t: acc[t] + back[t] for t in back}
    exp = {t: acc[t] * A.as_arr(1) / len(G) for t in acc}
    for t, _ in out_sig:
        if t not in out:
            problems.append(("types", "output lacks type %s" % tname(t), None))
        elif not same_elems(out[t], exp[t]):
            problems.append(("definition", "block %s is not the group average (1/|G|) sum_g g^-1.M(g.x): %s" % (tname(t), first_diff(out[t], exp[t])), site_of(out[t])))
    # the average is handed back with the inner model's declared output types in the inner model's order (a wrapper that
    # re-orders the blocks -- e.g. by a pytree round trip that sorts the keys -- breaks block-for-block use against a target)
    want_order = [tuple(t) for t, _ in out_sig]
    if not problems and list(out.keys()) != want_order:
        problems.append(("order", "the averaged output holds its types in order %s; the inner model emits %s" % (list(out.keys()), want_order), None))
    if problems:
        return dict(cfg=cfg, problems=problems)
    # direct equivariance for the uninterpreted inner model: wrapper(h.x) == h.wrapper(x)
    h = G[hi % len(G)]
    hx = act(xb, D, h)
    res2 = attempt(lambda: wrapper(make_multi(it, [t for t, _ in sig], hx, D, True), AUX0))
    if isinstance(res2, Rejected):
        problems.append(("rejected", "wrapper rejected the transformed input: %s" % res2.exc, None))
        return dict(cfg=cfg, problems=problems)
    lhs = res2[0]
    rhs = act({t: out[t] for t, _ in out_sig}, D, h)
    for t, _ in out_sig:
        if not same_elems(lhs[t], rhs[t]):
            problems.append(("equivariance", "wrapper(h.x) != h.wrapper(x) for block %s and h=%s: %s" % (tname(t), h, first_diff(lhs[t], rhs[t])), site_of(lhs[t])))
            break
    return dict(cfg=cfg, problems=problems)


def climate_worker(job):
    repo, what, order, chans, past, consts, lons, lats = job[:8]
    future = job[8] if len(job) > 8 else past
    it, w = get_interp(repo)
    models = it.get_module(MODELS_MOD)
    geom = it.get_module(GEOM)
    D = 2
    N = (lons, lats)
    order = [tuple(t) for t in order]
    chans = {tuple(t): c for t, c in chans}
    consts = {tuple(t): c for t, c in consts}
    flags = (True, False)
    xb = {}
    for t in order:
        xb[t] = block("x", t, (chans.get(t, 0) * past + consts.get(t, 0),), N, D)
    x = make_multi(it, order, xb, D, flags)
    out_keys = tuple((t, chans[t] * future) for t in sorted(chans) if chans[t] > 0)
    cfg = dict(check=what, order=[list(t) for t in order], channels={tname(t): c for t, c in chans.items()}, past_steps=past, future_steps=future, constants={tname(t): c for t, c in consts.items()}, lons=lons, lats=lats)
    problems = []
    sig1d = attempt(lambda: models.Climate1D.get_1d_signature(x.get_signature(), lats))
    inner_out = tuple((t, c) for t, c in (sig1d if not isinstance(sig1d, Rejected) else ()))
    inner = InnerModel(it, [(tuple(t), c) for t, c in _out1d(chans, future, lats)], 1)
    wrapper = models.Climate1D(inner, out_keys, past, future, N, consts, flags)
    if what == "roundtrip":
        res = attempt(lambda: wrapper.from1d(wrapper.to1d(x)))
        if isinstance(res, Rejected):
            problems.append(("rejected", "from1d(to1d(x)) rejected: %s" % res.exc, None))
        else:
            for t in order:
                if t not in res or not same_elems(res[t], xb[t]):
                    problems.append(("roundtrip", "from1d(to1d(x)) does not restore block %s: %s" % (tname(t), first_diff(res[t], xb[t]) if t in res else "missing"), site_of(res[t]) if t in res else None))
                    break
            if is_multi(res) and (res.D != 2 or tuple(res.is_torus) != flags):
                problems.append(("meta", "from1d gives D=%r is_torus=%r" % (res.D, res.is_torus), None))
    elif what == "signature":
        one = attempt(lambda: wrapper.to1d(x))
        if isinstance(one, Rejected) or isinstance(sig1d, Rejected):
            problems.append(("rejected", "to1d / get_1d_signature rejected: %s" % (one.exc if isinstance(one, Rejected) else sig1d.exc), None))
        else:
            got = {t: c for t, c in one.get_signature()}
            want = {tuple(t): c for t, c in sig1d}
            sig_d = attempt(lambda: models.Climate1D.get_1d_signature({t: c for t, c in x.get_signature()}, lats))
            if isinstance(sig_d, Rejected) or {tuple(t): c for t, c in sig_d} != want:
                problems.append(("signature", "get_1d_signature gives %s for the dict form of the signature and %s for the tuple form" % (sig_d, sorted(want.items())), None))
            if got != want:
                problems.append(("signature", "get_1d_signature says %s but to1d produces %s" % (sorted(want.items()), sorted(got.items())), None))
            if one.D != 1:
                problems.append(("meta", "to1d gives D=%r" % one.D, None))
    elif what == "lonflip":
        lon = [[-1, 0], [0, 1]]
        fx = act(xb, D, lon)
        a = attempt(lambda: wrapper.to1d(make_multi(it, order, fx, D, flags)))
        b = attempt(lambda: wrapper.to1d(x))
        if isinstance(a, Rejected) or isinstance(b, Rejected):
            problems.append(("rejected", "to1d rejected: %s" % (a.exc if isinstance(a, Rejected) else b.exc), None))
        else:
            bb = act({t: b[t] for t in b.keys()}, 1, [[-1]])
            for t in bb:
                if t not in a or not same_elems(a[t], bb[t]):
                    problems.append(("lonflip", "to1d(longitude flip of x) is not the 1-D reflection of to1d(x) for 1-D type %s: %s" % (tname(t), first_diff(a[t], bb[t]) if t in a else "missing"), None))
                    break
    elif what == "equator":
        eq = [[1, 0], [0, -1]]
        r1 = attempt(lambda: wrapper(x, None))
        ex = act(xb, D, eq)
        r2 = attempt(lambda: wrapper(make_multi(it, order, ex, D, flags), None))
        if isinstance(r1, Rejected) or isinstance(r2, Rejected):
            problems.append(("rejected", "wrapper rejected: %s" % (r1.exc if isinstance(r1, Rejected) else r2.exc), None))
        else:
            o1, o2 = r1[0], r2[0]
            rhs = act({t: o1[t] for t in o1.keys()}, D, eq)
            for t in rhs:
                if t not in o2 or not same_elems(o2[t], rhs[t]):
                    problems.append(("equivariance", "Climate1D(e.x) != e.Climate1D(x) for block %s (e = equator reflection): %s" % (tname(t), first_diff(o2[t], rhs[t]) if t in o2 else "missing"), None))
                    break
    return dict(cfg=cfg, problems=problems)


def _out1d(chans, past, lats):
    s = (chans.get((0, 0), 0) + chans.get((1, 0), 0)) * past * lats
    ps = (chans.get((0, 1), 0) + chans.get((1, 0), 0)) * past * lats
    out = []
    if s:
        out.append(((0, 0), s))
    if ps:
        out.append(((0, 1), ps))
    return out


def mw_worker(job):
    repo, D, order, nl_batch = job
    it, w = get_interp(repo)
    models = it.get_module(MODELS_MOD)
    order = [tuple(t) for t in order]
    sp = SPATIAL[D]
    ch = {t: 1 + (i % 2) for i, t in enumerate(order)}
    xb = {t: block("x", t, (ch[t],), sp, D) for t in order}
    x = make_multi(it, order, xb, D, True)
    out_keys = tuple((t, ch[t]) for t in order)

    class Ident(object):
        def __call__(self, a, *r):
            return a

    seen_aux = []

    class IdentAux(object):
        def __call__(self, a, aux):
            seen_aux.append(aux)
            return a, ("aux-out", aux)

    cfg = dict(D=D, order=[list(t) for t in order], pass_aux_data=bool(nl_batch))
    problems = []
    out_flags = (True, False, True)[:D]
    if nl_batch:
        wrapper = models.ModelWrapper(D, IdentAux(), out_keys, out_flags, True)
        res = attempt(lambda: wrapper(x, "aux-in"))
    else:
        wrapper = models.ModelWrapper(D, Ident(), out_keys, out_flags, False)
        res = attempt(lambda: wrapper(x, "aux-in"))
    if isinstance(res, Rejected):
        problems.append(("rejected", "ModelWrapper rejected: %s" % res.exc, None))
    else:
        out = res[0]
        for t in order:
            if t not in out or not same_elems(out[t], xb[t]):
                problems.append(("roundtrip", "ModelWrapper around the identity does not restore block %s" % tname(t), None))
                break
        if is_multi(out) and (out.D != D or tuple(out.is_torus) != out_flags or [k for k in out.keys()] != order):
            problems.append(("meta", "ModelWrapper output has D=%r is_torus=%r types %s; expected D=%d is_torus=%r types %s" % (out.D, out.is_torus, list(out.keys()), D, out_flags, order), None))
        if nl_batch and (seen_aux != ["aux-in"] or res[1] != ("aux-out", "aux-in")):
            problems.append(("aux", "with pass_aux_data the inner model saw aux %r and the wrapper returned %r" % (seen_aux, res[1]), None))
        if not nl_batch and res[1] != "aux-in":
            problems.append(("aux", "without pass_aux_data the wrapper returned aux %r instead of the one it was given" % (res[1],), None))
    return dict(cfg=cfg, problems=problems)


def run(ctx):
    ev, pm = ctx.ev, ctx.pm
    ev.explanation = (
        "Abstract interpretation of models.GroupAverage, Climate1D and ModelWrapper with the inner model an uninterpreted function symbol of its complete input: "
        "(a) the wrapper output equals (1/|G|) sum_g g^-1.M(g.x) for B_2 and subgroups (rotations, C2xC2, one flip, trivial), all types incl. pseudo-types; "
        "(b) wrapper(h.x) == h.wrapper(x) as exact terms for every h in G -- equality of terms with an uninterpreted M is equivariance for every inner model; "
        "(c) averaging off returns the inner result; (d) Climate1D: from1d(to1d(x)) == x for every insertion order, the longitude flip becomes the 1-D reflection, "
        "get_1d_signature agrees with to1d, and the wrapper commutes with the equator reflection for an uninterpreted 1-D model; (e) ModelWrapper around the identity restores its input."
    )
    ev.rule_text = "one obligation per (wrapper, group/subgroup, group element h, signature incl. pseudo-types, insertion order, step counts, extents)"
    ev.assumptions = ["the operators passed to GroupAverage are closed under product (caller's premise)", "the group action itself is decided by C02"]
    for q in ("GroupAverage.__call__", "Climate1D.__call__", "Climate1D.to1d", "Climate1D.from1d", "Climate1D.get_1d_signature", "ModelWrapper.__call__"):
        pm.func(MODELS_MOD, q)
        ev.functions.add(MODELS_MOD + "." + q)
    th = ctx.thorough()
    jobs = []
    sigs = [([((0, 0), 1)], [((0, 0), 1)]), ([((0, 0), 1), ((1, 0), 1)], [((1, 0), 1), ((0, 1), 1)]), ([((1, 1), 1)], [((1, 1), 1), ((0, 0), 1)])]
    if th:
        sigs.append(([((2, 0), 1), ((0, 1), 1)], [((2, 0), 1)]))
    for gname in list(SUBGROUPS) + ["B2:reversed", "rot:rotated", "C2xC2:reversed", "flipx:reversed"]:
        n = len(SUBGROUPS[gname.split(":")[0]]())
        if ":" in gname and not th and gname not in ("rot:rotated", "flipx:reversed"):
            continue
        for sig, osig in sigs:
            if ":" in gname and sig is not sigs[1][0]:
                continue
            for mode in ("always", "inference"):
                hs = range(n) if th else sorted(set([0, 1 % n, (n - 1), 3 % n]))
                if not th and mode == "inference":
                    hs = [1 % n]
                for hi in hs:
                    jobs.append((ctx.repo, gname, sig, osig, hi, mode))
            jobs.append((ctx.repo, gname, sig, osig, 0, "off"))
    by = {}
    for job, r in ctx.pairs(ga_worker, jobs):
        cfg = r["cfg"]
        ev.obligation("groupaverage", not r["problems"], tuple(str(v) for v in cfg.values()) if cfg["order"] > 1 else None, sample=cfg if ev.obligations % 19 == 0 else None)
        for kind, what, site in r["problems"]:
            by.setdefault(("GroupAverage.__call__", kind), []).append((what, site, cfg))
    cj = []
    T = [(0, 0), (0, 1), (1, 0)]
    for n in (1, 2, 3):
        for comb in itertools.combinations(T, n):
            for order in perms(comb):
                chans = [(t, 1 + (i % 2)) for i, t in enumerate(sorted(comb))]
                for past in (1, 2):
                    for lons, lats in ((3, 2), (2, 3)) if th else ((3, 2),):
                        for what in ("roundtrip", "signature", "lonflip", "equator"):
                            if what == "equator" and not th and (past == 2 or len(comb) == 2 and order != tuple(sorted(comb))):
                                continue
                            cj.append((ctx.repo, what, order, chans, past, [], lons, lats))
                        if lons == 3 and (th or order == tuple(sorted(comb))):
                            # different numbers of past and future steps: to1d uses the former, from1d the latter
                            cj.append((ctx.repo, "equator", order, chans, past, [], lons, lats, 3 - past))
                        if past == 1:
                            # with constant fields: signature + lonflip only (the round trip is stated without constants)
                            cst = [(order[0], 1)] if order[0][0] == 0 else []
                            if cst:
                                cj.append((ctx.repo, "signature", order, chans, past, cst, lons, lats))
                                cj.append((ctx.repo, "lonflip", order, chans, past, cst, lons, lats))
                                # the wrapper must reflect the constant fields together with the dynamic ones
                                cj.append((ctx.repo, "equator", order, chans, past, cst, lons, lats))
                        if order == tuple(sorted(comb)) and (th or past == 1):
                            # constant fields of every order-0 type present, two of the last one (to1d supports
                            # constant scalars and pseudo-scalars only: a constant vector field is rejected by an assertion)
                            k0 = [t for t in sorted(comb) if t[0] == 0]
                            cst2 = [(t, 1 + (i == len(k0) - 1)) for i, t in enumerate(k0)]
                            for what in ("equator", "lonflip", "signature") if cst2 else ():
                                cj.append((ctx.repo, what, order, chans, past, cst2, lons, lats))
    for job, r in ctx.pairs(climate_worker, cj):
        cfg = r["cfg"]
        ev.obligation("climate", not r["problems"], tuple(str(v) for v in cfg.values()) if len(cfg["order"]) > 1 else None, sample=cfg if ev.obligations % 43 == 0 else None)
        q = {"roundtrip": "Climate1D.to1d", "signature": "Climate1D.get_1d_signature", "lonflip": "Climate1D.to1d", "equator": "Climate1D.__call__"}[cfg["check"]]
        for kind, what, site in r["problems"]:
            by.setdefault((q, kind), []).append((what, site, cfg))
    mj = [(ctx.repo, D, order, aux) for D in (2, 3) for order in ([(0, 0)], [(1, 0), (0, 0)], [(2, 0), (0, 1), (1, 1)]) for aux in (0, 1)]
    for job, r in ctx.pairs(mw_worker, mj):
        cfg = r["cfg"]
        ev.obligation("modelwrapper", not r["problems"], tuple(str(v) for v in cfg.values()), sample=None)
        for kind, what, site in r["problems"]:
            by.setdefault(("ModelWrapper.__call__", kind), []).append((what, site, cfg))
    for (q, kind), items in sorted(by.items()):
        what, site, cfg = items[0]
        node = pm.func(MODELS_MOD, q)
        witness = kind
        if kind == "roundtrip" and q.startswith("Climate1D"):
            witness = "insertion-order" if all(c["order"] != sorted(c["order"]) for _, _, c in items) else kind
        ctx.add(Finding("C10", "C10.AXI." + kind, q, "%s (%d of the swept configurations fail)" % (what, len(items)), pm.path(MODELS_MOD), node.lineno, cfg, witness))
    ev.instances("C10.AXI.obligations", ev.obligations, floor=150 if ctx.tier == "quick" else 400)
    ev.exhaustive = False
