"""C09 -- training cannot break equivariance.

The guarantee is structural: (a) C06-C08 decide equivariance with every learnable parameter a free
symbol, i.e. for every value training can reach; what remains is the invariant filter bank, which is an
array leaf of the model and would be moved by the optimiser unless its gradient vanishes.
Deciding method here: (b) TAINT -- abstract interpretation of ConvContract and of whole equivariant models
in which every symbol that passes through jax.lax.stop_gradient is renamed sg(symbol): no bank symbol may
reach an output un-wrapped (zero gradient => the optimiser changes the bank at most by weight decay's
common rescaling); AST who-may-write rule for the field; (c) AST rules on train_step / train: the
gradient is taken w.r.t. the model argument, the model changes only through optim.update +
eqx.apply_updates, train hands the updated model on and returns the stop condition's best model.
"""

import ast

from .. import arr as A
from ..poly import as_poly, leaf_names, leaves_of
from ..report import Finding, AnalysisError
from ..shims import Key
from .common import *
from ..shims import tree_map
from .equiv import *
from .modelbox import build_model, spatial_for


def taint_worker(job):
    repo, spec = job
    it, w = get_interp(repo)
    # stop_gradient only protects a value when it is executed inside the differentiated forward pass; applied
    # at construction time (outside any trace) it is the identity.  So symbols are renamed sg(.) only while the
    # layer / model is being *called*, never while it is being built.
    w.mark_stop_gradient = False
    A.set_cut(24 if spec["cls"] != "ConvContract" else None)
    cfg = dict(spec)
    problems = []
    try:
        D = spec["D"]
        in_sig = [(tuple(t), c) for t, c in spec["input"]]
        out_sig = [(tuple(t), c) for t, c in spec["output"]]
        N = (3,) * D
        if spec["cls"] == "ConvContract":
            ml = it.get_module("ginjax.ml")
            kinds = sorted({(s[0] + t[0], (s[1] + t[1]) % 2) for (s, _), (t, _) in [(a, b) for a in in_sig for b in out_sig]})
            fb = {t: A.leaf("F%s" % tname(t), (2,) + (3,) * D + (D,) * t[0]) for t in kinds}
            bank = make_multi(it, kinds, fb, D, True)
            layer = ml.ConvContract(tuple(in_sig), tuple(out_sig), bank, spec.get("use_bias", "auto"), 1, None, None, 1, Key(0))
            xb = {t: block("x", t, (c,), N, D) for t, c in in_sig}
            x = make_multi(it, [t for t, _ in in_sig], xb, D, True)
            w.mark_stop_gradient = True
            if spec.get("fast"):
                y = attempt(lambda: layer.fast_convolve(x, layer.weights))
            else:
                y = attempt(lambda: layer(x))
        else:
            model = build_model(it, w, dict(spec), generic_bank=False) if False else None
            # tracked bank of plain symbols (invariance is irrelevant for the taint question)
            from .modelbox import needed_kinds
            models = it.get_module(MODELS_MOD)
            model = attempt(lambda: build_model(it, w, dict(spec, _plain_bank=True)))
            if isinstance(model, Rejected):
                problems.append(("rejected", "constructor rejected: %s" % model.exc, None))
                return dict(cfg=cfg, problems=problems)
            N = spatial_for(spec)
            xb = {t: block("x", t, (c,), N, D) for t, c in in_sig}
            w.mark_stop_gradient = True
            r = attempt(lambda: model(make_multi(it, [t for t, _ in in_sig], xb, D, True)))
            y = r if isinstance(r, Rejected) else r[0]
        if isinstance(y, Rejected):
            problems.append(("rejected", "rejected: %s" % y.exc, None))
            return dict(cfg=cfg, problems=problems)
        n_dep = 0
        for t in y.keys():
            for e in y[t].elems:
                names = leaf_names(as_poly(e))
                bad = sorted(n for n in names if n.startswith("F(") or n.startswith("U("))
                n_dep += 1
                if bad:
                    problems.append(("taint", "output block %s depends on the filter bank (%s) without passing through jax.lax.stop_gradient: the bank receives a gradient and is changed by training" % (tname(t), ", ".join(bad[:3])), site_of(y[t])))
                    return dict(cfg=cfg, problems=problems)
        cfg["elements_checked"] = n_dep
    finally:
        w.mark_stop_gradient = False
        A.set_cut(None)
    return dict(cfg=cfg, problems=problems)


def roundtrip_worker(job):
    """One optimisation step hands the model through pytree flatten / unflatten (filter_jit, filter_value_and_grad,
    apply_updates), which re-creates every dict field with its keys SORTED.  The function the model computes must not
    depend on that: model'(x) == model(x), same types in the same order, for every parameter value and input."""
    repo, spec = job
    it, w = get_interp(repo)
    A.set_cut(24 if spec["cls"] != "ConvContract" else None)
    cfg = dict(spec)
    problems = []
    try:
        D = spec["D"]
        in_sig = [(tuple(t), c) for t, c in spec["input"]]
        out_sig = [(tuple(t), c) for t, c in spec["output"]]
        if spec["cls"] == "ConvContract":
            ml = it.get_module("ginjax.ml")
            N = (3,) * D
            kinds = sorted({(s[0] + t[0], (s[1] + t[1]) % 2) for (s, _) in in_sig for (t, _) in out_sig})
            fb = {t: A.leaf("F%s" % tname(t), (2,) + (3,) * D + (D,) * t[0]) for t in kinds}
            bank = make_multi(it, list(reversed(kinds)), fb, D, True)
            model = attempt(lambda: ml.ConvContract(tuple(in_sig), tuple(out_sig), bank, spec.get("use_bias", "auto"), 1, None, None, 1, Key(0)))
        else:
            model = attempt(lambda: build_model(it, w, dict(spec, _plain_bank=True)))
            N = spatial_for(spec)
        if isinstance(model, Rejected):
            problems.append(("rejected", "constructor rejected: %s" % model.exc, None))
            return dict(cfg=cfg, problems=problems)
        from .c08 import symbolise

        symbolise(model, "p")
        xb = {t: block("x", t, (c,), N, D) for t, c in in_sig}
        x = make_multi(it, [t for t, _ in in_sig], xb, D, True)
        call = (lambda m: m(x)) if spec["cls"] == "ConvContract" else (lambda m: m(x)[0])
        y1 = attempt(lambda: call(model))
        model2 = tree_map(lambda a: a, model)
        y2 = attempt(lambda: call(model2))
        if isinstance(y1, Rejected) or isinstance(y2, Rejected):
            if isinstance(y1, Rejected) != isinstance(y2, Rejected):
                problems.append(("structure", "after a pytree round trip of the model (what every training step does) the call %s" % ("is rejected: %s" % y2.exc if isinstance(y2, Rejected) else "is accepted while the fresh model rejects it"), None))
            return dict(cfg=cfg, problems=problems)
        k1, k2 = [tuple(k) for k in y1.keys()], [tuple(k) for k in y2.keys()]
        if k1 != k2:
            problems.append(("structure", "after a pytree round trip of the model (what every training step does) the output types come back as %s instead of %s" % (k2, k1), None))
        else:
            for t in k1:
                if not same_elems(y1[t], y2[t]):
                    problems.append(("structure", "after a pytree round trip of the model (dict fields re-created with sorted keys, as every training step does) output block %s is computed differently: %s" % (tname(t), first_diff(y1[t], y2[t])), site_of(y2[t])))
                    break
        cfg["blocks_compared"] = len(k1)
    finally:
        A.set_cut(None)
    return dict(cfg=cfg, problems=problems)


def ast_rules(ctx):
    pm = ctx.pm
    out = []
    ev = ctx.ev
    # who may write the field
    writers = []
    for mod in pm.mods:
        for q, fn in pm.functions(mod):
            for n in ast.walk(fn):
                tg = []
                if isinstance(n, ast.Assign):
                    tg = n.targets
                elif isinstance(n, (ast.AugAssign, ast.AnnAssign)):
                    tg = [n.target]
                for t in tg:
                    for sub in ast.walk(t):
                        if isinstance(sub, ast.Attribute) and sub.attr == "invariant_filters" and isinstance(sub.ctx, ast.Store):
                            writers.append((mod, q, n.lineno))
                        if isinstance(sub, ast.Subscript) and isinstance(sub.value, ast.Attribute) and sub.value.attr == "invariant_filters":
                            writers.append((mod, q, n.lineno))
    ev.instances("C09.TAINT.field_writers", len(writers), floor=1)
    for mod, q, line in writers:
        if not (mod == LAYERS_MOD and q == "ConvContract.__init__"):
            out.append(Finding("C09", "C09.TAINT.write", q, "the invariant filter bank is written outside ConvContract.__init__", pm.path(mod), line, None, "bank-write"))
    # syntactic view of the reads (reported for diagnosis; the verdict is the taint run)
    reads = []
    cls = pm.cls(LAYERS_MOD, "ConvContract")
    for st in cls.body:
        if isinstance(st, ast.FunctionDef) and st.name != "__init__":
            parents = {}
            for p in ast.walk(st):
                for c in ast.iter_child_nodes(p):
                    parents[c] = p
            for n in ast.walk(st):
                if isinstance(n, ast.Attribute) and n.attr == "invariant_filters" and isinstance(n.ctx, ast.Load):
                    p = parents.get(n)
                    kind = "other"
                    if isinstance(p, ast.Subscript):
                        pp = parents.get(p)
                        if isinstance(pp, ast.Call) and (pm.resolve(LAYERS_MOD, pp.func) or "").endswith("stop_gradient"):
                            kind = "stop_gradient"
                        else:
                            kind = "value"
                    elif isinstance(p, ast.Attribute) and p.attr in ("D", "keys", "is_torus", "values", "items"):
                        kind = "shape-only"
                    reads.append((st.name, n.lineno, kind))
    ev.extra["bank_reads"] = [list(r) for r in reads]
    ev.instances("C09.TAINT.stop_gradient_sites", len([r for r in reads if r[2] == "stop_gradient"]))  # a statistic: the taint obligations below decide

    # train_step
    fn = pm.func(TRAIN_MOD, "train_step")
    ev.functions.add(TRAIN_MOD + ".train_step")
    path = pm.path(TRAIN_MOD)
    params = [a.arg for a in fn.args.args]
    model_p = params[1]
    grad_var = None
    pmap_var = None
    for n in ast.walk(fn):
        if isinstance(n, ast.Assign) and isinstance(n.value, ast.Call):
            d = pm.resolve(TRAIN_MOD, n.value.func) or ""
            if d in ("equinox.filter_value_and_grad", "equinox.filter_grad", "jax.value_and_grad", "jax.grad"):
                grad_var = n.targets[0].id if isinstance(n.targets[0], ast.Name) else None
                if not (n.value.args and ast.unparse(n.value.args[0]) == params[0]):
                    out.append(Finding("C09", "C09.TRAIN.grad", "train_step", "the differentiated function is %s, not the map_and_loss argument" % ast.unparse(n.value.args[0]) if n.value.args else "?", path, n.lineno, None, "grad-target"))
                for k in n.value.keywords:
                    if k.arg == "argnums" and not (isinstance(k.value, ast.Constant) and k.value.value == 0):
                        out.append(Finding("C09", "C09.TRAIN.grad", "train_step", "the gradient is not taken with respect to the model (argnums=%s)" % ast.unparse(k.value), path, n.lineno, None, "grad-argnums"))
            if d in ("equinox.filter_pmap", "jax.pmap", "equinox.filter_jit", "jax.jit") and n.value.args and isinstance(n.value.args[0], ast.Name) and n.value.args[0].id == grad_var:
                pmap_var = n.targets[0].id
    if grad_var is None:
        raise AnalysisError("train_step: no value_and_grad / grad call found")
    fvar = pmap_var or grad_var
    called = False
    for n in ast.walk(fn):
        if isinstance(n, ast.Call) and isinstance(n.func, ast.Name) and n.func.id == fvar:
            called = True
            if not (n.args and ast.unparse(n.args[0]) == model_p):
                out.append(Finding("C09", "C09.TRAIN.grad", "train_step", "the loss gradient is evaluated at %s instead of the model argument" % (ast.unparse(n.args[0]) if n.args else "?"), path, n.lineno, None, "grad-point"))
    if not called:
        raise AnalysisError("train_step: the gradient function is never called")
    # assignments to the model variable: the only accepted change of the model is
    #   updates, ... = <optimiser>.update(...);  model = eqx.apply_updates(model, updates)
    # written in train_step itself or in a helper of the repository that train_step hands the model to (followed through
    # the resolved call, parameter by parameter and return position by return position)
    model_assigns = []

    def update_rule(fnode, qual, model_name, ret_pos, depth):
        """Findings for function `fnode` whose parameter / variable `model_name` is the model and which hands the new
        model back at tuple position `ret_pos` of its return value.  Returns True if an accepted update was found."""
        assigns = []
        for n in ast.walk(fnode):
            if isinstance(n, ast.Assign):
                for t in n.targets:
                    names = [t] if isinstance(t, ast.Name) else (list(t.elts) if isinstance(t, ast.Tuple) else [])
                    for pos, nm in enumerate(names):
                        if isinstance(nm, ast.Name) and nm.id == model_name:
                            assigns.append((n, pos if isinstance(t, ast.Tuple) else None))
        model_assigns.extend(a for a, _ in assigns)
        ok = False
        for a, pos in assigns:
            d = pm.resolve(TRAIN_MOD, a.value.func) if isinstance(a.value, ast.Call) else None
            if d == "equinox.apply_updates" and a.value.args and ast.unparse(a.value.args[0]) == model_name:
                upd = ast.unparse(a.value.args[1]) if len(a.value.args) > 1 else None
                # updates must come from optim.update(grads, opt_state, model)
                for n in ast.walk(fnode):
                    if isinstance(n, ast.Assign) and isinstance(n.value, ast.Call) and isinstance(n.value.func, ast.Attribute) and n.value.func.attr == "update":
                        tnames = [e.id for e in (n.targets[0].elts if isinstance(n.targets[0], ast.Tuple) else [n.targets[0]]) if isinstance(e, ast.Name)]
                        if upd in tnames:
                            ok = True
                continue
            helper = None
            if d and d.startswith("ginjax.") and depth < 3:
                hm, _, hq = d.rpartition(".")
                helper = pm.func(hm, hq, required=False) if hm in pm.mods else None
            if helper is not None and isinstance(a.value, ast.Call):
                hparams = [x.arg for x in helper.args.args]
                passed = None
                for ai, arg in enumerate(a.value.args):
                    if ast.unparse(arg) == model_name and ai < len(hparams):
                        passed = hparams[ai]
                for kw in a.value.keywords:
                    if kw.arg and ast.unparse(kw.value) == model_name:
                        passed = kw.arg
                if passed is not None:
                    ev.functions.add(d)
                    if update_rule(helper, hq, passed, pos, depth + 1):
                        ok = True
                    continue
            out.append(Finding("C09", "C09.TRAIN.update", qual, "the model is modified by `%s`, not through optim.update + eqx.apply_updates" % ast.unparse(a)[:80], path, a.lineno, None, "model-update"))
        for r in [n for n in ast.walk(fnode) if isinstance(n, ast.Return) and n.value is not None]:
            if isinstance(r.value, ast.Tuple):
                first = r.value.elts[ret_pos if ret_pos is not None and ret_pos < len(r.value.elts) else 0]
            else:
                first = r.value
            if ast.unparse(first) != model_name:
                out.append(Finding("C09", "C09.TRAIN.update", qual, "%s returns %s as the new model" % (qual, ast.unparse(first)), path, r.lineno, None, "model-return"))
        return ok

    if not update_rule(fn, "train_step", model_p, 0, 0):
        out.append(Finding("C09", "C09.TRAIN.update", "train_step", "no `model = eqx.apply_updates(model, updates)` with updates from optim.update found", path, fn.lineno, None, "model-update"))
    ev.instances("C09.TRAIN.model_assignments", len(model_assigns), floor=1)
    # train: model only re-assigned from train_step
    tr = pm.func(TRAIN_MOD, "train")
    tparams = [a.arg for a in tr.args.args]
    tmodel = "model"
    for n in ast.walk(tr):
        if isinstance(n, ast.Assign):
            for t in n.targets:
                names = [t] if isinstance(t, ast.Name) else (t.elts if isinstance(t, ast.Tuple) else [])
                for nm in names:
                    if isinstance(nm, ast.Name) and nm.id == tmodel:
                        d = pm.resolve(TRAIN_MOD, n.value.func) if isinstance(n.value, ast.Call) else None
                        if not (d or "").endswith(".train_step"):
                            out.append(Finding("C09", "C09.TRAIN.update", "train", "train re-assigns the model by `%s` (not from train_step)" % ast.unparse(n)[:80], path, n.lineno, None, "train-model"))
    return out


def run(ctx):
    ev, pm = ctx.ev, ctx.pm
    ev.explanation = (
        "(a) Equivariance of layers, blocks and networks is decided by C06-C08 with every learnable parameter a free symbol, hence for every value an optimiser can reach; a compact set of those obligations (GroupNorm on all four types, the vector-neuron nonlinearity, two convolution blocks with pseudo-types) is re-decided here (C09.PARAM). "
        "(b) TAINT: ConvContract (both code paths, all bias modes) and whole equivariant models are abstractly interpreted with every symbol passing through jax.lax.stop_gradient "
        "renamed sg(symbol); no output element may depend on a bank symbol that is not wrapped -- so the bank's gradient is identically zero and training changes it at most by the "
        "common rescaling of weight decay; AST: the field is written only in ConvContract.__init__. (c) AST rules on train_step/train: gradient w.r.t. the model argument, model "
        "changed only via optim.update + eqx.apply_updates, train re-assigns the model only from train_step."
    )
    ev.rule_text = "taint obligations: one per (layer/model configuration); AST rule instances: field writers, stop_gradient sites, model assignments in train_step"
    ev.assumptions = ["optax updates change leaf values only (structure and static fields are preserved); weight decay rescales all leaves by a common factor", "a zero gradient leaf is not moved by sgd/adam-type optimisers apart from weight decay", "C06, C07 and C08 hold (separate checks)"]
    for q in ("ConvContract.__init__", "ConvContract.__call__", "ConvContract.individual_convolve", "ConvContract.fast_convolve"):
        pm.func(LAYERS_MOD, q)
        ev.functions.add(LAYERS_MOD + "." + q)
    pm.func(TRAIN_MOD, "train")
    for f in ast_rules(ctx):
        ctx.add(f)
    S1 = ([((0, 0), 1), ((1, 0), 1)], [((1, 0), 1), ((0, 0), 1)])
    S2 = ([((0, 1), 1), ((1, 0), 2)], [((0, 0), 1), ((1, 1), 1)])
    jobs = []
    for D in (2, 3):
        for (i, o) in (S1, S2):
            for bias in ("auto", "mean", "scalar", True, False):
                if D == 3 and bias not in ("auto", False):
                    continue
                jobs.append((ctx.repo, dict(cls="ConvContract", D=D, input=i, output=o, use_bias=bias)))
        jobs.append((ctx.repo, dict(cls="ConvContract", D=D, input=[((0, 0), 2), ((1, 0), 2)], output=[((0, 0), 2), ((1, 0), 2)], use_bias=False, fast=True)))
    mspecs = [dict(cls="ConvBlock", D=2, depth=1, input=S1[0], output=S1[1], use_group_norm=True, activation="relu", use_bias="auto"),
              dict(cls="ResNet", D=2, depth=1, input=S1[0], output=S1[1], use_group_norm=True, activation="relu", use_bias="auto", num_conv=1)]
    if ctx.thorough():
        mspecs += [dict(cls="UNet", D=2, depth=1, input=S2[0], output=S2[1], use_group_norm=False, activation="gelu", use_bias="mean", num_downsamples=1, num_conv=1),
                   dict(cls="DilResNet", D=2, depth=1, input=S1[0], output=S1[1], use_group_norm=False, activation="relu", use_bias="auto"),
                   dict(cls="UNet", D=3, depth=1, input=S1[0], output=S1[1], use_group_norm=False, activation="relu", use_bias="auto", num_downsamples=1, num_conv=1, square=False),
                   dict(cls="ResNet", D=3, depth=1, input=S1[0], output=S1[1], use_group_norm=True, activation="relu", use_bias="auto", num_conv=1),
                   dict(cls="ResNet", D=2, depth=2, input=S2[0], output=S2[1], use_group_norm=True, activation="gelu", use_bias="mean", num_conv=2, num_blocks=2, preactivation_order=False),
                   dict(cls="UNet", D=2, depth=1, input=S1[0], output=S1[1], use_group_norm=True, activation="relu", use_bias="auto", num_downsamples=2, num_conv=1),
                   dict(cls="ResNet", D=2, depth=1, input=S2[0], output=S2[1], use_group_norm=True, activation="relu", use_bias="auto", num_conv=1, missing=[(0, 1)])]
    jobs += [(ctx.repo, s) for s in mspecs]
    by = {}
    for job, r in ctx.pairs(taint_worker, jobs, chunk=1):
        cfg = r["cfg"]
        ev.obligation("taint", not r["problems"], tuple(str(v) for v in sorted(cfg.items())), sample={k: v for k, v in cfg.items()} if ev.obligations % 6 == 0 else None)
        for kind, what, site in r["problems"]:
            by.setdefault((cfg["cls"], bool(cfg.get("fast")), kind), []).append((what, site, cfg))
    for (cls, fast, kind), items in sorted(by.items()):
        what, site, cfg = items[0]
        q = "ConvContract.fast_convolve" if fast else "ConvContract.individual_convolve"
        node = pm.func(LAYERS_MOD, q)
        path, line = pm.path(LAYERS_MOD), node.lineno
        extra = " (observed through %s)" % cls if cls != "ConvContract" else ""
        ctx.add(Finding("C09", "C09.TAINT." + kind, q, "%s%s (%d of the swept configurations fail)" % (what, extra, len(items)), path, line, cfg, kind + (":fast" if fast else "")))
    # (c') what train hands back is a model of THIS run (the one it was given or one its own steps produced): a model kept
    # in a stopping condition by an earlier run -- e.g. a non-equivariant baseline trained first with the same condition
    # object -- must never come back.  Decided by the semantic train-loop check of C19 (stubbed collaborators).
    from .c19 import train_loop_worker

    H9 = [(5, 9), (4, 8), (4, 9), (3, 7), (3, 7), (3, 8), (2, 8), (2, 9), (2, 9), (2, 9), (2, 9), (2, 9)]
    tl = [(ctx.repo, "TrainLoss", (1, 0), H9, "reused"), (ctx.repo, "ValLoss", (1, 0), H9, "reused"), (ctx.repo, "TrainLoss", (1, 0), H9), (ctx.repo, "EpochStop", 2, H9)]
    n_origin = 0
    for job, r in ctx.pairs(train_loop_worker, tl):
        n_origin += 1
        ev.obligation("train-model-origin", not r["problems"], (job[1], str(job[2]), len(job) > 4))
        for kind, what, cfgd in r["problems"][:1]:
            ctx.add(Finding("C09", "C09.TRAIN.model-origin", "train", what, pm.path(TRAIN_MOD), pm.func(TRAIN_MOD, "train").lineno, cfgd, "model-origin:" + job[1]))
    ev.instances("C09.TRAIN.loop_runs", n_origin, floor=4)
    ev.instances("C09.TAINT.obligations", ev.obligations, floor=19 if ctx.tier == "quick" else 21)
    # (d) the structure of the model after a training step: dict fields come back with sorted keys
    U1 = ([((1, 0), 2), ((0, 0), 2)], [((1, 1), 2), ((1, 0), 2), ((0, 0), 2)])  # equal channel counts, unsorted orders
    U2 = ([((1, 0), 1), ((0, 1), 2)], [((1, 1), 1), ((0, 0), 2)])
    rj = []
    for D in (2, 3):
        for (i, o) in (U1, U2) if D == 2 else (U1,):
            for bias in ("auto", "mean", "scalar", True, False) if D == 2 else ("auto",):
                rj.append((ctx.repo, dict(cls="ConvContract", D=D, input=i, output=o, use_bias=bias)))
    rj.append((ctx.repo, dict(cls="ConvBlock", D=2, depth=1, input=U1[0], output=U1[1], use_group_norm=True, activation="relu", use_bias="auto")))
    rj.append((ctx.repo, dict(cls="ResNet", D=2, depth=2, input=U1[0], output=U1[1][1:], use_group_norm=True, activation="relu", use_bias="auto", num_conv=1)))
    if ctx.thorough():
        rj.append((ctx.repo, dict(cls="UNet", D=2, depth=2, input=U1[0], output=U1[1][1:], use_group_norm=False, activation="gelu", use_bias="mean", num_downsamples=1, num_conv=1)))
        rj.append((ctx.repo, dict(cls="DilResNet", D=2, depth=2, input=U1[0], output=U1[1][1:], use_group_norm=False, activation="relu", use_bias="auto")))
        rj.append((ctx.repo, dict(cls="ResNet", D=3, depth=2, input=U1[0], output=U1[1][1:], use_group_norm=True, activation="relu", use_bias="auto", num_conv=1)))
    n_rt = 0
    for job, r in ctx.pairs(roundtrip_worker, rj, chunk=1):
        cfg = r["cfg"]
        n_rt += 1
        ev.obligation("structure", not r["problems"], ("rt",) + tuple(str(v) for v in sorted(cfg.items())), sample=cfg if n_rt % 5 == 1 else None)
        for kind, what, site in r["problems"][:1]:
            q = "ConvContract.__call__"
            extra = " (observed through %s)" % cfg["cls"] if cfg["cls"] != "ConvContract" else ""
            if site and site[0]:
                extra += " [last array operation at %s:%s in %s]" % (site[0].split("/src/")[-1], site[1], site[2])
            by.setdefault(("rt", kind), []).append((what + extra, cfg))
    for (_, kind), items in sorted((k, v) for k, v in by.items() if k[0] == "rt"):
        what, cfg = items[0]
        ctx.add(Finding("C09", "C09.STRUCT." + kind, "ConvContract.__call__", "%s (%d of the swept configurations fail)" % (what, len(items)), pm.path(LAYERS_MOD), pm.func(LAYERS_MOD, "ConvContract.__call__").lineno, cfg, kind))
    ev.instances("C09.STRUCT.obligations", n_rt, floor=12)
    # (a) equivariance for every value of the learnable leaves: a compact set of the C06-C08 obligations is
    # decided here as well, so that a parameter that is harmless only at its initial value is reported by C09
    from . import c07, c08

    pj = [(ctx.repo, "GroupNorm", 2, (((0, 0), 2), ((0, 1), 2), ((1, 0), 2), ((1, 1), 2)), 1),
          (ctx.repo, "GroupNorm", 2, (((0, 1), 2), ((1, 1), 2)), 2),
          (ctx.repo, "VectorNeuronNonlinear", 2, (((0, 0), 1), ((0, 1), 1), ((1, 0), 2)), "relu")]
    for job, r in ctx.pairs(c08.worker, pj):
        ev.obligation("param-generic", not r["problems"], ("c08",) + tuple(str(v) for v in r["cfg"].values()), sample=r["cfg"])
        for kind, what, site in r["problems"]:
            q = {"GroupNorm": "GroupNorm.__call__", "VectorNeuronNonlinear": "VectorNeuronNonlinear.__call__"}[job[1]]
            ctx.add(Finding("C09", "C09.PARAM." + kind, q, "with every learnable parameter a free symbol (i.e. after any training history): %s" % what, pm.path(LAYERS_MOD), pm.func(LAYERS_MOD, q).lineno, r["cfg"], kind))
    S3 = ([((0, 1), 1), ((1, 0), 1)], [((0, 0), 1), ((1, 1), 1)])
    mj = [(ctx.repo, dict(D=2, depth=1, cls="ConvBlock", input=S3[0], output=S3[1], use_group_norm=True, activation="relu", use_bias="auto")),
          (ctx.repo, dict(D=2, depth=1, cls="ConvBlock", input=S1[0], output=S1[1], use_group_norm=True, activation="gelu", use_bias="mean", preactivation_order=True))]
    for job, r in ctx.pairs(c07.worker, mj, chunk=1):
        ev.obligation("param-generic", not r["problems"], ("c07",) + tuple(str(v) for v in sorted(r["cfg"].items())), sample=None)
        for kind, what, site in r["problems"]:
            ctx.add(Finding("C09", "C09.PARAM." + kind, "ConvBlock.__call__", "with every learnable parameter a free symbol (i.e. after any training history): %s" % what, pm.path(MODELS_MOD), pm.func(MODELS_MOD, "ConvBlock.__call__").lineno, r["cfg"], kind))
    ev.exhaustive = False
