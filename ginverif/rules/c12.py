"""C12 -- multi-image arithmetic pairs blocks by type, whatever their storage history.

Deciding method: abstract interpretation of MultiImage.__add__/__sub__/__mul__/__truediv__/__eq__
(as parsed from the working tree) on operands built by abstractly running the repository's own
constructors through every construction history; the oracle is `(a op b)[t] == a[t] op b[t]`
as exact element provenance.  ORDER (AST) locates the positional-pairing construct.
"""

import itertools

from .. import arr as A
from ..order import scan_function
from ..report import Finding
from .common import *

HISTORIES = ["ctor", "append", "copy", "pytree", "from_vector", "concat"]
OPS = ["add", "sub", "mul", "div", "eq"]
METHOD = {"add": "MultiImage.__add__", "sub": "MultiImage.__sub__", "mul": "MultiImage.__mul__", "div": "MultiImage.__truediv__", "eq": "MultiImage.__eq__"}


def channel_table(D):
    # chosen so that several blocks have equal element counts (wrong pairing then raises nothing)
    return {(0, 0): 2 * D, (0, 1): 2 * D, (1, 0): 2, (1, 1): 2, (2, 0): 1 if D == 2 else 1, (2, 1): 1}


def configs(tier):
    out = []
    if tier == "quick":
        sets = {1: [[(0, 0), (0, 1)]], 2: [[(0, 0), (1, 0)], [(0, 0), (0, 1), (1, 0)], [(1, 0), (1, 1)]], 3: [[(0, 0), (1, 0)]]}
        leads = [1, 2]
    else:
        sets = {
            1: [[(0, 0)], [(0, 0), (0, 1)]],
            2: [[(0, 0)], [(0, 0), (1, 0)], [(1, 0), (1, 1)], [(0, 0), (0, 1), (1, 0)], [(0, 0), (1, 0), (2, 0)], [(0, 0), (0, 1), (1, 0), (1, 1)]],
            3: [[(0, 0), (1, 0)], [(0, 1), (1, 1), (2, 0)]],
        }
        leads = [0, 1, 2]
    for D, ss in sets.items():
        for s in ss:
            for nl in leads:
                for oa in perms(s):
                    for ob in perms(s):
                        if tier == "quick" and len(s) == 3 and (oa, ob) not in _cover3(s):
                            continue
                        out.append((D, tuple(s), nl, oa, ob))
    return out


def _cover3(s):
    ps = perms(s)
    return {(ps[0], ps[0]), (ps[0], ps[3]), (ps[1], ps[4]), (ps[2], ps[5]), (ps[5], ps[0]), (ps[3], ps[1])}


def lead_shape(nl, c):
    return {0: (), 1: (c,), 2: (3, c), 3: (2, 3, c)}[nl]


def worker(job):
    repo, D, types, nl, oa, ob, ha, hb, op = job
    it, w = get_interp(repo)
    w.allclose_mode = "record"
    ch = channel_table(D)
    sp = SPATIAL[D]
    ab = {t: block("a", t, lead_shape(nl, ch[t]), sp, D) for t in types}
    bb = {t: block("b", t, lead_shape(nl, ch[t]), sp, D) for t in types}
    flags = (True, False, True)[:D]
    lead_axis = max(nl - 1, 0)
    if nl == 0 and (ha == "concat" or hb == "concat"):
        return dict(skip=True)
    a = make_multi(it, oa, ab, D, flags, ha, lead_axis)
    b = make_multi(it, ob, bb, D, flags, hb, lead_axis)
    problems = []
    # the operands as constructed (a broken constructor / from_vector / concat is reported as such)
    for name, obj, blocks0, hist in (("left", a, ab, ha), ("right", b, bb, hb)):
        if set(obj.keys()) != set(types) or any(not same_elems(obj[t], blocks0[t]) for t in types if t in obj):
            problems.append(("history", "the %s operand built by history '%s' does not hold the blocks it was given" % (name, hist), None))
    if problems:
        return dict(cfg=dict(D=D, types=[list(t) for t in types], order_a=[list(t) for t in oa], order_b=[list(t) for t in ob], history_a=ha, history_b=hb, leading_axes=nl, op=op), problems=problems)
    cfg = dict(D=D, types=[list(t) for t in types], order_a=[list(t) for t in oa], order_b=[list(t) for t in ob], history_a=ha, history_b=hb, leading_axes=nl, op=op)
    if op in ("add", "sub"):
        res = attempt(lambda: a + b if op == "add" else a - b)
    elif op == "mul":
        res = attempt(lambda: a * 3)
    elif op == "div":
        res = attempt(lambda: a / 4)
    else:
        del w.trace[:]
        res = attempt(lambda: a == b)
    if isinstance(res, Rejected):
        problems.append(("rejected", "operands with equal type sets were rejected: %s" % res.exc, None))
        return dict(cfg=cfg, problems=problems)
    # the operation must not modify its operands (no aliasing of the stored blocks)
    for name, obj, blocks0 in (("left", a, ab), ("right", b, bb)):
        if set(obj.keys()) != set(types) or any(not same_elems(obj[t], blocks0[t]) for t in types if t in obj):
            problems.append(("mutation", "the %s operand was modified by the operation" % name, None))
    if op == "eq":
        pairs = [(x, y) for tag, x, y, site in [tr for tr in w.trace if tr[0] == "allclose"]]
        want = {t: (a[t], b[t]) for t in types}
        seen = set()
        for x, y in pairs:
            hit = None
            for t, (xa, yb) in want.items():
                if (same_elems(x, xa) and same_elems(y, yb)) or (same_elems(x, yb) and same_elems(y, xa)):
                    hit = t
            if hit is None:
                problems.append(("pairing", "== compared blocks of different types (%r vs %r)" % (x.tag, y.tag), site_of(x)))
            else:
                seen.add(hit)
        if res is not True and not problems:
            problems.append(("value", "== returned %r although every compared pair was reported equal" % (res,), None))
        if not problems and seen != set(types):
            problems.append(("pairing", "== skipped the blocks of types %s" % sorted(set(types) - seen), None))
        # the test is the conjunction over the types: if the blocks of one type differ (the comparison of exactly
        # that pair is answered False, every other one True) the result must be False
        if not problems:
            for t0 in types:
                xa, yb = a[t0], b[t0]
                w.allclose_false_for = lambda x, y: (same_elems(x, xa) and same_elems(y, yb)) or (same_elems(x, yb) and same_elems(y, xa))
                try:
                    r2 = attempt(lambda: a == b)
                finally:
                    w.allclose_false_for = None
                if r2 is not False:
                    problems.append(("value", "== returned %r although the blocks of type %s differ" % (r2, tname(t0)), None))
                    break
        return dict(cfg=cfg, problems=problems)
    if not is_multi(res):
        problems.append(("type", "result is %r, not a MultiImage" % (type(res).__name__,), None))
        return dict(cfg=cfg, problems=problems)
    if set(res.keys()) != set(types):
        problems.append(("keys", "result holds types %s, expected %s" % (sorted(res.keys()), sorted(types)), None))
    if res.D != D or tuple(res.is_torus) != tuple(flags):
        problems.append(("meta", "result has D=%r is_torus=%r, expected D=%r is_torus=%r" % (res.D, res.is_torus, D, flags), None))
    for t in types:
        if t not in res:
            continue
        got = res[t]
        if op == "add":
            exp = a[t] + b[t]
        elif op == "sub":
            exp = a[t] - b[t]
        elif op == "mul":
            exp = a[t] * 3
        else:
            exp = a[t] * A.as_arr(1) / 4
        if not same_elems(got, exp):
            problems.append(("pairing", "block %s of the result: %s" % (tname(t), first_diff(got, exp)), site_of(got)))
    return dict(cfg=cfg, problems=problems)


def reject_worker(job):
    repo, D, ta, tb, op = job
    it, w = get_interp(repo)
    ch = channel_table(D)
    sp = SPATIAL[D]
    ab = {t: block("a", t, (ch[t],), sp, D) for t in ta}
    bb = {t: block("b", t, (ch[t],), sp, D) for t in tb}
    a = make_multi(it, ta, ab, D, True)
    b = make_multi(it, tb, bb, D, True)
    if op == "eq":
        w.allclose_mode = "record"
        res = attempt(lambda: a == b)
        ok = res is False
        return dict(ok=ok, what="a == b returned %r for operands with different type sets" % (res,))
    res = attempt(lambda: a + b if op == "add" else a - b)
    ok = isinstance(res, Rejected)
    return dict(ok=ok, what="a %s b was not rejected for type sets %s vs %s" % ("+" if op == "add" else "-", sorted(ta), sorted(tb)))


def run(ctx):
    ev = ctx.ev
    pm = ctx.pm
    ev.explanation = (
        "Abstract interpretation of MultiImage.__add__/__sub__/__mul__/__truediv__/__eq__ from the working tree: operands are built by "
        "abstractly running the repository's constructors (ctor/append/copy/pytree round trip/from_vector/concat) in every insertion order; "
        "array elements are symbols, so (a op b)[t] == a[t] op b[t] is decided as exact provenance for all values. ORDER (AST) locates positional pairing."
    )
    ev.rule_text = "one obligation per (D, type set, leading axes, insertion order of a, of b, history of a, of b, op); non-trivial = >=2 types with different orders or a non-ctor history"
    ev.assumptions = ["JAX pytree flattening of a dict returns its values in sorted-key order", "NumPy/JAX semantics of reshape/concatenate/slicing as modelled in ginverif.arr", "jnp.allclose(x, x) is True"]
    # anchors
    for q in METHOD.values():
        pm.func(MI_MOD, q)
        ev.functions.add(MI_MOD + "." + q)
    for q in ("MultiImage.to_vector", "MultiImage.from_vector", "MultiImage.append", "MultiImage.concat", "MultiImage.copy", "MultiImage.tree_flatten", "MultiImage.tree_unflatten"):
        pm.func(MI_MOD, q)
        ev.functions.add(MI_MOD + "." + q)

    order_hits = {}
    for op, q in METHOD.items():
        hits = scan_function(pm.func(MI_MOD, q))
        order_hits[q] = hits
    ev.extra["order_rule_hits"] = {q: [list(h) for h in hs] for q, hs in order_hits.items()}

    jobs = []
    for (D, types, nl, oa, ob) in configs(ctx.tier):
        hist_pairs = [("ctor", "ctor")]
        if ctx.thorough():
            hist_pairs += [(h, "ctor") for h in HISTORIES[1:]] + [("ctor", h) for h in HISTORIES[1:]] + [("pytree", "append"), ("concat", "pytree")]
        else:
            hist_pairs += [("pytree", "ctor"), ("ctor", "pytree"), ("append", "from_vector"), ("concat", "copy")]
        for ha, hb in hist_pairs:
            for op in OPS:
                if op in ("mul", "div") and (oa != ob or hb != "ctor"):
                    continue
                jobs.append((ctx.repo, D, types, nl, oa, ob, ha, hb, op))
    results = ctx.pairs(worker, jobs)
    bad_by_method = {}
    for job, r in results:
        if r.get("skip"):
            continue
        cfg = r["cfg"]
        nontriv = len(cfg["types"]) >= 2 and (cfg["order_a"] != cfg["order_b"] or cfg["history_a"] != "ctor" or cfg["history_b"] != "ctor")
        ev.obligation("pairing", not r["problems"], (tuple(map(tuple, cfg["types"])), tuple(map(tuple, cfg["order_a"])), tuple(map(tuple, cfg["order_b"])), cfg["history_a"], cfg["history_b"], cfg["op"], cfg["leading_axes"], cfg["D"]) if nontriv else None, sample=cfg if ev.obligations % 97 == 0 else None)
        for kind, what, site in r["problems"]:
            q = METHOD[cfg["op"]]
            bad_by_method.setdefault(q, []).append((kind, what, site, cfg))
    for q, probs in bad_by_method.items():
        path, line = method_line(pm, MI_MOD, q)
        hits = order_hits.get(q, [])
        loc = ""
        if hits:
            loc = " [ORDER: positional pairing at line %d: %s]" % (hits[0][0], hits[0][2])
            line = hits[0][0]
        kinds = {}
        for kind, what, site, cfg in probs:
            kinds.setdefault(kind, []).append((what, site, cfg))
        for kind, items in kinds.items():
            what, site, cfg = items[0]
            witness = "insertion-order" if kind == "pairing" else kind
            ctx.add(Finding("C12", "C12.AXI." + kind, q, "%s (%d of the swept configurations fail)%s" % (what, len(items), loc), path, line, cfg, witness))

    # rejection of operands with different type sets
    rj = []
    for D in (2,):
        for ta, tb in ([(0, 0), (1, 0)], [(0, 0)]), ([(0, 0)], [(0, 1)]), ([(1, 0)], [(1, 0), (0, 0)]), ([(0, 0), (1, 0)], [(0, 0), (1, 1)]):
            for op in ("add", "sub", "eq"):
                rj.append((ctx.repo, D, tuple(ta), tuple(tb), op))
    for job, r in ctx.pairs(reject_worker, rj):
        ev.obligation("reject", r["ok"], ("reject",) + job[1:], sample=dict(reject=[list(job[2]), list(job[3])], op=job[4]) if job[4] == "add" and len(ev.samples) < 12 else None)
        if not r["ok"]:
            q = METHOD[job[4]]
            path, line = method_line(pm, MI_MOD, q)
            ctx.add(Finding("C12", "C12.AXI.reject", q, r["what"], path, line, dict(types_a=job[2], types_b=job[3]), "different-type-sets"))
    ev.instances("C12.AXI.obligations", ev.obligations, floor=100 if ctx.tier == "quick" else 1000)
    ev.exhaustive = ctx.thorough()
