"""C04 -- convolution computes its mathematical definition in every mode.

Deciding method: abstract interpretation of geom.convolve / convolve_ravel / convolve_contract /
GeometricImage.convolve_with / average_pool (working tree) down to the modelled
lax.conv_general_dilated primitive, on symbolic image and filter elements; the resulting bilinear
polynomial in (image, filter) must equal the direct sum of the statement -- an identity of
polynomials, hence valid for all real inputs -- for every swept option combination.
"""

import itertools
from fractions import Fraction

from .. import arr as A
from ..report import Finding
from .common import *
from .convspec import conv_definition, option_box, sampled_options


def worker(job):
    repo, entry, D, N, M, ki, kf, B, C, O, flags, stride, padding, ld, rd = job
    it, w = get_interp(repo)
    geom = it.get_module(GEOM)
    cfg = dict(entry=entry, D=D, image_shape=list(N), filter_shape=list(M), image_k=ki, filter_k=kf, batch=B, in_c=C, out_c=O, is_torus=list(flags) if isinstance(flags, tuple) else flags, stride=stride, padding=padding, lhs_dilation=ld, rhs_dilation=rd)
    problems = []
    image = A.leaf("P", (B, C) + tuple(N) + (D,) * ki)
    filt = A.leaf("F", (O, C) + tuple(M) + (D,) * kf)
    even = any(m % 2 == 0 for m in M)
    pad_arg = padding if not isinstance(padding, list) else tuple(tuple(p) for p in padding)
    ld_arg = None if ld is None else tuple(ld)
    stride_arg = stride if isinstance(stride, int) else tuple(stride)
    rd_arg = rd if isinstance(rd, int) else tuple(rd)
    if entry == "convolve":
        res = attempt(lambda: geom.convolve(D, image, filt, flags, stride_arg, pad_arg, ld_arg, rd_arg))
        contract = False
    elif entry == "convolve_contract":
        res = attempt(lambda: geom.convolve_contract(D, image, filt, flags, stride_arg, pad_arg, ld_arg, rd_arg))
        contract = True
    elif entry == "convolve_with":
        gi = geom.GeometricImage(image[0, 0], 1, D, flags)
        gf = geom.GeometricImage(filt[0, 0], 1, D, flags) if not even else geom.GeometricImage(filt[0, 0], 1, D, flags)
        res = attempt(lambda: gi.convolve_with(gf, stride_arg, pad_arg, ld_arg, rd_arg))
        contract = False
    must_reject = even and (pad_arg in ("TORUS", "SAME") or pad_arg is None)
    if isinstance(res, Rejected):
        if not must_reject:
            problems.append(("rejected", "a valid option set was rejected: %s" % res.exc, None))
        return dict(cfg=cfg, problems=problems)
    if must_reject:
        problems.append(("accept", "an even-sided filter with %r padding was not rejected (no symmetric padding exists)" % (pad_arg,), None))
        return dict(cfg=cfg, problems=problems)
    if entry == "convolve_with":
        if res.parity != 0 or res.D != D or res.k != ki + kf or tuple(res.is_torus) != ((flags,) * D if isinstance(flags, bool) else tuple(flags)):
            problems.append(("meta", "convolve_with result has parity=%r k=%r is_torus=%r" % (res.parity, res.k, res.is_torus), None))
        exp = conv_definition(D, image[0:1, 0:1], filt[0:1, 0:1], flags, stride_arg, pad_arg, ld_arg, rd_arg, False)[0, 0]
        got = res.data
    else:
        exp = conv_definition(D, image, filt, flags, stride_arg, pad_arg, ld_arg, rd_arg, contract)
        got = res
    if got.shape != exp.shape:
        problems.append(("shape", "output shape %r, the size formula gives %r" % (got.shape, exp.shape), site_of(got)))
    elif not same_elems(got, exp):
        problems.append(("definition", "output differs from the direct sum: %s" % first_diff(got, exp), site_of(got)))
    return dict(cfg=cfg, problems=problems)


def pool_worker(job):
    repo, D, N, k, patch = job
    it, w = get_interp(repo)
    geom = it.get_module(GEOM)
    img = A.leaf("P", tuple(N) + (D,) * k)
    res = attempt(lambda: geom.average_pool(D, img, patch))
    cfg = dict(entry="average_pool", D=D, image_shape=list(N), k=k, patch=patch)
    problems = []
    divisible = all(n % patch == 0 for n in N)
    if isinstance(res, Rejected):
        if divisible:
            problems.append(("rejected", "average_pool rejected a divisible shape: %s" % res.exc, None))
        return dict(cfg=cfg, problems=problems)
    if not divisible:
        problems.append(("accept", "average_pool accepted extents not divisible by the patch length", None))
        return dict(cfg=cfg, problems=problems)
    new = ()
    for n in N:
        new = new + (n // patch, patch)
    r = A.reshape(img, new + (D,) * k)
    exp = A.reduce_("sum", r, tuple(2 * i + 1 for i in range(D))) * Fraction(1, patch ** D)
    if res.shape != exp.shape or not same_elems(res, exp):
        problems.append(("definition", "average_pool is not the mean over aligned patches: %s" % (first_diff(res, exp) if res.shape == exp.shape else "shape %r vs %r" % (res.shape, exp.shape)), site_of(res)))
    return dict(cfg=cfg, problems=problems)


def run(ctx):
    ev, pm = ctx.ev, ctx.pm
    ev.explanation = (
        "Abstract interpretation of geom.convolve, convolve_ravel, convolve_contract, GeometricImage.convolve_with and average_pool down to the modelled "
        "lax.conv_general_dilated on symbolic image/filter elements: the resulting polynomial (bilinear in image and filter) must equal the direct sum of the "
        "statement -- periodic wrap on toroidal axes, zero padding elsewhere, image tensor indices first, standard output size -- as a polynomial identity, for "
        "TORUS/SAME/VALID/integer/explicit padding, all 2^D torus-flag patterns, stride, filter and image dilation, several channels/batch entries, non-square "
        "shapes, odd and even (explicit padding only) filters, D=2 and 3; even filters with TORUS/SAME must be rejected."
    )
    ev.rule_text = "one obligation per option combination; non-trivial = tensor order > 0, or dilation/stride != 1, or mixed torus flags"
    ev.assumptions = ["semantics of lax.conv_general_dilated (dimension numbers, grouped features, padding, strides, dilations) and jnp.pad(mode='wrap') as modelled in ginverif.shims", "float32 casts and rounding are not modelled"]
    for q in ("convolve", "convolve_ravel", "convolve_contract", "conv_contract_image_expand", "pre_tensor_product_expand", "get_torus_expanded", "get_same_padding", "average_pool"):
        pm.func(FN_MOD, q)
        ev.functions.add(FN_MOD + "." + q)
    pm.func(GI_MOD, "GeometricImage.convolve_with")
    jobs = []
    th = ctx.thorough()
    # the option box shared by C01 / C04 / C06 / C11, on one representative configuration per entry point
    for D in (2, 3) if th else (2,):
        Nb = (4, 5) if D == 2 else (3, 4, 3)
        for padding, stride, rd, ld, flags in option_box(D, Nb):
            jobs.append((ctx.repo, "convolve", D, Nb, (3,) * D, 1, 0, 1, 2, 1, flags, stride, padding, ld, rd))
            jobs.append((ctx.repo, "convolve_contract", D, Nb, (3,) * D, 1, 1, 1, 1, 2, flags, stride, padding, ld, rd))
    # degenerate sizes, where special-case fast paths live: point-wise filters (every side 1), filters with one side 1,
    # and images with an extent of 1 -- the whole shared option box again (a 1-tap filter makes these cheap)
    for D in (2, 3) if th else (2,):
        for Nb, Mb in (((4, 5), (1, 1)), ((3, 1), (1, 1)), ((4, 3), (1, 3))) if D == 2 else (((3, 4, 3), (1, 1, 1)), ((3, 2, 3), (3, 1, 1))):
            for padding, stride, rd, ld, flags in option_box(D, Nb, M=max(Mb)):
                if isinstance(padding, str) and padding in ("TORUS", "SAME") and ld is not None:
                    continue
                jobs.append((ctx.repo, "convolve", D, Nb, Mb, 1, 0, 1, 2, 2, flags, stride, padding, ld, rd))
                if Mb == (1,) * D:
                    jobs.append((ctx.repo, "convolve_contract", D, Nb, Mb, 1, 1, 2, 1, 2, flags, stride, padding, ld, rd))
                    jobs.append((ctx.repo, "convolve", D, Nb, Mb, 0, 0, 1, 1, 1, flags, stride, padding, ld, rd))
    for D in (2, 3):
        N = (4, 5) if D == 2 else (3, 4, 3)
        flag_sets = list(itertools.product((True, False), repeat=D)) if (th or D == 2) else [(True, False, True), (False, False, False)]
        for flags in flag_sets:
            # padding modes
            for padding in ("TORUS", "SAME", "VALID", None, 1, 0, [[1, 2]] * D if D == 2 else [[1, 0], [0, 1], [1, 1]]):
                for rd in (1, 2) + (((1, 2) if D == 2 else (2, 1, 1)),):
                    for stride in (1, 2) + ((((1, 2) if D == 2 else (1, 2, 1)),) if th else ()):
                        for (ki, kf) in ((0, 0), (1, 0), (0, 1), (1, 1)) + (((2, 1), (0, 2)) if th else ()):
                            if not th:
                                # covering sub-box
                                h = (dhash((D, flags, str(padding), str(rd), str(stride), ki, kf)) % 7)
                                if h not in (0, 1) and not (flags == (True, False)[:D] + (True,) * (D - 2) and rd == 1 and stride == 1) and not (padding == 0 and rd == 1 and stride == 1 and (ki, kf) == (1, 0)):
                                    continue
                            if D == 3 and ki + kf > 2:
                                continue
                            M = (3,) * D
                            if isinstance(rd, tuple) and padding in ("TORUS", "SAME", None):
                                M = (3, 5) if D == 2 else (3, 3, 1)
                            cc = 2 + dhash((D, flags, str(padding), ki, kf, "c")) % 2
                            jobs.append((ctx.repo, "convolve", D, N, M, ki, kf, 2, cc, 5 - cc, flags, stride, padding, None, rd))
                            if ki <= kf:
                                jobs.append((ctx.repo, "convolve_contract", D, N, M, ki, kf, 1, 5 - cc, cc, flags, stride, padding, None, rd))
                            if ki == 1 and kf == 1 and D == 2 and stride == 1:
                                jobs.append((ctx.repo, "convolve_contract", D, N, M, 1, 2, 1, 2, 2, flags, stride, padding, None, rd))
                                if th:
                                    jobs.append((ctx.repo, "convolve_contract", D, N, M, 2, 3, 1, 1, 2, flags, stride, padding, None, rd))
            # image dilation (transposed convolution) with explicit / integer / VALID padding, odd and even filters
            for ldil in ((2,) * D, (2, 1) if D == 2 else (1, 2, 1)):
                if not any(flags):
                    # zero 'same' padding (explicit or by default on a non-toroidal image) with image dilation
                    for padding in ("SAME", None):
                        jobs.append((ctx.repo, "convolve", D, N, (3,) * D, 1, 0, 1, 2, 2, flags, 1, padding, list(ldil), 1))
                for padding in ([[1, 1]] * D, "VALID", 2):
                    for M in ((3,) * D, (2,) * D, (2, 3) if D == 2 else (2, 3, 2)):
                        if not th and dhash((D, flags, str(ldil), str(padding), M)) % 4:
                            continue
                        jobs.append((ctx.repo, "convolve", D, N, M, 1, 0, 1, 2, 2, flags, 1, padding, list(ldil), 1))
                        jobs.append((ctx.repo, "convolve_contract", D, N, M, 1, 1, 1, 1, 2, flags, 1, padding, list(ldil), 1))
        # a few unusual option values: 5-sided filters, dilation 3, stride 3, a single channel
        if D == 2:
            for padding in ("TORUS", "SAME", [[2, 2], [2, 2]]):
                jobs.append((ctx.repo, "convolve", D, (5, 6), (5, 5), 1, 0, 1, 1, 2, (True, False), 1, padding, None, 1))
                jobs.append((ctx.repo, "convolve", D, (4, 5), (3, 3), 0, 1, 1, 1, 1, (False, True), 3, padding if isinstance(padding, str) else "VALID", None, 3))
                jobs.append((ctx.repo, "convolve_contract", D, (4, 5), (3, 5), 1, 1, 1, 4, 1, (True, True), 1, padding if isinstance(padding, str) else [[1, 1], [2, 2]], None, 1))
        # even filters must be rejected with TORUS / SAME / default
        for padding in ("TORUS", "SAME", None):
            jobs.append((ctx.repo, "convolve", D, N, (2,) * D, 0, 0, 1, 1, 1, True, 1, padding, None, 1))
        for flags in ((True,) * D, (True, False, True)[:D], False):
            for padding in ("TORUS", "SAME", None, [[0, 1]] * D):
                jobs.append((ctx.repo, "convolve_with", D, N, (3,) * D, 1, 1 if D == 2 else 0, 1, 1, 1, flags, 1, padding, None, 1))
    # pseudo-random members of the full option space (deterministic): combinations nobody wrote down
    for D in (2, 3):
        for o in sampled_options(D, (600 if D == 2 else 250) if th else (40 if D == 2 else 12), "C04"):
            jobs.append((ctx.repo, "convolve", D, o["N"], o["M"], o["ki"], o["kf"], o["B"], o["C"], o["O"], o["flags"], o["stride"], o["padding"], o["ld"], o["rd"]))
            if o["ki"] <= o["kf"]:
                jobs.append((ctx.repo, "convolve_contract", D, o["N"], o["M"], o["ki"], o["kf"], o["B"], o["C"], o["O"], o["flags"], o["stride"], o["padding"], o["ld"], o["rd"]))
    by = {}
    for job, r in ctx.pairs(worker, jobs):
        cfg = r["cfg"]
        nontriv = cfg["image_k"] + cfg["filter_k"] > 0 or cfg["stride"] != 1 or cfg["rhs_dilation"] != 1 or cfg["lhs_dilation"] is not None or (isinstance(cfg["is_torus"], list) and len(set(cfg["is_torus"])) > 1)
        ev.obligation("conv", not r["problems"], tuple(str(v) for v in cfg.values()) if nontriv else None, sample=cfg if ev.obligations % 71 == 0 else None)
        for kind, what, site in r["problems"]:
            by.setdefault((cfg["entry"], kind), []).append((what, site, cfg))
    pj = []
    for D in (2, 3):
        for N in ((4, 6), (4, 5)) if D == 2 else ((2, 4, 2),):
            for k in (0, 1, 2) if D == 2 else (0, 1):
                pj.append((ctx.repo, D, N, k, 2))
        if D == 2:
            pj.append((ctx.repo, D, (3, 6), 1, 3))
    for job, r in ctx.pairs(pool_worker, pj):
        cfg = r["cfg"]
        ev.obligation("pool", not r["problems"], tuple(str(v) for v in cfg.values()), sample=cfg if cfg["k"] == 1 and D == 2 else None)
        for kind, what, site in r["problems"]:
            by.setdefault(("average_pool", kind), []).append((what, site, cfg))
    for (entry, kind), items in sorted(by.items()):
        what, site, cfg = items[0]
        mod, q = (GI_MOD, "GeometricImage.convolve_with") if entry == "convolve_with" else (FN_MOD, entry)
        node = pm.func(mod, q)
        path, line = pm.path(mod), node.lineno
        extra = ""
        if site and site[0]:
            extra = " [last array operation at %s:%s in %s]" % (site[0].split("/src/")[-1], site[1], site[2])
        ctx.add(Finding("C04", "C04.AXI." + kind, q, "%s (%d of the swept configurations fail)%s" % (what, len(items), extra), path, line, cfg, kind))
    ev.instances("C04.AXI.obligations", ev.obligations, floor=150 if ctx.tier == "quick" else 1500)
    ev.exhaustive = False
