"""C03 -- generated invariant filters are invariant, independent and complete.

get_unique_invariant_filters has no data input: everything it computes is a function of the
configuration (M, k, parity, D, group).  Deciding method:
 (1) exact partial evaluation (rational arithmetic, abstract interpreter) of the function body from the
     working tree up to the amplitude matrix whose rows become the filters; on that matrix, in exact
     arithmetic: every row is fixed by every group element, the rows are linearly independent, and their
     number equals the dimension of the fixed subspace (1/|G|) sum_g #fixedpixels(g) tr(g)^k det(g)^p;
 (2) AST/CF rules on the tail of the function and on GeometricFilter.normalize / rectify: each filter is
     built from one row with the function's own parity and D, and everything afterwards is a non-zero
     per-filter rescaling or a permutation (cannot change the span);
 (3) AST rule: get_invariant_filters(_dict/_list) pass (M, k, parity, D, operators) through unchanged and
     drop nothing.
"""

import ast
import itertools
from fractions import Fraction

from .. import arr as A
from ..cachekey import scan_module
from ..report import Finding, AnalysisError
from .common import *
from .c02 import group, spec_action, det


def subgroup(D, name):
    # "<group>:reversed" / "<group>:rotated": the same group listed in another order (the identity is then not first)
    if ":" in name:
        base, order = name.split(":")
        G = subgroup(D, base)
        return list(reversed(G)) if order == "reversed" else G[1:] + G[:1]
    G = group(D)
    if name == "B":
        return G
    if name == "rot":
        return [g for g in G if det(g) == 1]
    if name == "C2":
        return [g for g in G if all(g[i][j] == 0 for i in range(D) for j in range(D) if i != j)]
    if name == "trivial":
        return [g for g in G if all(g[i][i] == 1 for i in range(D))][:1]
    if name == "inv":
        # {I, -I}: the smallest non-trivial group -- cheap enough to reach large seed bases (M**D * D**k in the hundreds)
        return [[[(1 if i == j else 0) * s for j in range(D)] for i in range(D)] for s in (1, -1)]
    if name == "swap":
        # {I, swap of the first two axes}: a reflection (det -1) without any negative entry
        e = [[1 if i == j else 0 for j in range(D)] for i in range(D)]
        sw = [list(r) for r in e]
        sw[0], sw[1] = sw[1], sw[0]
        return [e, sw]
    if name == "C4" and D == 2:
        r = [[0, -1], [1, 0]]
        out = [[[1, 0], [0, 1]]]
        for _ in range(3):
            out.append([[sum(r[i][k] * out[-1][k][j] for k in range(2)) for j in range(2)] for i in range(2)])
        return out
    raise ValueError(name)


def fixed_dim(D, M, k, p, G):
    tot = Fraction(0)
    c = Fraction(M - 1, 2)
    for g in G:
        fix = 0
        for x in itertools.product(range(M), repeat=D):
            y = [sum(g[i][j] * (x[j] - c) for j in range(D)) + c for i in range(D)]
            if all(y[i] == x[i] for i in range(D)):
                fix += 1
        tr = sum(g[i][i] for i in range(D))
        tot += fix * (tr ** k) * (det(g) ** p)
    tot = tot / len(G)
    if tot.denominator != 1:
        raise AnalysisError("internal: character formula is not an integer")
    return int(tot)


def rank(rows):
    rows = [list(map(Fraction, r)) for r in rows]
    rk = 0
    ncol = len(rows[0]) if rows else 0
    for c in range(ncol):
        piv = None
        for r in range(rk, len(rows)):
            if rows[r][c] != 0:
                piv = r
                break
        if piv is None:
            continue
        rows[rk], rows[piv] = rows[piv], rows[rk]
        pv = rows[rk][c]
        for r in range(rk + 1, len(rows)):
            if rows[r][c] != 0:
                f = rows[r][c] / pv
                rows[r] = [a - f * b for a, b in zip(rows[r], rows[rk])]
        rk += 1
        if rk == len(rows):
            break
    return rk


def find_cut(fn):
    """Locate, by dataflow, the variable whose rows are turned into GeometricFilter objects and the index of
    the last top-level statement that assigns it before that."""
    cut_var, build_idx = None, None
    for i, st in enumerate(fn.body):
        for n in ast.walk(st):
            if isinstance(n, (ast.ListComp, ast.GeneratorExp)):
                for c in ast.walk(n.elt):
                    if isinstance(c, ast.Call) and ast.unparse(c.func).endswith("GeometricFilter"):
                        g = n.generators[0]
                        if isinstance(g.iter, ast.Name):
                            cut_var, build_idx = g.iter.id, i
        if cut_var:
            break
    if cut_var is None:
        raise AnalysisError("get_unique_invariant_filters: cannot find where rows are turned into GeometricFilter objects")
    last = None
    for i, st in enumerate(fn.body[:build_idx]):
        tgts = []
        if isinstance(st, ast.Assign):
            tgts = st.targets
        elif isinstance(st, ast.AugAssign):
            tgts = [st.target]
        if any(isinstance(t, ast.Name) and t.id == cut_var for t in tgts):
            last = i
    if last is None:
        raise AnalysisError("get_unique_invariant_filters: %s is never assigned" % cut_var)
    return cut_var, last, build_idx


def worker(job):
    repo, D, M, k, p, gname, var, n_stmts = job
    it, w = get_interp(repo)
    common = it.get_module(COMMON_MOD)
    G = subgroup(D, gname)
    ops = [A.as_arr(g) for g in G]
    cfg = dict(D=D, M=M, k=k, parity=p, group=gname, order=len(G))
    problems = []
    # the module-level basis cache is deliberately NOT cleared between obligations of a worker process:
    # a cache key that forgets D, k or M would hand a stale basis to a later configuration
    res = attempt(lambda: it.call_prefix(common.get_unique_invariant_filters, (M, k, p, D, ops), {}, n_stmts))
    if isinstance(res, Rejected):
        problems.append(("rejected", "rejected: %s" % res.exc, None))
        return dict(cfg=cfg, problems=problems)
    amps = res[var]
    if not isinstance(amps, A.Arr) or not amps.is_concrete() or amps.ndim != 2:
        raise Unsupported("amplitude matrix is not a concrete 2-D array")
    n = amps.shape[0]
    ncol = amps.shape[1]
    shape = (M,) * D + (D,) * k
    want = fixed_dim(D, M, k, p, G)
    cfg["count"] = n
    cfg["fixed_space_dimension"] = want
    if ncol != M ** D * D ** k:
        problems.append(("shape", "rows have %d entries, a filter has %d" % (ncol, M ** D * D ** k), None))
        return dict(cfg=cfg, problems=problems)
    rows = [amps.elems[i * ncol:(i + 1) * ncol] for i in range(n)]
    for i, r in enumerate(rows):
        if all(e == 0 for e in r):
            problems.append(("zero", "filter %d is identically zero" % i, None))
        f = A.Arr(shape, list(r), "float")
        for g in G:
            gf = spec_action(f, D, k, p, g)[0]
            if gf.elems != f.elems:
                problems.append(("invariance", "filter %d of the family is not fixed by the group element %s" % (i, g), None))
                break
    # the k-dependent sign rectification is evaluated exactly on every generated filter: it must return a
    # non-zero multiple of the filter (sign(0) = 0 style slips zero a filter and shrink the span)
    geom = it.get_module(GEOM)
    rect = "decided"
    for i, r in enumerate(rows):
        if all(e == 0 for e in r):
            continue
        f0 = attempt(lambda: geom.GeometricFilter(A.Arr(shape, list(r), "float"), p, D))
        if isinstance(f0, Rejected):
            problems.append(("rejected", "GeometricFilter rejected a generated filter: %s" % f0.exc, None))
            break
        try:
            fr = attempt(lambda: f0.rectify())
        except Unsupported:
            rect = "undecided"
            break
        if isinstance(fr, Rejected):
            problems.append(("rectify", "rectify raised on filter %d: %s" % (i, fr.exc), None))
            break
        d = fr.data
        if not isinstance(d, A.Arr) or d.shape != shape or not d.is_concrete():
            rect = "undecided"
            break
        j0 = [j for j, e in enumerate(r) if e != 0][0]
        c = Fraction(d.elems[j0]) / Fraction(r[j0])
        if c == 0 or any(Fraction(x) != c * Fraction(y) for x, y in zip(d.elems, r)):
            problems.append(("rectify", "rectify does not return a non-zero multiple of filter %d of the family (factor %s): the family loses a member" % (i, c), None))
            break
        if (fr.k, fr.parity, fr.D) != (k, p % 2, D):
            problems.append(("rectify", "rectify changes the type labels of filter %d to (k=%r, parity=%r, D=%r)" % (i, fr.k, fr.parity, fr.D), None))
            break
    cfg["rectify"] = rect
    rk = rank(rows) if rows else 0
    if rk != n:
        problems.append(("independence", "the %d generated filters span only a %d-dimensional space (duplicates or dependent filters)" % (n, rk), None))
    if rk != want:
        problems.append(("completeness", "the family spans %d dimensions but the space of invariant filters has dimension %d (character formula): %s" % (rk, want, "filters are missing" if rk < want else "too many"), None))
    return dict(cfg=cfg, problems=problems)


def wrapper_worker(job):
    """get_invariant_filters_dict / _list decided semantically: the wrappers are abstractly interpreted with the generator
    replaced by a recording stub that returns, for (M, k, parity, D, operators), a small family of concrete filters that
    depends on the parity exactly when the group contains an element of determinant -1 (for a group of pure rotations the
    invariant families of both parities coincide, so a wrapper may share them; for any other group it may not).  Every
    dictionary entry (D, M, k, parity) must hold filters of that declared type whose data are non-zero multiples of the
    stub's family for exactly those arguments, all requested combinations must be present, and the list variant must
    hold all of them."""
    repo, D, gname, Ms, ks, parities = job
    it, w = get_interp(repo)
    common = it.get_module(COMMON_MOD)
    geom = it.get_module(GEOM)
    G = subgroup(D, gname)
    ops = [A.as_arr(g) for g in G]
    has_reflection = any(det(g) == -1 for g in G)
    cfg = dict(D=D, group=gname, order=len(G), Ms=list(Ms), ks=list(ks), parities=list(parities), group_has_reflections=has_reflection)
    problems = []
    ns = common.__dict__["ns"]
    calls = []

    def family(M, k, parity):
        p_eff = (parity % 2) if has_reflection else 0
        shape = (M,) * D + (D,) * k
        n = 1
        for s_ in shape:
            n *= s_
        out = []
        for j in range(2):
            # distinct, nowhere-zero, not sign-symmetric integer data that encodes (M, k, effective parity, j)
            vals = [((i * 7 + 3 * j + 11 * p_eff + 5 * k + M) % 13) + 1 + (i % 3) for i in range(n)]
            out.append(A.Arr(shape, vals, "float"))
        return out

    def stub(M, k, parity, D_, operators, scale="normalize"):
        calls.append((M, k, parity, D_, scale))
        return [geom.GeometricFilter(d, parity, D_) for d in family(M, k, parity)]

    saved = ns.get("get_unique_invariant_filters")
    ns["get_unique_invariant_filters"] = stub
    try:
        res = attempt(lambda: common.get_invariant_filters_dict(list(Ms), list(ks), list(parities), D, ops, "one"))
        lres = attempt(lambda: common.get_invariant_filters_list(list(Ms), list(ks), list(parities), D, ops, "one"))
    finally:
        ns["get_unique_invariant_filters"] = saved
    if isinstance(res, Rejected):
        problems.append(("wrapper-rejected", "get_invariant_filters_dict rejected: %s" % res.exc, None))
        return dict(cfg=cfg, problems=problems)
    allf = res[0] if isinstance(res, tuple) else res

    def proportional(d, ref):
        if not isinstance(d, A.Arr) or d.shape != ref.shape or not d.is_concrete():
            return False
        c = Fraction(d.elems[0]) / Fraction(ref.elems[0])
        return c != 0 and all(Fraction(x) == c * Fraction(y) for x, y in zip(d.elems, ref.elems))

    n_total = 0
    for M in Ms:
        for k in ks:
            for parity in parities:
                key = (D, M, k, parity)
                if key not in allf:
                    problems.append(("wrapper", "the dictionary has no entry for (D, M, k, parity) = %s although it was requested" % (key,), None))
                    continue
                want = family(M, k, parity)
                got = list(allf[key])
                n_total += len(want)
                if len(got) != len(want):
                    problems.append(("wrapper", "entry %s holds %d filters; the family generated for (M=%d, k=%d, parity=%d) under this group has %d" % (key, len(got), M, k, parity, len(want)), None))
                    continue
                for fi, (f, ref) in enumerate(zip(got, want)):
                    if (f.k, f.parity % 2, f.D) != (k, parity % 2, D):
                        problems.append(("wrapper", "entry %s: filter %d is declared (k=%r, parity=%r, D=%r)" % (key, fi, f.k, f.parity, f.D), None))
                        break
                    if not proportional(f.data, ref):
                        problems.append(("wrapper", "entry %s: filter %d is not (a non-zero multiple of) the family generated for (M=%d, k=%d, parity=%d) with these operators%s" % (key, fi, M, k, parity, "; the group contains reflections, so the families of the two parities differ and one cannot be derived from the other by relabelling" if has_reflection else ""), None))
                        break
    if isinstance(lres, Rejected):
        problems.append(("wrapper-rejected", "get_invariant_filters_list rejected: %s" % lres.exc, None))
    elif len(list(lres)) != n_total:
        problems.append(("wrapper", "get_invariant_filters_list returns %d filters, the requested families hold %d" % (len(list(lres)), n_total), None))
    cfg["generator_calls"] = len(calls)
    return dict(cfg=cfg, problems=problems)


# ------------------------------------------------------------------------------------------ AST rules

RESCALE_METHODS = {"normalize", "rectify", "times_scalar", "copy"}
NOT_RESCALE = {"transpose", "contract", "multicontract", "levi_civita_contract", "norm", "convolve_with", "max_pool", "average_pool", "unpool", "times_group_element", "activation_function"}


def tail_rule(ctx, fn, cut_var, build_idx):
    pm = ctx.pm
    out = []
    params = [a.arg for a in fn.args.args]
    M_, k_, par_, D_ = params[0], params[1], params[2], params[3]
    path = pm.path(COMMON_MOD)
    flt = None
    for st in fn.body[build_idx:]:
        if isinstance(st, ast.Assign) and len(st.targets) == 1 and isinstance(st.targets[0], ast.Subscript) and isinstance(st.value, ast.Name) and st.value.id == flt:
            continue  # storing the finished list in a memo table (the key is decided by the CACHE rule)
        if isinstance(st, ast.Return):
            rv = st.value
            if isinstance(rv, ast.Call) and isinstance(rv.func, ast.Name) and rv.func.id in ("list", "tuple") and len(rv.args) == 1:
                rv = rv.args[0]
            if not (isinstance(rv, ast.Name) and rv.id == flt):
                out.append(("tail", st.lineno, "the function returns %s, not the filter list %s" % (ast.unparse(st.value), flt), True))
            continue
        if isinstance(st, ast.Expr) and isinstance(st.value, ast.Constant):
            continue
        if isinstance(st, ast.If):
            # scale option: both branches must be filter-list rescalings
            for sub in st.body + st.orelse:
                r = classify_tail_stmt(sub, flt, cut_var, (M_, k_, par_, D_))
                if r[0] == "build":
                    flt = r[1]
                elif r[0] == "bad":
                    out.append(("tail", sub.lineno, r[1], True))
                elif r[0] == "unknown":
                    out.append(("tail", sub.lineno, r[1], False))
            continue
        r = classify_tail_stmt(st, flt, cut_var, (M_, k_, par_, D_))
        if r[0] == "build":
            flt = r[1]
            for what in r[2]:
                out.append(("tail", st.lineno, what, True))
        elif r[0] == "bad":
            out.append(("tail", st.lineno, r[1], True))
        elif r[0] == "unknown":
            out.append(("tail", st.lineno, r[1], False))
    return out


def classify_tail_stmt(st, flt, cut_var, names):
    M_, k_, par_, D_ = names
    if not isinstance(st, ast.Assign) or len(st.targets) != 1 or not isinstance(st.targets[0], ast.Name):
        return ("unknown", "statement `%s` after the amplitude matrix is not understood" % ast.unparse(st)[:70])
    tgt = st.targets[0].id
    v = st.value
    if isinstance(v, ast.ListComp) and len(v.generators) == 1:
        g = v.generators[0]
        it_name = g.iter.id if isinstance(g.iter, ast.Name) else None
        # building the filters from the rows
        calls = [c for c in ast.walk(v.elt) if isinstance(c, ast.Call) and ast.unparse(c.func).endswith("GeometricFilter")]
        if calls and it_name == cut_var:
            c = calls[0]
            issues = []
            if g.ifs:
                issues.append("rows are filtered (%s) when the filters are built: members of the family are dropped" % ast.unparse(g.ifs[0]))
            args = [ast.unparse(a) for a in c.args]
            if len(args) < 3 or args[1] != par_ or args[2] != D_:
                issues.append("filters are constructed with parity/D `%s`, not with the function's own %s, %s" % (", ".join(args[1:3]), par_, D_))
            if not (isinstance(g.target, ast.Name) and g.target.id in ast.unparse(c.args[0])):
                issues.append("the filter data is not the row itself")
            return ("build", tgt, issues)
        if it_name == flt and not g.ifs:
            e = v.elt
            # [ff.method() for ff in filters]
            if isinstance(e, ast.Call) and isinstance(e.func, ast.Attribute) and isinstance(e.func.value, ast.Name) and e.func.value.id == g.target.id:
                m = e.func.attr
                if m in RESCALE_METHODS:
                    return ("build", tgt, [])
                if m in NOT_RESCALE:
                    return ("bad", "every filter is replaced by its %s(): not a rescaling, the span changes" % m)
                if m == "bigness":
                    return ("aux", tgt)
                return ("unknown", "method %s applied to every filter is not classified" % m)
        if it_name == flt and g.ifs:
            return ("bad", "filters are dropped after generation (`if %s`)" % ast.unparse(g.ifs[0]))
        # [filters[i] for i in I]  -- a reordering if I is an argsort
        if isinstance(v.elt, ast.Subscript) and isinstance(v.elt.value, ast.Name) and v.elt.value.id == flt and not g.ifs:
            return ("build", tgt, [])
        # auxiliary list such as norms = [ff.bigness() for ff in filters]
        if it_name == flt:
            return ("aux", tgt)
    if isinstance(v, ast.Call):
        f = ast.unparse(v.func)
        if f.endswith("argsort") or f in ("sorted",):
            return ("aux", tgt)
    for sub in ast.walk(v):
        if isinstance(sub, ast.Subscript) and isinstance(sub.value, ast.Name) and sub.value.id == flt and isinstance(sub.slice, ast.Slice):
            return ("bad", "the filter list is sliced (`%s`): members of the family are dropped" % ast.unparse(sub))
    if isinstance(v, ast.BinOp) and any(isinstance(x, ast.Name) and x.id == flt for x in ast.walk(v)):
        return ("bad", "the filter list is extended/combined (`%s`)" % ast.unparse(v)[:60])
    if tgt == flt:
        return ("unknown", "re-assignment `%s` of the filter list is not understood" % ast.unparse(st)[:70])
    return ("aux", tgt)


def rescale_method_rule(ctx, qual):
    """Every return of GeometricFilter.normalize / rectify must be self or a non-zero scalar multiple of self."""
    pm = ctx.pm
    mod = GI_MOD
    fn = pm.func(mod, qual, required=False)
    if fn is None:
        fn = pm.func(mod, qual.replace("GeometricFilter", "GeometricImage"))
    out = []
    n = 0
    for r in ast.walk(fn):
        if not isinstance(r, ast.Return) or r.value is None:
            continue
        n += 1
        v = r.value
        if isinstance(v, ast.Name) and v.id == "self":
            continue
        scal = None
        if isinstance(v, ast.Call) and isinstance(v.func, ast.Attribute) and isinstance(v.func.value, ast.Name) and v.func.value.id == "self":
            if v.func.attr == "times_scalar" and len(v.args) == 1:
                scal = v.args[0]
            elif v.func.attr in NOT_RESCALE:
                out.append((r.lineno, "%s returns self.%s(...): not a rescaling of the filter" % (qual, v.func.attr), True))
                continue
        if isinstance(v, ast.BinOp) and isinstance(v.op, ast.Mult):
            if isinstance(v.left, ast.Name) and v.left.id == "self":
                scal = v.right
            elif isinstance(v.right, ast.Name) and v.right.id == "self":
                scal = v.left
        if scal is None:
            out.append((r.lineno, "%s returns `%s`, which is not recognised as self or a scalar multiple of self" % (qual, ast.unparse(v)[:60]), False))
            continue
        # the scalar must be provably non-zero: a non-zero constant, or 1/x
        s = scal
        if isinstance(s, ast.UnaryOp) and isinstance(s.op, ast.USub):
            s = s.operand
        if isinstance(s, ast.Constant) and isinstance(s.value, (int, float)):
            if s.value == 0:
                out.append((r.lineno, "%s multiplies the filter by 0" % qual, True))
            continue
        if isinstance(s, ast.BinOp) and isinstance(s.op, ast.Div) and isinstance(s.left, ast.Constant) and s.left.value not in (0, 0.0):
            continue
        out.append((r.lineno, "%s multiplies by `%s`, which is not known to be non-zero" % (qual, ast.unparse(scal)[:50]), False))
    return out, n


def passthrough_rule(ctx):
    pm = ctx.pm
    out = []
    fn = pm.func(COMMON_MOD, "get_invariant_filters_dict")
    params = [a.arg for a in fn.args.args]
    Ms, ks, pars, D_, ops_ = params[0], params[1], params[2], params[3], params[4]
    loops = {}
    for n in ast.walk(fn):
        if isinstance(n, ast.For) and isinstance(n.target, ast.Name) and isinstance(n.iter, ast.Name):
            loops[n.target.id] = n.iter.id
        elif isinstance(n, ast.For) and isinstance(n.target, ast.Name):
            loops[n.target.id] = ast.unparse(n.iter)
    calls = [n for n in ast.walk(fn) if isinstance(n, ast.Call) and ast.unparse(n.func).endswith("get_unique_invariant_filters")]
    if len(calls) != 1:
        raise AnalysisError("get_invariant_filters_dict: expected one call to get_unique_invariant_filters, found %d" % len(calls))
    c = calls[0]
    args = list(c.args)
    want = [Ms, ks, pars]
    for idx, (a, src) in enumerate(zip(args[:3], want)):
        nm = a.id if isinstance(a, ast.Name) else None
        if nm is None or loops.get(nm) != src:
            out.append((c.lineno, "argument %d of get_unique_invariant_filters is `%s`, not the loop variable over all of %s" % (idx, ast.unparse(a), src), True))
    if len(args) < 5 or ast.unparse(args[3]) != D_ or ast.unparse(args[4]) != ops_:
        out.append((c.lineno, "D / operators are not passed through unchanged (%s)" % ", ".join(ast.unparse(a) for a in args[3:5]), True))
    # list variant chains all values; multi-image variant uses all of the list
    fl = pm.func(COMMON_MOD, "get_invariant_filters_list")
    rets = [n for n in ast.walk(fl) if isinstance(n, ast.Return)]
    if not rets or "values()" not in ast.unparse(rets[0].value) or "[" in ast.unparse(rets[0].value).replace("[0]", "").split("values()")[1]:
        out.append((fl.lineno, "get_invariant_filters_list does not return all values of the dictionary: `%s`" % ast.unparse(rets[0].value)[:70], False))
    fm = pm.func(COMMON_MOD, "get_invariant_filters")
    rets = [n for n in ast.walk(fm) if isinstance(n, ast.Return)]
    src = ast.unparse(rets[0].value) if rets else ""
    if "from_images" not in src:
        out.append((fm.lineno, "get_invariant_filters does not build its MultiImage with from_images: `%s`" % src[:70], False))
    else:
        call = [n for n in ast.walk(rets[0].value) if isinstance(n, ast.Call) and ast.unparse(n.func).endswith("from_images")][0]
        if not (call.args and isinstance(call.args[0], ast.Name)):
            out.append((fm.lineno, "get_invariant_filters hands `%s` to from_images (a slice or filtered list drops members)" % ast.unparse(call.args[0])[:50] if call.args else "nothing", True))
    return out


def run(ctx):
    ev, pm = ctx.ev, ctx.pm
    ev.explanation = (
        "get_unique_invariant_filters takes no data. (1) Its body (working tree) is partially evaluated in exact rational arithmetic by the abstract interpreter up to the "
        "amplitude matrix whose rows become the filters; on that matrix it is decided exactly that every row is fixed by every group element, that the rows are linearly "
        "independent (rank over Q) and that their number equals the dimension of the fixed subspace given by the character formula -- for B_D, the rotation subgroup, the "
        "axis-flip group, C4 and the trivial group, D=2,3, M odd and even, k up to 3/4, both parities. (2) AST/CF rules decide that each filter is built from one row with "
        "the function's parity and D and that everything afterwards (normalize, bigness sort, rectify) is a non-zero per-filter rescaling or a permutation. (3) AST: the "
        "dict/list/multi-image wrappers pass (M,k,parity,D,operators) through unchanged and drop nothing."
    )
    ev.rule_text = "one obligation per (G, D, M, k, parity); non-trivial = fixed-space dimension >= 1 and |G| > 1"
    ev.assumptions = ["the float32 arithmetic of the real run reproduces the exact integer group average (sums of at most |G| signed unit entries) and np.unique separates exactly equal rows", "operators passed by callers form a group"]
    fn = pm.func(COMMON_MOD, "get_unique_invariant_filters")
    ev.functions.add(COMMON_MOD + ".get_unique_invariant_filters")
    cut_var, last, build_idx = find_cut(fn)
    ev.extra["amplitude_variable"] = cut_var
    path = pm.path(COMMON_MOD)
    # AST rules
    n_tail = 0
    for kind, line, what, definite in tail_rule(ctx, fn, cut_var, build_idx):
        n_tail += 1
        if definite:
            ctx.add(Finding("C03", "C03.TAIL", "get_unique_invariant_filters", what, path, line, None, "tail"))
        else:
            raise AnalysisError("get_unique_invariant_filters line %d: %s" % (line, what))
    ev.instances("C03.TAIL.statements", len(fn.body) - build_idx, floor=1)
    rescale_undecided = []
    for q in ("GeometricFilter.rectify", "GeometricImage.normalize"):
        res, n = rescale_method_rule(ctx, q)
        ev.instances("C03.RESCALE.returns", n)
        ev.functions.add(GI_MOD + "." + q)
        for line, what, definite in res:
            if definite:
                ctx.add(Finding("C03", "C03.RESCALE", q, what, pm.path(GI_MOD), line, None, "rescale"))
            elif q == "GeometricFilter.rectify":
                rescale_undecided.append(what)  # decided semantically below (exact evaluation on every filter)
            else:
                raise AnalysisError(what)
    ev.floors["C03.RESCALE.returns"] = 2  # at least one return per method; how many there are is a matter of style
    for line, what, definite in passthrough_rule(ctx):
        if definite:
            ctx.add(Finding("C03", "C03.PASS", "get_invariant_filters_dict", what, path, line, None, "passthrough"))
        else:
            raise AnalysisError(what)
    ev.functions.update([COMMON_MOD + ".get_invariant_filters_dict", COMMON_MOD + ".get_invariant_filters_list", COMMON_MOD + ".get_invariant_filters"])
    # CACHE: memo keys of the generator module and of the symbol caches it relies on
    n_c = 0
    for mod in (COMMON_MOD, "ginjax.geometric.constants"):
        found, n = scan_module(pm.module(mod))
        n_c += n
        for q, line, what in found:
            ctx.add(Finding("C03", "C03.CACHE", q, what, pm.path(mod), line, None, "memo-key"))
    # the expected number of reports is zero, so the rule is kept from going vacuous by a built-in positive example
    # (a memo table keyed by len(operators)) that must be reported on every run, not by the number of caches in /repo
    witness = ast.parse("cache = {}\ndef f(D, operators):\n    key = (D, len(operators))\n    if key not in cache:\n        cache[key] = [D * o for o in operators]\n    return cache[key]\n")
    wfound, wn = scan_module(witness)
    if wn != 1 or len(wfound) != 1:
        raise AnalysisError("C03.CACHE: the built-in positive example is no longer reported (%d caches, %d reports)" % (wn, len(wfound)))
    ev.instances("C03.CACHE.memo_functions", n_c, floor=0)
    ev.instances("C03.CACHE.builtin_positive_example", len(wfound), floor=1)
    th = ctx.thorough()
    jobs = []
    for D in (2, 3):
        groups = ["B", "rot", "C2", "trivial"] + (["C4"] if D == 2 else [])
        for gname in groups:
            Ms = (1, 2, 3, 4, 5) if (th and D == 2) else ((1, 2, 3) if D == 2 else ((1, 2, 3) if th else (2, 3)))
            for M in Ms:
                kmax = (4 if th else 3) if D == 2 else (2 if th else 1)
                if D == 2 and M >= 4:
                    kmax = min(kmax, 2)
                for k in range(kmax + 1):
                    for p in (0, 1):
                        if not th and gname in ("C2", "trivial", "C4") and (k > 1 or M > 2):
                            continue
                        if D == 3 and gname in ("trivial",) and M > 2:
                            continue
                        if D == 3 and not th and M == 3 and k > 0:
                            continue
                        jobs.append((ctx.repo, D, M, k, p, gname, cut_var, last + 1))
    # the same groups listed in another order (the family must not depend on where the identity stands in the list)
    for D in (2, 3) if th else (2,):
        for gname in ("B:reversed", "B:rotated", "rot:rotated", "C2:reversed"):
            for M, k in ((3, 0), (3, 1), (2, 1)) + (((3, 2),) if th else ()):
                for p in (0, 1):
                    if D == 3 and k > 1:
                        continue
                    jobs.append((ctx.repo, D, M, k, p, gname, cut_var, last + 1))
    # large seed bases (M**D * D**k beyond 500 and 1000: any blocking / chunking of the seed set has to show here)
    jobs.append((ctx.repo, 3, 4, 2, 0, "inv", cut_var, last + 1))
    if th:
        jobs.append((ctx.repo, 2, 5, 4, 1, "inv", cut_var, last + 1))
        jobs.append((ctx.repo, 3, 5, 2, 1, "inv", cut_var, last + 1))
        jobs.append((ctx.repo, 3, 3, 3, 0, "inv", cut_var, last + 1))
        for gname in ("B", "rot", "C2"):
            jobs.append((ctx.repo, 3, 4, 2, 0, gname, cut_var, last + 1))
        jobs.append((ctx.repo, 3, 3, 3, 1, "B", cut_var, last + 1))
        jobs.append((ctx.repo, 3, 4, 2, 1, "B:reversed", cut_var, last + 1))
    jobs.sort(key=lambda j: -(j[2] ** j[1] * j[1] ** j[3]) * (48 if j[5].startswith("B") else 24 if j[5].startswith("rot") else 8 if j[5].startswith("C") else 2))
    by = {}
    for job, r in ctx.pairs(worker, jobs, chunk=1):
        cfg = r["cfg"]
        if cfg.get("rectify") == "undecided":
            ev.extra["rectify_undecided"] = True
        ev.obligation("family", not r["problems"], tuple(cfg.values()) if cfg.get("fixed_space_dimension", 0) >= 1 and cfg["order"] > 1 else None, sample=cfg if ev.obligations % 13 == 0 else None)
        for kind, what, site in r["problems"]:
            by.setdefault(kind, []).append((what, site, cfg))
    if rescale_undecided and ev.extra.get("rectify_undecided"):
        raise AnalysisError(rescale_undecided[0])
    ev.extra["rescale_notes"] = rescale_undecided
    for kind, items in sorted(by.items()):
        what, site, cfg = items[0]
        if kind == "rectify":
            fnr = pm.func(GI_MOD, "GeometricFilter.rectify")
            ctx.add(Finding("C03", "C03.AXI.rectify", "GeometricFilter.rectify", "%s (%d of the swept configurations fail)" % (what, len(items)), pm.path(GI_MOD), fnr.lineno, cfg, kind))
            continue
        ctx.add(Finding("C03", "C03.AXI." + kind, "get_unique_invariant_filters", "%s (%d of the swept configurations fail)" % (what, len(items)), path, fn.lineno, cfg, kind))
    # the dict / list wrappers, semantically (generator stubbed): every requested (M, k, parity) for every kind of group
    wj = []
    for D in (2, 3):
        for gname in ("B", "rot", "C2", "trivial", "swap", "inv") + (("C4",) if D == 2 else ()):
            wj.append((ctx.repo, D, gname, (3,), (0, 1), (0, 1)))
            wj.append((ctx.repo, D, gname, (2, 3), (1,), (1, 0)))
            if th:
                wj.append((ctx.repo, D, gname, (3,), (0, 1, 2), (1,)))
    wby = []
    for job, r in ctx.pairs(wrapper_worker, wj):
        ev.obligation("wrapper", not r["problems"], tuple(str(v) for v in r["cfg"].values()), sample=r["cfg"] if r["cfg"]["group"] == "swap" and r["cfg"]["D"] == 2 else None)
        for kind, what, site in r["problems"]:
            wby.append((kind, what, r["cfg"]))
    if wby:
        kind, what, cfg = wby[0]
        node = pm.func(COMMON_MOD, "get_invariant_filters_dict")
        ctx.add(Finding("C03", "C03.AXI.wrapper", "get_invariant_filters_dict", "%s (%d reports over the swept groups / requests)" % (what, len(wby)), path, node.lineno, cfg, "wrapper"))
    ev.instances("C03.AXI.obligations", ev.obligations, floor=70 if ctx.tier == "quick" else 250)
    ev.exhaustive = th
