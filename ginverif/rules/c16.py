"""C16 -- autoregressive rollout feeds each prediction back correctly.

Deciding method: abstract interpretation of autoregressive_step / autoregressive_map (working tree)
with the model an *uninterpreted function symbol* M of its whole input (values and type order), so
the verdict holds for every model.  The oracle is the sliding-window recurrence of the statement,
written directly on the symbolic blocks.
"""

from .. import arr as A
from ..poly import Poly, as_poly, sym_id, pk
from ..report import Finding
from .common import *


class PlainMI(object):
    """Minimal ordered type->block container used only by the specification side."""

    def __init__(self, blocks, D, is_torus):
        self.blocks = dict(blocks)
        self.D = D
        self.is_torus = is_torus

    def keys(self):
        return self.blocks.keys()

    def __getitem__(self, t):
        return self.blocks[t]


class ModelSym(object):
    """M(x): every output element is an opaque function of the complete input (blocks, their values, their order)."""

    def __init__(self, it, out_channels, D, spatial, plain=False):
        self.it = it
        self.out_channels = out_channels
        self.D = D
        self.spatial = spatial
        self.calls = []

    def blocks_for(self, x, aux=None):
        key = tuple((t, x[t].shape, tuple(pk(e) for e in x[t].elems)) for t in x.keys())
        if aux is not None:
            # a stateful model: every output element also depends on the auxiliary state it was handed
            key = (key, ("state", aux))
        kid = sym_id(("appkey", key))
        self.last = kid
        self.calls.append(kid)
        out = {}
        for t, c in self.out_channels.items():
            shape = (c,) + tuple(self.spatial) + (self.D,) * t[0]
            n = 1
            for s in shape:
                n *= s
            out[t] = A.Arr(shape, [Poly.fn("M", kid, t, i) for i in range(n)], "float")
        return out

    def __call__(self, x, aux=None):
        MI = self.it.get_module(GEOM).MultiImage
        out = MI(self.blocks_for(x, aux), x.D, x.is_torus)
        # the new state is an opaque function S of (input, old state); a stateless call (aux None) stays stateless
        return out, (None if aux is None else ("S", self.last))


def spec_step(order, blocks, pred, past, const):
    new = {}
    for t in order:
        blk = blocks[t]
        nc = const.get(t, 0)
        nd = blk.shape[0] - nc
        parts = []
        if nd > 0:
            c = nd // past
            dyn = blk[:nd]
            w = A.reshape(dyn, (c, past) + dyn.shape[1:])
            w2 = A.concatenate([w[:, 1:], A.expand_dims(pred[t], 1)], 1)
            parts.append(A.reshape(w2, (c * past,) + dyn.shape[1:]))
        if nc > 0:
            parts.append(blk[nd:])
        new[t] = parts[0] if len(parts) == 1 else A.concatenate(parts, 0)
    return new


def worker(job):
    repo, D, order, dyn_c, const, past, n, entry = job[:8]
    emit = job[8] if len(job) > 8 else "input"
    stateful = emit == "stateful"
    it, w = get_interp(repo)
    ml = it.get_module("ginjax.ml")
    sp = SPATIAL[D]
    order = [tuple(t) for t in order]
    blocks = {}
    for t in order:
        c = dyn_c.get(t, 0) * past + const.get(t, 0)
        blocks[t] = block("x", t, (c,), sp, D)
    # "for every model": a model may hand back its output types in any order
    emit_order = list(order) if emit in ("input", "stateful") else list(reversed(order)) if emit == "reversed" else sorted(order)
    out_c = {t: dyn_c[t] for t in emit_order if dyn_c.get(t, 0) > 0}
    x = make_multi(it, order, blocks, D, True)
    model = ModelSym(it, out_c, D, sp)
    cfg = dict(entry=entry, D=D, order=[list(t) for t in order], model_emits=emit, dynamic_channels={tname(t): c for t, c in dyn_c.items()}, constants={tname(t): c for t, c in const.items()}, past_steps=past, steps=n)
    problems = []
    cdict = {t: c for t, c in const.items() if c > 0}
    if entry == "map":
        res = attempt(lambda: ml.autoregressive_map(model, x, ("S0",) if stateful else None, past, n, cdict))
    else:
        def run_steps():
            cur = x
            preds = []
            for _ in range(n):
                p, _a = model(cur, None)
                preds.append(p)
                cur = ml.autoregressive_step(cur, p, past, cdict)
            return cur, preds

        res = attempt(run_steps)
    # specification
    spec_model = ModelSym(it, out_c, D, sp)
    cur = dict(blocks)
    preds = []
    state = ("S0",) if stateful and entry == "map" else None
    for i in range(n):
        p = spec_model.blocks_for(PlainMI({t: cur[t] for t in order}, D, (True,) * D), state)
        if state is not None:
            state = ("S", spec_model.last)
        preds.append(p)
        cur = spec_step(order, cur, p, past, cdict)
    if isinstance(res, Rejected):
        problems.append(("rejected", "rollout rejected: %s" % res.exc, None))
        return dict(cfg=cfg, problems=problems)
    if entry == "map":
        out, aux = res
        if aux != state:
            problems.append(("aux", "the auxiliary state handed back is %r, expected %s" % (aux, "None (none was given)" if state is None else "the state returned by the last of the %d model applications (each application must receive the state returned by the previous one)" % n), None))
        if not is_multi(out):
            problems.append(("type", "result is %s" % type(out).__name__, None))
        else:
            if set(out.keys()) != set(out_c):
                problems.append(("keys", "rollout holds types %s, expected %s" % (sorted(out.keys()), sorted(out_c)), None))
            for t in out_c:
                if t not in out:
                    continue
                # (c, n): per channel, the n predictions in time order
                exp = A.reshape(A.stack([preds[i][t] for i in range(n)], 1), (out_c[t] * n,) + preds[0][t].shape[1:])
                if not same_elems(out[t], exp):
                    problems.append(("rollout", "block %s of the rollout is not (per channel) the %d successive predictions in time order: %s" % (tname(t), n, first_diff(out[t], exp)), site_of(out[t])))
                    break
    else:
        final, got_preds = res
        if not is_multi(final):
            problems.append(("type", "result is %s" % type(final).__name__, None))
        else:
            if list(final.keys()) != order:
                problems.append(("order", "new input holds types in order %s, expected the input's order %s" % (list(final.keys()), order), None))
            for t in order:
                if t in final and not same_elems(final[t], cur[t]):
                    problems.append(("window", "block %s of the next input is not 'drop oldest, append prediction, keep constants': %s" % (tname(t), first_diff(final[t], cur[t])), site_of(final[t])))
                    break
    return dict(cfg=cfg, problems=problems)


def run(ctx):
    ev, pm = ctx.ev, ctx.pm
    ev.explanation = (
        "Abstract interpretation of ml.autoregressive_step and ml.autoregressive_map with the model an uninterpreted function symbol of its "
        "entire input (so the result holds for every model, including history-sensitive ones); the n-step result must equal the sliding-window "
        "recurrence of the statement, per type, per channel, in time order, with constants carried unchanged at their position and the input's type order kept."
    )
    ev.rule_text = "one obligation per (entry point, D, ordered signature with dynamic/constant channel counts, past steps 1-4, rollout length 1-4); non-trivial = >=2 types or constants present or n>=2"
    ev.assumptions = ["future_steps == 1 (the code rejects anything else)", "the model returns blocks of the declared output signature"]
    for q in ("autoregressive_step", "autoregressive_map"):
        pm.func(TRAIN_MOD, q)
        ev.functions.add(TRAIN_MOD + "." + q)
    for q in ("MultiImage.concat_inverse", "MultiImage.expand", "MultiImage.concat", "MultiImage.combine_axes"):
        pm.func(MI_MOD, q)
    sigs = [
        # (order, dynamic channels, constants)
        ([(0, 0)], {(0, 0): 1}, {}),
        ([(0, 0), (1, 0)], {(0, 0): 2, (1, 0): 1}, {}),
        ([(1, 0), (0, 0)], {(0, 0): 2, (1, 0): 1}, {(0, 0): 1}),
        ([(0, 0), (1, 0), (0, 1)], {(0, 0): 1, (1, 0): 2}, {(0, 1): 2, (1, 0): 1}),
        ([(0, 1), (1, 0)], {(1, 0): 1}, {(0, 1): 1}),
        ([(2, 0), (0, 0)], {(2, 0): 1, (0, 0): 3}, {(0, 0): 2}),
    ]
    jobs = []
    Ds = (2, 3)
    for D in Ds:
        for order, dyn, const in sigs:
            if D == 3 and len(order) > 2:
                continue
            for past in (1, 2, 3, 4):
                for n in (1, 2, 3, 4):
                    if not ctx.thorough() and D == 3 and (past, n) not in ((2, 3), (3, 2)):
                        continue
                    for entry in ("step", "map"):
                        jobs.append((ctx.repo, D, order, dyn, const, past, n, entry))
                        if len([t for t in order if dict(dyn).get(tuple(t), 0) > 0]) >= 2 and (past, n) in ((1, 2), (2, 3), (3, 2)):
                            jobs.append((ctx.repo, D, order, dyn, const, past, n, entry, "reversed"))
                            jobs.append((ctx.repo, D, order, dyn, const, past, n, entry, "sorted"))
                        if entry == "map" and (past, n) in ((1, 1), (1, 2), (2, 3), (3, 2), (2, 4)):
                            # "n explicit applications of the model": a model with auxiliary state (batch statistics, a counter)
                            # must see, at step t+1, the state it returned at step t
                            jobs.append((ctx.repo, D, order, dyn, const, past, n, entry, "stateful"))
    results = ctx.pairs(worker, jobs)
    by = {}
    for job, r in results:
        cfg = r["cfg"]
        nontriv = len(cfg["order"]) >= 2 or cfg["constants"] or cfg["steps"] >= 2
        ev.obligation("rollout", not r["problems"], tuple(str(v) for v in cfg.values()) if nontriv else None, sample=cfg if ev.obligations % 29 == 0 else None)
        for kind, what, site in r["problems"]:
            by.setdefault((cfg["entry"], kind), []).append((what, site, cfg))
    for (entry, kind), items in sorted(by.items()):
        what, site, cfg = items[0]
        q = "autoregressive_map" if entry == "map" else "autoregressive_step"
        node = pm.func(TRAIN_MOD, q)
        path, line = pm.path(TRAIN_MOD), node.lineno
        if site and site[0]:
            path, line = site[0], site[1]
        ctx.add(Finding("C16", "C16.AXI." + kind, q, "%s (%d of the swept configurations fail)" % (what, len(items)), path, line, cfg, kind))
    ev.instances("C16.AXI.obligations", ev.obligations, floor=60 if ctx.tier == "quick" else 250)
    ev.exhaustive = ctx.thorough()
