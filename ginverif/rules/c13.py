"""C13 -- re-layouts and serialisations are lossless round trips.

Deciding method: abstract interpretation of each inverse pair of MultiImage / GeometricImage
re-layout methods (from the working tree) on symbolic blocks: the composition must be the identity
as exact element provenance (hence for all values) with keys, D and flags preserved.  PYTREE (AST):
tree_flatten children + aux keys must cover the constructor parameters.  save/load: AST pairing rule.
"""

import ast
import itertools

from .. import arr as A
from ..report import Finding, AnalysisError
from ..shims import tree_map, pytree_roundtrip
from .common import *
from ..shims import Device

PAIRS = ["vector", "scalar", "concat", "expand", "merge", "pmap", "images", "copy", "pytree", "chain"]

ANCHORS = [
    "MultiImage.to_vector", "MultiImage.from_vector", "MultiImage.to_scalar_multi_image", "MultiImage.from_scalar_multi_image",
    "MultiImage.concat", "MultiImage.concat_inverse", "MultiImage.append", "MultiImage.expand", "MultiImage.combine_axes",
    "MultiImage.merge_axes", "MultiImage.reshape_pmap", "MultiImage.from_images", "MultiImage.to_images", "MultiImage.copy",
    "MultiImage.tree_flatten", "MultiImage.tree_unflatten",
]


def chan(t, i):
    return [1, 2, 3, 4][(t[0] * 2 + t[1] + i) % 4]


def lead_for(nl, c, variant=0):
    base = {0: (), 1: (c,), 2: (3, c), 3: (2, 3, c)}[nl]
    return base


def multi_equal(got, want_blocks, D, flags, what, problems, keys=None):
    if isinstance(got, Rejected):
        problems.append(("rejected", "%s: rejected (%s)" % (what, got.exc), None))
        return
    if not is_multi(got):
        problems.append(("type", "%s: result is %s" % (what, type(got).__name__), None))
        return
    if set(got.keys()) != set(want_blocks.keys()):
        problems.append(("keys", "%s: types %s, expected %s" % (what, sorted(got.keys()), sorted(want_blocks.keys())), None))
        return
    if got.D != D or tuple(got.is_torus) != tuple(flags):
        problems.append(("meta", "%s: D=%r is_torus=%r, expected D=%r is_torus=%r" % (what, got.D, got.is_torus, D, flags), None))
    for t, b in want_blocks.items():
        if not same_elems(got[t], b):
            problems.append(("identity", "%s: block %s is not restored: %s" % (what, tname(t), first_diff(got[t], b)), site_of(got[t])))
            return


def worker(job):
    repo, pair, D, order, nl, extra = job
    it, w = get_interp(repo, n_devices=extra.get("ndev", 1) if isinstance(extra, dict) else 1)
    geom = it.get_module(GEOM)
    MI = geom.MultiImage
    sp = SPATIAL[D]
    flags = (True, False, True)[:D]
    blocks = {t: block("m", t, lead_for(nl, chan(t, i)), sp, D) for i, t in enumerate(order)}
    cfg = dict(pair=pair, D=D, order=[list(t) for t in order], leading_axes=nl, extra=extra)
    problems = []

    def build(bl=None, od=None):
        return make_multi(it, od or order, bl or blocks, D, flags)

    if pair == "vector":
        m = build()
        r = attempt(lambda: MI.from_vector(m.to_vector(), m))
        multi_equal(r, blocks, D, flags, "from_vector(to_vector(m), m)", problems)
        v = attempt(lambda: m.to_vector())
        if isinstance(v, A.Arr):
            tot = sum(b.size for b in blocks.values())
            if v.shape != (tot,):
                problems.append(("shape", "to_vector has shape %r, expected (%d,)" % (v.shape, tot), site_of(v)))
    elif pair == "scalar":
        if nl == 0:
            return dict(cfg=cfg, problems=[], skip=True)
        m = build()
        r = attempt(lambda: m.to_scalar_multi_image().from_scalar_multi_image(m.get_signature()))
        multi_equal(r, blocks, D, flags, "from_scalar_multi_image(to_scalar_multi_image(m))", problems)
        s = attempt(lambda: m.to_scalar_multi_image())
        if is_multi(s):
            if list(s.keys()) != [(0, 0)]:
                problems.append(("keys", "to_scalar_multi_image holds %s" % list(s.keys()), None))
            else:
                want_c = sum(b.shape[nl - 1] * D ** t[0] for t, b in blocks.items())
                if s[(0, 0)].shape != blocks[order[0]].shape[: nl - 1] + (want_c,) + tuple(sp):
                    problems.append(("shape", "scalar image has shape %r" % (s[(0, 0)].shape,), site_of(s[(0, 0)])))
    elif pair == "concat":
        if nl == 0:
            return dict(cfg=cfg, problems=[], skip=True)
        axis = extra["axis"]
        if axis >= nl:
            return dict(cfg=cfg, problems=[], skip=True)
        # a holds order, b holds a (possibly different) subset given by extra['b']
        b_types = [tuple(t) for t in extra["b"]]
        bb = {}
        for i, t in enumerate(b_types):
            sh = list(lead_for(nl, chan(t, order.index(t) if t in order else i)))
            sh[axis] = [2, 1, 3][i % 3]
            bb[t] = block("n", t, sh, sp, D)
        a_types = [t for t in order if t not in extra.get("only_b", [])]
        ab = {t: blocks[t] for t in a_types}
        a = build(ab, a_types)
        b = make_multi(it, b_types, bb, D, flags)
        sig = {t: x.shape[axis] for t, x in bb.items()}
        r = attempt(lambda: a.concat(b, axis=axis).concat_inverse(sig, axis=axis))
        if not isinstance(r, Rejected):
            multi_equal(a, ab, D, flags, "left operand after a.concat(b) (must be unchanged)", problems)
            multi_equal(b, bb, D, flags, "right operand after a.concat(b) (must be unchanged)", problems)
        if isinstance(r, Rejected):
            problems.append(("rejected", "concat/concat_inverse rejected: %s" % r.exc, None))
        else:
            ra, rb = r
            multi_equal(ra, ab, D, flags, "first part of concat_inverse(concat(a,b))", problems)
            multi_equal(rb, bb, D, flags, "second part of concat_inverse(concat(a,b))", problems)
        if axis == nl - 1 and not problems:
            # with the Signature form (last leading axis)
            r2 = attempt(lambda: a.concat(b, axis=axis).concat_inverse(b.get_signature(), axis=axis))
            if not isinstance(r2, Rejected):
                multi_equal(r2[0], ab, D, flags, "first part of concat_inverse(concat(a,b), b.get_signature())", problems)
                multi_equal(r2[1], bb, D, flags, "second part of concat_inverse(concat(a,b), b.get_signature())", problems)
            else:
                problems.append(("rejected", "concat_inverse with a Signature rejected: %s" % r2.exc, None))
    elif pair == "expand":
        if nl == 0:
            return dict(cfg=cfg, problems=[], skip=True)
        axis = extra["axis"]
        if axis >= nl:
            return dict(cfg=cfg, problems=[], skip=True)
        size = extra["size"]
        bl = {}
        for i, t in enumerate(order):
            sh = list(lead_for(nl, chan(t, i)))
            sh[axis] = sh[axis] * size
            bl[t] = block("m", t, sh, sp, D)
        m = build(bl)
        r = attempt(lambda: m.expand(axis, size).combine_axes((axis, axis + 1)))
        multi_equal(r, bl, D, flags, "combine_axes(expand(m))", problems)
        e = attempt(lambda: m.expand(axis, size))
        if is_multi(e):
            for t in order:
                sh = bl[t].shape
                want = sh[:axis] + (sh[axis] // size, size) + sh[axis + 1:]
                if e[t].shape != want:
                    problems.append(("shape", "expand gives %r for block %s, expected %r" % (e[t].shape, tname(t), want), site_of(e[t])))
                    break
                # element (.., c, s, ..) of the expansion is element (.., c*size+s, ..) of the input
                if not same_elems(A.reshape(e[t], sh), bl[t]):
                    problems.append(("identity", "expand is not a pure regrouping of block %s" % tname(t), site_of(e[t])))
                    break
        r2 = attempt(lambda: m.expand(axis, size).merge_axes((axis, axis + 1)))
        multi_equal(r2, bl, D, flags, "merge_axes(expand(m))", problems)
        # three adjacent axes at once: expand twice, then combine / merge all three
        if True:
            bl3 = {}
            for i, t in enumerate(order):
                sh = list(bl[t].shape[:nl])
                sh[axis] = sh[axis] * size
                bl3[t] = block("q", t, sh, sp, D)
            m3 = build(bl3)
            for meth in ("combine_axes", "merge_axes"):
                r3 = attempt(lambda: getattr(m3.expand(axis, size).expand(axis, size), meth)((axis, axis + 1, axis + 2)))
                multi_equal(r3, bl3, D, flags, "%s(expand(expand(m)), three axes)" % meth, problems)
    elif pair == "pmap":
        if nl == 0:
            return dict(cfg=cfg, problems=[], skip=True)
        ndev = extra["ndev"]
        bl = {}
        for i, t in enumerate(order):
            sh = list(lead_for(nl, chan(t, i)))
            sh[0] = ndev * 2 if nl > 1 else ndev * 2
            bl[t] = block("m", t, sh, sp, D)
        m = build(bl)
        devs = [Device(i) for i in range(ndev)]
        r = attempt(lambda: m.reshape_pmap(devs).merge_axes([0, 1]))
        multi_equal(r, bl, D, flags, "merge_axes(reshape_pmap(m))", problems)
        e = attempt(lambda: m.reshape_pmap(devs))
        if is_multi(e):
            for t in order:
                sh = bl[t].shape
                want = (ndev, sh[0] // ndev) + sh[1:]
                if e[t].shape != want or not same_elems(A.reshape(e[t], sh), bl[t]):
                    problems.append(("identity", "reshape_pmap is not the regroup (B)->(n_dev,B/n_dev) for block %s: shape %r" % (tname(t), e[t].shape), site_of(e[t])))
                    break
    elif pair == "images":
        if nl != 1:
            return dict(cfg=cfg, problems=[], skip=True)
        m = build()
        r = attempt(lambda: MI.from_images(m.to_images()))
        multi_equal(r, blocks, D, flags, "from_images(to_images(m))", problems)
        imgs = attempt(lambda: m.to_images())
        if isinstance(imgs, list):
            want = []
            for t in order:
                for c in range(blocks[t].shape[0]):
                    want.append((t, blocks[t][c]))
            if len(imgs) != len(want):
                problems.append(("count", "to_images gives %d images, expected %d" % (len(imgs), len(want)), None))
            else:
                for im, (t, b) in zip(imgs, want):
                    if (im.k, im.parity) != t or im.D != D or tuple(im.is_torus) != tuple(flags) or not same_elems(im.data, b):
                        problems.append(("identity", "to_images: image of type %s is (k=%r,parity=%r,D=%r,is_torus=%r) or has the wrong pixels" % (tname(t), im.k, im.parity, im.D, im.is_torus), site_of(im.data)))
                        break
    elif pair == "from_images":
        # from_images(images, n_lead_axes, axis): every image gets n_lead_axes leading singleton axes and images of
        # one type are concatenated along `axis`; to_images must give the images back (grouped by type)
        geomI = geom.GeometricImage
        n_lead, axis = extra["n_lead"], extra["axis"]
        imgs, per_type = [], {}
        cnt = 0
        for rep in range(2):
            for t in order:
                if D == 1 and t[0] > 0:
                    continue
                cnt += 1
                data = A.leaf("i%d" % cnt, tuple(sp) + (D,) * t[0])
                imgs.append(geomI(data, t[1], D, flags))
                per_type.setdefault(t, []).append(data)
        if not imgs:
            return dict(cfg=cfg, problems=[], skip=True)
        r = attempt(lambda: MI.from_images(imgs, n_lead, axis))
        if isinstance(r, Rejected):
            problems.append(("rejected", "from_images(n_lead_axes=%d, axis=%d) rejected: %s" % (n_lead, axis, r.exc), None))
        else:
            for t, ds in per_type.items():
                exp = A.concatenate([A.reshape(d, (1,) * n_lead + d.shape) for d in ds], axis)
                if t not in r or r[t].shape != exp.shape or not same_elems(r[t], exp):
                    problems.append(("identity", "from_images(n_lead_axes=%d, axis=%d): block %s is not the images stacked on axis %d behind %d leading axes (shape %r, expected %r)" % (n_lead, axis, tname(t), axis, n_lead, r[t].shape if t in r else None, exp.shape), site_of(r[t]) if t in r else None))
                    break
            if not problems:
                back = attempt(lambda: r.to_images())
                want = [d for t in per_type for d in per_type[t]]
                if isinstance(back, Rejected) or len(back) != len(want) or any(not same_elems(b.data, w) for b, w in zip(back, want)):
                    problems.append(("identity", "to_images(from_images(images, %d, %d)) does not give the images back" % (n_lead, axis), None))
    elif pair == "copy":
        m = build()
        r = attempt(lambda: m.copy())
        multi_equal(r, blocks, D, flags, "copy(m)", problems)
        if is_multi(r) and r.data is m.data:
            problems.append(("alias", "copy shares the dict of its source", None))
    elif pair == "pytree":
        m = build()
        r = attempt(lambda: pytree_roundtrip(m))
        multi_equal(r, blocks, D, flags, "tree_unflatten(tree_flatten(m))", problems)
        if is_multi(r) and list(r.keys()) != sorted(blocks.keys()):
            problems.append(("model", "internal: pytree model did not sort keys", None))
        GI = geom.GeometricImage
        GF = geom.GeometricFilter
        for cls, shape in ((GI, sp), (GF, (3,) * D)):
            for t in order[:2]:
                if D == 1 and t[0] > 0:
                    continue
                data = A.leaf("g", tuple(shape) + (D,) * t[0])
                g = attempt(lambda: cls(data, t[1], D, flags))
                if isinstance(g, Rejected):
                    problems.append(("rejected", "%s constructor rejected: %s" % (cls.name, g.exc), None))
                    continue
                r = attempt(lambda: pytree_roundtrip(g))
                if isinstance(r, Rejected):
                    problems.append(("rejected", "%s pytree round trip rejected: %s" % (cls.name, r.exc), None))
                elif not (r.cls is g.cls and r.D == D and r.k == t[0] and r.parity == t[1] and tuple(r.is_torus) == tuple(flags) and tuple(r.spatial_dims) == tuple(shape) and same_elems(r.data, data)):
                    problems.append(("identity", "%s pytree round trip changed the image: k=%r parity=%r D=%r is_torus=%r" % (cls.name, r.k, r.parity, r.D, r.is_torus), None))
    elif pair == "chain":
        if nl == 0:
            return dict(cfg=cfg, problems=[], skip=True)
        m = build()
        ops = extra["ops"]

        def apply(m, op):
            if op == "vector":
                return MI.from_vector(m.to_vector(), m)
            if op == "scalar":
                return m.to_scalar_multi_image().from_scalar_multi_image(m.get_signature())
            if op == "pytree":
                return pytree_roundtrip(m)
            if op == "copy":
                return m.copy()
            if op == "images" and nl == 1:
                return MI.from_images(m.to_images())
            if op == "expand":
                return m.expand(nl - 1, 1).combine_axes((nl - 1, nl))
            return m

        def chain():
            x = m
            for op in ops:
                x = apply(x, op)
            return x

        r = attempt(chain)
        multi_equal(r, blocks, D, flags, "chain %s" % "+".join(ops), problems)
    return dict(cfg=cfg, problems=problems)


# ------------------------------------------------------------------------- AST rules


def pytree_rule(ctx, mod, clsname):
    """tree_flatten's children + aux_data keys must be exactly the __init__ parameters (PYTREE)."""
    pm = ctx.pm
    cls = pm.cls(mod, clsname)
    flat = pm.func(mod, clsname + ".tree_flatten")
    unfl = pm.func(mod, clsname + ".tree_unflatten")
    init = pm.func(mod, clsname + ".__init__", required=False)
    if init is None:
        for b in cls.bases:
            bn = b.id if isinstance(b, ast.Name) else None
            if bn:
                init = pm.func(mod, bn + ".__init__", required=False)
    if init is None:
        raise AnalysisError("no __init__ found for pytree class %s" % clsname)
    params = [a.arg for a in init.args.args[1:]]
    # children = (self.a, ...) ; aux_data = {"x": self.x, ...}
    children, aux = None, None
    env = {}
    for st in flat.body:
        if isinstance(st, ast.Assign) and len(st.targets) == 1 and isinstance(st.targets[0], ast.Name):
            env[st.targets[0].id] = st.value
        if isinstance(st, ast.Return):
            v = st.value
            if isinstance(v, ast.Tuple) and len(v.elts) == 2:
                c, a = v.elts
                c = env.get(c.id, c) if isinstance(c, ast.Name) else c
                a = env.get(a.id, a) if isinstance(a, ast.Name) else a
                children, aux = c, a
    if not isinstance(children, ast.Tuple) or not isinstance(aux, ast.Dict):
        raise AnalysisError("%s.tree_flatten is not of the form (children tuple, aux dict)" % clsname)
    child_fields = []
    for e in children.elts:
        if isinstance(e, ast.Attribute) and isinstance(e.value, ast.Name) and e.value.id == "self":
            child_fields.append(e.attr)
        else:
            raise AnalysisError("%s.tree_flatten child %s not understood" % (clsname, ast.unparse(e)))
    aux_map = {}
    for k, v in zip(aux.keys, aux.values):
        if not isinstance(k, ast.Constant):
            raise AnalysisError("%s.tree_flatten aux key not a constant" % clsname)
        if isinstance(v, ast.Attribute) and isinstance(v.value, ast.Name) and v.value.id == "self":
            aux_map[k.value] = v.attr
        else:
            aux_map[k.value] = ast.unparse(v)
    findings = []
    # unflatten must be cls(*children, **aux_data)
    ok_unfl = False
    for st in ast.walk(unfl):
        if isinstance(st, ast.Return) and isinstance(st.value, ast.Call):
            c = st.value
            if any(isinstance(a, ast.Starred) for a in c.args) and any(k.arg is None for k in c.keywords):
                ok_unfl = True
    positional = params[: len(child_fields)]
    if ok_unfl:
        if positional != child_fields:
            findings.append("children %s are passed positionally to __init__%s: fields do not line up" % (child_fields, tuple(params)))
        missing = [p for p in params[len(child_fields):] if p not in aux_map]
        if missing:
            findings.append("constructor parameter(s) %s are neither children nor aux_data: lost by jit/vmap (default value is used instead)" % missing)
        extra = [k for k in aux_map if k not in params]
        if extra:
            findings.append("aux_data key(s) %s are not constructor parameters" % extra)
        wrong = [k for k, f in aux_map.items() if k in params and f != k]
        if wrong:
            findings.append("aux_data key(s) %s carry a different field (%s)" % (wrong, [aux_map[k] for k in wrong]))
    else:
        findings = None  # form not recognised: leave to AXI (round trip obligation)
    return findings, flat.lineno


def saveload_rule(ctx):
    pm = ctx.pm
    save = pm.func(TRAIN_MOD, "save")
    load = pm.func(TRAIN_MOD, "load")
    out = []

    def info(fn):
        mode, call = None, None
        for n in ast.walk(fn):
            if isinstance(n, ast.Call) and isinstance(n.func, ast.Name) and n.func.id == "open":
                if len(n.args) >= 2 and isinstance(n.args[1], ast.Constant):
                    mode = n.args[1].value
                for k in n.keywords:
                    if k.arg == "mode" and isinstance(k.value, ast.Constant):
                        mode = k.value.value
            if isinstance(n, ast.Call):
                d = pm.resolve(TRAIN_MOD, n.func)
                if d and d.startswith("equinox.tree_") :
                    call = (d, n)
        return mode, call

    sm, sc = info(save)
    lm, lc = info(load)
    if sc is None or lc is None:
        # unrecognised implementation: not decided here -- except for the definite cases: a save that never hands
        # its model argument to any call writes nothing, a load that returns nothing loads nothing
        margs = [a.arg for a in save.args.args]
        mname = margs[1] if len(margs) > 1 else None
        uses_model = any(isinstance(c, ast.Call) and any(isinstance(x, ast.Name) and x.id == mname for a in list(c.args) + [k.value for k in c.keywords] for x in ast.walk(a)) for c in ast.walk(save))
        definite = []
        if sc is None and not uses_model:
            definite.append((save.lineno, "save never passes its model argument to any call: nothing is written"))
        if lc is None and not any(isinstance(n, ast.Return) and n.value is not None and not (isinstance(n.value, ast.Constant) and n.value.value is None) for n in ast.walk(load)):
            definite.append((load.lineno, "load returns nothing"))
        return definite or None
    if sc[0] != "equinox.tree_serialise_leaves" or lc[0] != "equinox.tree_deserialise_leaves":
        out.append((save.lineno, "save/load do not use the matching tree_serialise_leaves / tree_deserialise_leaves pair (%s / %s)" % (sc[0], lc[0])))
    if sm is None or "b" not in sm or "w" not in sm:
        out.append((save.lineno, "save opens the file with mode %r (binary write expected)" % (sm,)))
    if lm is None or "b" not in lm or "r" not in lm:
        out.append((load.lineno, "load opens the file with mode %r (binary read expected)" % (lm,)))
    # the model written is the function's model argument; the loaded value is returned
    margs = [a.arg for a in save.args.args]
    aliases = set(margs[1:2])
    for n in ast.walk(save):  # m = model
        if isinstance(n, ast.Assign) and isinstance(n.value, ast.Name) and n.value.id in aliases:
            aliases.update(t.id for t in n.targets if isinstance(t, ast.Name))
    arg = sc[1].args[1] if len(sc[1].args) >= 2 else None
    if isinstance(arg, ast.Name) and arg.id in aliases:
        pass
    elif isinstance(arg, ast.Call) and (pm.resolve(TRAIN_MOD, arg.func) or "") in ("equinox.filter", "equinox.partition"):
        out.append((save.lineno, "save serialises only a filtered part of the model (%s): the leaves filtered out (inference flags, counters, ...) are not written, so the loaded model need not reproduce the outputs" % ast.unparse(arg)[:60]))
    elif arg is None or not any(isinstance(x, ast.Name) and x.id in aliases for x in ast.walk(arg)):
        out.append((save.lineno, "save does not serialise its model argument"))
    else:
        raise AnalysisError("save serialises %s: cannot tell whether this is the whole model" % ast.unparse(arg)[:60])
    returns = [n for n in ast.walk(load) if isinstance(n, ast.Return)]
    if not any(r.value is lc[1] for r in returns):
        # allow assignment then return
        names = set()
        for n in ast.walk(load):
            if isinstance(n, ast.Assign) and n.value is lc[1]:
                for t in n.targets:
                    if isinstance(t, ast.Name):
                        names.add(t.id)
        if not any(isinstance(r.value, ast.Name) and r.value.id in names for r in returns):
            out.append((load.lineno, "load does not return the deserialised model"))
    return out


def run(ctx):
    ev, pm = ctx.ev, ctx.pm
    ev.explanation = (
        "Abstract interpretation of every inverse pair of re-layout methods (to/from_vector, to/from_scalar_multi_image, concat/concat_inverse on each "
        "leading axis, expand/combine_axes/merge_axes, reshape_pmap/merge_axes, to/from_images, copy, pytree flatten/unflatten of MultiImage, "
        "GeometricImage and GeometricFilter, chains of them) on symbolic blocks: the composition must be the identity as element provenance, with "
        "types, D and boundary flags preserved. PYTREE and save/load are AST rules."
    )
    ev.rule_text = "one obligation per (pair, D, ordered type signature, number of leading axes, axis/size/device parameters); non-trivial = >=2 types or k>=1"
    ev.assumptions = ["JAX sorts dict keys when flattening pytrees", "equinox tree_serialise_leaves/tree_deserialise_leaves are mutually inverse on same-structured trees (bit-for-bit save/load is not decided)", "NumPy/JAX re-layout semantics as modelled in ginverif.arr"]
    for q in ANCHORS:
        pm.func(MI_MOD, q)
        ev.functions.add(MI_MOD + "." + q)
    for q in ("GeometricImage.tree_flatten", "GeometricImage.tree_unflatten", "GeometricImage.__init__", "GeometricFilter.__init__"):
        pm.func(GI_MOD, q)
        ev.functions.add(GI_MOD + "." + q)

    # AST rules
    for mod, cls in ((MI_MOD, "MultiImage"), (GI_MOD, "GeometricImage")):
        res, line = pytree_rule(ctx, mod, cls)
        ev.instances("C13.PYTREE", 1)
        if res:
            for r in res:
                ctx.add(Finding("C13", "C13.PYTREE", cls + ".tree_flatten", r, pm.path(mod), line, None, "pytree-fields"))
    ev.floors["C13.PYTREE"] = 2
    sl = saveload_rule(ctx)
    ev.functions.update([TRAIN_MOD + ".save", TRAIN_MOD + ".load"])
    if sl is not None:
        ev.instances("C13.SAVELOAD", 1)
        for line, what in sl:
            ctx.add(Finding("C13", "C13.SAVELOAD", "save/load", what, pm.path(TRAIN_MOD), line, None, "serialise-pair"))
    else:
        ev.extra["saveload"] = "implementation form not recognised; not decided"

    jobs = []
    T2 = [(0, 0), (0, 1), (1, 0), (1, 1), (2, 0), (2, 1), (3, 0)]
    if ctx.thorough():
        sigs = {1: [[(0, 0)], [(0, 1), (0, 0)]], 2: [], 3: [[(1, 0)], [(2, 0), (0, 0)], [(0, 1), (1, 1), (2, 0)], [(3, 0), (1, 0)]]}
        for n in (1, 2, 3):
            for comb in itertools.combinations(T2, n):
                ps = perms(comb)
                sigs[2].extend([list(p) for p in (ps if n < 3 else ps[::3])])
        leads = [0, 1, 2, 3]
    else:
        sigs = {1: [[(0, 1), (0, 0)]], 2: [[(1, 0)], [(1, 0), (0, 0)], [(0, 0), (2, 0), (1, 1)], [(3, 0), (0, 1)], [(2, 1), (1, 0)]], 3: [[(2, 0), (0, 0)], [(1, 1)]]}
        leads = [0, 1, 2, 3]
    for D, ss in sigs.items():
        for s in ss:
            s = tuple(s)
            for nl in leads:
                if D == 3 and nl == 3 and any(t[0] >= 2 for t in s):
                    continue
                for pair in ("vector", "scalar", "images", "copy", "pytree"):
                    jobs.append((ctx.repo, pair, D, s, nl, {}))
                if nl >= 1:
                    for axis in range(nl):
                        jobs.append((ctx.repo, "from_images", D, s, nl, dict(n_lead=nl, axis=axis)))
                for axis in range(nl):
                    for size in (2, 3) if ctx.thorough() else (2,):
                        jobs.append((ctx.repo, "expand", D, s, nl, dict(axis=axis, size=size)))
                    # concat: b holds a subset / superset / disjoint set of types
                    variants = [dict(axis=axis, b=[list(t) for t in s])]
                    variants.append(dict(axis=axis, b=[list(s[-1])]))
                    if len(s) >= 2:
                        variants.append(dict(axis=axis, b=[list(t) for t in reversed(s)], only_b=[s[0]]))
                    for v in variants if (ctx.thorough() or axis == nl - 1 or len(s) >= 2) else variants[:1]:
                        jobs.append((ctx.repo, "concat", D, s, nl, v))
                if nl >= 1:
                    for ndev in (1, 2) if not ctx.thorough() else (1, 2, 4):
                        jobs.append((ctx.repo, "pmap", D, s, nl, dict(ndev=ndev)))
                    chains = [("scalar", "vector", "pytree"), ("pytree", "images", "scalar"), ("expand", "copy", "vector")]
                    if ctx.thorough():
                        chains += [c for c in itertools.permutations(("vector", "scalar", "pytree", "images", "expand"), 3)][::7]
                    for c in chains:
                        jobs.append((ctx.repo, "chain", D, s, nl, dict(ops=list(c))))
    results = ctx.pairs(worker, jobs)
    by = {}
    for job, r in results:
        if r.get("skip"):
            continue
        cfg = r["cfg"]
        nontriv = len(cfg["order"]) >= 2 or any(t[0] >= 1 for t in cfg["order"])
        ev.obligation("roundtrip", not r["problems"], (cfg["pair"], cfg["D"], str(cfg["order"]), cfg["leading_axes"], str(cfg["extra"])) if nontriv else None, sample=cfg if ev.obligations % 61 == 0 else None)
        for kind, what, site in r["problems"]:
            by.setdefault((cfg["pair"], kind), []).append((what, site, cfg))
    CONSTRUCT = {"from_images": "MultiImage.from_images", "vector": "MultiImage.from_vector", "scalar": "MultiImage.from_scalar_multi_image", "concat": "MultiImage.concat_inverse", "expand": "MultiImage.expand", "merge": "MultiImage.merge_axes", "pmap": "MultiImage.reshape_pmap", "images": "MultiImage.to_images", "copy": "MultiImage.copy", "pytree": "MultiImage.tree_flatten", "chain": "MultiImage.from_scalar_multi_image"}
    for (pair, kind), items in sorted(by.items()):
        what, site, cfg = items[0]
        q = CONSTRUCT[pair]
        path, line = method_line(pm, MI_MOD, q)
        if site and site[0]:
            path, line = site[0], site[1]
            q = site[2] or q
        ctx.add(Finding("C13", "C13.AXI.%s.%s" % (pair, kind), q, "%s (%d of the swept configurations fail)" % (what, len(items)), path, line, cfg, pair))
    ev.instances("C13.AXI.obligations", ev.obligations, floor=300 if ctx.tier == "quick" else 3000)
    ev.exhaustive = False
