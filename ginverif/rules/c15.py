"""C15 -- time-series windowing yields exactly the causal (past, future) pairs.

Deciding method: abstract interpretation of data.time_series_idxs / times_series_to_multi_images /
batch_time_series (working tree) on symbolic trajectories: every element of every input/target block
must be exactly the field the statement names (time s+w+j*dt, resp. s+w+(p+j)*dt, per channel, in time
order; constants appended to inputs only; down-sampling = 2^D patch means; batched = trajectory-major).
"""

from fractions import Fraction
import itertools

from .. import arr as A
from ..poly import Poly, as_poly, leaf_names
from ..report import Finding
from .common import *


def pool_spec(blk, nlead, D, times):
    """Average over aligned 2^D patches, `times` times (written directly, independent of the repo's convolution)."""
    for _ in range(times):
        sh = blk.shape
        sp = sh[nlead:nlead + D]
        new = sh[:nlead]
        for s in sp:
            new = new + (s // 2, 2)
        new = new + sh[nlead + D:]
        r = A.reshape(blk, new)
        axes = tuple(nlead + 2 * i + 1 for i in range(D))
        blk = A.reduce_("sum", r, axes) * Fraction(1, 2 ** D)
    return blk


def worker(job):
    repo, D, T, p, f, dt, s, down, sig, consts, batched = job
    it, w = get_interp(repo)
    data = it.get_module(DATA_MOD)
    sp = {2: {0: (2, 4), 1: (4, 2), 2: (4, 8), 3: (8, 16)}[down], 3: (2, 2, 2) if down < 2 else (2 ** down,) * 3}[D]
    cfg = dict(D=D, T=T, past=p, future=f, dt=dt, skip=s, downsample=down, dynamic={tname(tuple(t)): c for t, c in sig}, constants={tname(tuple(t)): c for t, c in consts}, batched=batched)
    # number of trajectories: 2 by default, or the given count (chunked / tiled implementations change behaviour at sizes
    # like 32 or 64, so counts just above such thresholds are swept with tiny images)
    Bt = (2 if batched is True else int(batched)) if batched else None
    if Bt and Bt > 8:
        sp = {2: (2, 2), 3: (2, 2, 2)}[D] if down == 0 else sp
    cfg["trajectories"] = Bt
    lead = (Bt,) if batched else ()
    dyn_blocks = {tuple(t): block("d", tuple(t), lead + (c * T,), sp, D) for t, c in sig}
    const_blocks = {tuple(t): block("k", tuple(t), lead + (c,), sp, D) for t, c in consts}
    dyn = make_multi(it, [tuple(t) for t, _ in sig], dyn_blocks, D, True)
    cst = make_multi(it, [tuple(t) for t, _ in consts], const_blocks, D, True)
    fn = data.batch_time_series if batched else data.times_series_to_multi_images
    res = attempt(lambda: fn(dyn, cst, T, p, f, s, dt, down))
    W = T - s - (p + f - 1) * dt
    problems = []
    if W <= 0:
        if not isinstance(res, Rejected):
            problems.append(("accept", "no window exists (T-s-(p+f-1)dt = %d) but the call was not rejected" % W, None))
        return dict(cfg=cfg, problems=problems)
    if isinstance(res, Rejected):
        problems.append(("rejected", "a valid configuration (W=%d windows) was rejected: %s" % (W, res.exc), None))
        return dict(cfg=cfg, problems=problems)
    X, Y = res
    if not (is_multi(X) and is_multi(Y)):
        problems.append(("type", "result is not a pair of MultiImages", None))
        return dict(cfg=cfg, problems=problems)

    def expected(traj_blocks, traj_consts):
        ex, ey = {}, {}
        for t, c in sig:
            t = tuple(t)
            blk = traj_blocks[t]  # (c*T, spatial, tensor): channel-major, time-minor
            xin, yout = [], []
            for wdx in range(W):
                xi = [blk[ci * T + s + wdx + j * dt] for ci in range(c) for j in range(p)]
                yo = [blk[ci * T + s + wdx + (p + j) * dt] for ci in range(c) for j in range(f)]
                xin.append(A.stack(xi, 0))
                yout.append(A.stack(yo, 0))
            ex[t] = A.stack(xin, 0)
            ey[t] = A.stack(yout, 0)
        for t, c in consts:
            t = tuple(t)
            cb = A.broadcast_to(traj_consts[t], (W,) + traj_consts[t].shape)
            ex[t] = A.concatenate([ex[t], cb], 1) if t in ex else cb
        ex = {t: pool_spec(b, 2, D, down) for t, b in ex.items()}
        ey = {t: pool_spec(b, 2, D, down) for t, b in ey.items()}
        return ex, ey

    if batched:
        per = [expected({t: b[i] for t, b in dyn_blocks.items()}, {t: b[i] for t, b in const_blocks.items()}) for i in range(Bt)]
        ex = {t: A.concatenate([per[i][0][t] for i in range(Bt)], 0) for t in per[0][0]}
        ey = {t: A.concatenate([per[i][1][t] for i in range(Bt)], 0) for t in per[0][1]}
    else:
        ex, ey = expected(dyn_blocks, const_blocks)
    for name, got, exp in (("input", X, ex), ("target", Y, ey)):
        if set(got.keys()) != set(exp.keys()):
            problems.append(("keys", "%s holds types %s, expected %s" % (name, sorted(got.keys()), sorted(exp.keys())), None))
            continue
        for t in exp:
            if got[t].shape != exp[t].shape:
                problems.append(("count", "%s block %s has shape %r, expected %r (windows=%d)" % (name, tname(t), got[t].shape, exp[t].shape, W * (Bt or 1)), site_of(got[t])))
                break
            if not same_elems(got[t], exp[t]):
                kind = "window"
                if name == "target" and any("k(" in n for e in got[t].elems for n in leaf_names(as_poly(e))):
                    kind = "constant-leak"
                problems.append((kind, "%s block %s: %s" % (name, tname(t), first_diff(got[t], exp[t])), site_of(got[t])))
                break
    return dict(cfg=cfg, problems=problems)


def idx_worker(job):
    repo, T, p, f, dt = job
    it, w = get_interp(repo)
    data = it.get_module(DATA_MOD)
    res = attempt(lambda: data.time_series_idxs(p, f, dt, T))
    W = T - (p + f - 1) * dt
    cfg = dict(T=T, past=p, future=f, dt=dt)
    problems = []
    if W <= 0:
        if not isinstance(res, Rejected):
            problems.append(("accept", "time_series_idxs accepted a configuration without any window", None))
        return dict(cfg=cfg, problems=problems)
    if isinstance(res, Rejected):
        problems.append(("rejected", "time_series_idxs rejected a configuration with %d windows: %s" % (W, res.exc), None))
        return dict(cfg=cfg, problems=problems)
    i_in, i_out = res
    want_in = [[wd + j * dt for j in range(p)] for wd in range(W)]
    want_out = [[wd + (p + j) * dt for j in range(f)] for wd in range(W)]
    for name, got, want in (("input", i_in, want_in), ("target", i_out, want_out)):
        if not isinstance(got, A.Arr) or not got.is_concrete() or got.tolist() != want:
            problems.append(("idx", "%s index family is %s, expected (w,j) -> %s" % (name, got.tolist() if isinstance(got, A.Arr) and got.is_concrete() else got, "w+j*dt" if name == "input" else "w+(p+j)*dt"), None))
    if not problems:
        for a, b in zip(i_in.tolist(), i_out.tolist()):
            if max(a) >= min(b):
                problems.append(("causal", "a target time is not after every input time", None))
                break
    return dict(cfg=cfg, problems=problems)


def run(ctx):
    ev, pm = ctx.ev, ctx.pm
    ev.explanation = (
        "Abstract interpretation of data.time_series_idxs, times_series_to_multi_images and batch_time_series on symbolic trajectories: index "
        "families are compared with (w,j)->w+j*dt and (w,j)->w+(p+j)*dt, every element of every input/target block with the field the statement names "
        "(skip applied first, channel-major/time-minor, constants appended to inputs only and never to targets, 2^D patch means for down-sampling, "
        "trajectory-major stacking for the batched variant), and window-less configurations must be rejected."
    )
    ev.rule_text = "one obligation per (T, p, f, dt, s, downsample, signature, constants, batched) in the box; non-trivial = dt>1 or s>0 or constants or several types"
    ev.assumptions = ["jnp.arange / broadcasting add / integer-array indexing semantics as modelled", "lax.conv_general_dilated semantics as modelled (used by average pooling)"]
    for q in ("time_series_idxs", "times_series_to_multi_images", "batch_time_series"):
        pm.func(DATA_MOD, q)
        ev.functions.add(DATA_MOD + "." + q)
    jobs_i = []
    Tmax = 13  # the index families are cheap: the whole box in both tiers
    for T in range(2, Tmax):
        for p in (1, 2, 3):
            for f in (1, 2, 3):
                for dt in (1, 2, 3):
                    jobs_i.append((ctx.repo, T, p, f, dt))
    by = {}
    for job, r in ctx.pairs(idx_worker, jobs_i):
        cfg = r["cfg"]
        ev.obligation("idx", not r["problems"], ("idx",) + tuple(cfg.values()) if cfg["dt"] > 1 else None, sample=cfg if ev.obligations % 57 == 0 else None)
        for kind, what, site in r["problems"]:
            by.setdefault(("time_series_idxs", kind), []).append((what, site, cfg))
    sigs = [
        ([((0, 0), 1)], []),
        ([((0, 0), 2), ((1, 0), 1)], [((0, 0), 1)]),
        ([((1, 0), 2)], [((0, 1), 2), ((1, 0), 1)]),
    ]
    jobs = []
    for D in (2, 3) if ctx.thorough() else (2,):
        for sig, consts in sigs:
            if D == 3 and len(sig) > 1:
                continue
            for T in ((5, 6, 8) if ctx.thorough() else (6, 9)):
                for p in (1, 2, 3):
                    for f in (1, 2):
                        for dt in (1, 2):
                            for s in (0, 1, 2):
                                for down in (0, 1):
                                    for batched in (False, True):
                                        if not ctx.thorough():
                                            # quick: every (p, f, dt, s) for the un-batched, un-pooled variant; a third of the rest;
                                            # the longer trajectory only where the shorter one has no window
                                            if (down or batched) and dhash((p, f, dt, s, down, batched, len(sig))) % 3:
                                                continue
                                            if T == 9 and 6 - s - (p + f - 1) * dt > 0:
                                                continue
                                        if down and D == 3 and not ctx.thorough():
                                            continue
                                        jobs.append((ctx.repo, D, T, p, f, dt, s, down, sig, consts, batched))
    # deeper pooling (each level halves the extents: 2**downsample, not 2*downsample), non-square extents
    for down in (2, 3):
        for batched in (False, True):
            for (p, f, dt, s_) in ((1, 1, 1, 0), (2, 1, 2, 1)):
                for sig, consts in (sigs[:2] if (ctx.thorough() or not batched) else sigs[:1]):
                    jobs.append((ctx.repo, 2, 5, p, f, dt, s_, down, sig, consts, batched))
    # many trajectories (the batched variant must stay "per trajectory, stacked trajectory-major" at every count)
    for Bt in ((1, 3, 33, 65) if not ctx.thorough() else (1, 3, 17, 31, 32, 33, 40, 64, 65, 100, 129)):
        for (T, p, f, dt, s_) in ((4, 1, 1, 1, 0), (5, 2, 1, 1, 1)) if (ctx.thorough() or Bt in (33, 65)) else ((4, 1, 1, 1, 0),):
            jobs.append((ctx.repo, 2, T, p, f, dt, s_, 0, sigs[0][0], sigs[0][1], Bt))
            if Bt <= 40:
                jobs.append((ctx.repo, 2, T, p, f, dt, s_, 0, sigs[1][0], sigs[1][1], Bt))
    for job, r in ctx.pairs(worker, jobs):
        cfg = r["cfg"]
        nontriv = cfg["dt"] > 1 or cfg["skip"] > 0 or cfg["constants"] or len(cfg["dynamic"]) > 1
        ev.obligation("window", not r["problems"], tuple(str(v) for v in cfg.values()) if nontriv else None, sample=cfg if ev.obligations % 37 == 0 else None)
        for kind, what, site in r["problems"]:
            by.setdefault(("batch_time_series" if cfg["batched"] else "times_series_to_multi_images", kind), []).append((what, site, cfg))
    for (q, kind), items in sorted(by.items()):
        what, site, cfg = items[0]
        node = pm.func(DATA_MOD, q)
        path, line = pm.path(DATA_MOD), node.lineno
        if site and site[0]:
            path, line = site[0], site[1]
        ctx.add(Finding("C15", "C15.AXI." + kind, q, "%s (%d of the swept configurations fail)" % (what, len(items)), path, line, cfg, kind))
    ev.instances("C15.AXI.obligations", ev.obligations, floor=80 if ctx.tier == "quick" else 1500)
    ev.exhaustive = ctx.thorough()
