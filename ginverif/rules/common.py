"""Shared helpers for the per-property rule modules."""

import ast
import itertools

from .. import arr as A
from ..arr import Arr, Unsupported, AbstractError
from ..engine import make_interp, get_interp
from ..interp import REJECTIONS, AbstractAssert, AbstractRaise, Obj
from ..poly import Poly, as_poly
from ..report import AnalysisError, Finding
from ..shims import tree_map

GEOM = "ginjax.geometric"
MI_MOD = "ginjax.geometric.multi_image"
GI_MOD = "ginjax.geometric.geometric_image"
FN_MOD = "ginjax.geometric.functional_geometric_image"
COMMON_MOD = "ginjax.geometric.common"
LAYERS_MOD = "ginjax.ml.layers"
LOSSES_MOD = "ginjax.ml.losses"
TRAIN_MOD = "ginjax.ml.training"
STOP_MOD = "ginjax.ml.stopping_conditions"
MODELS_MOD = "ginjax.models"
DATA_MOD = "ginjax.data"

SPATIAL = {1: (3,), 2: (2, 3), 3: (2, 3, 2)}
SPATIAL_BIG = {1: (5,), 2: (3, 5), 3: (2, 3, 5)}


class Rejected(object):
    def __init__(self, exc):
        self.exc = exc

    def __repr__(self):
        return "Rejected(%s)" % (self.exc,)


def attempt(fn, *args, **kw):
    """Run an abstract evaluation; a rejection by the analysed code is a result, not an error."""
    try:
        return fn(*args, **kw)
    except REJECTIONS as e:
        return Rejected(e)


def tname(t):
    return "(%d,%d)" % t


def block(prefix, t, lead, spatial, D):
    k, p = t
    return A.leaf("%s%s" % (prefix, tname(t)), tuple(lead) + tuple(spatial) + (D,) * k)


def types_for(D, kmax=2):
    if D == 1:
        return [(0, 0), (0, 1)]
    return [(k, p) for k in range(kmax + 1) for p in (0, 1)]


def make_multi(it, order, blocks, D, is_torus=True, history="ctor", lead_axis=0):
    """Build a MultiImage holding blocks[t] for t in `order` through the repository's own constructors."""
    geom = it.get_module(GEOM)
    MI = geom.MultiImage
    if history == "ctor":
        return MI({t: blocks[t] for t in order}, D, is_torus)
    if history == "append":
        m = MI({}, D, is_torus)
        for i, t in enumerate(order):
            # parities are given modulo 2: every other block is appended with parity + 2
            m.append(t[0], t[1] + 2 * (i % 2), blocks[t])
        return m
    if history == "copy":
        return MI({t: blocks[t] for t in order}, D, is_torus).copy()
    if history == "pytree":
        return tree_map(lambda a: a, MI({t: blocks[t] for t in order}, D, is_torus))
    if history == "from_vector":
        m = MI({t: blocks[t] for t in order}, D, is_torus)
        return MI.from_vector(m.to_vector(), m)
    if history == "concat":
        # split every block along lead_axis into two parts held by MultiImages of opposite orders
        first, second = {}, {}
        for t in order:
            b = blocks[t]
            n = b.shape[lead_axis]
            if n < 2:
                first[t] = b
                continue
            h = n // 2
            first[t] = b[(slice(None),) * lead_axis + (slice(0, h),)]
            second[t] = b[(slice(None),) * lead_axis + (slice(h, n),)]
        m1 = MI({t: first[t] for t in order}, D, is_torus)
        m2 = MI({t: second[t] for t in reversed(order) if t in second}, D, is_torus)
        return m1.concat(m2, axis=lead_axis)
    raise ValueError(history)


def same_elems(x, y):
    if x.shape != y.shape:
        return False
    if x.elems is None or y.elems is None:
        return False
    for a, b in zip(x.elems, y.elems):
        if isinstance(a, Poly) or isinstance(b, Poly):
            if as_poly(a).terms != as_poly(b).terms:
                return False
        elif a != b:
            return False
    return True


def first_diff(x, y):
    if x.shape != y.shape:
        return "shape %r, expected %r" % (x.shape, y.shape)
    idxs = itertools.product(*[range(s) for s in x.shape])
    for idx, a, b in zip(idxs, x.elems, y.elems):
        if as_poly(a).terms != as_poly(b).terms:
            return "element %s is %s, expected %s" % (list(idx), as_poly(a).show(4), as_poly(b).show(4))
    return None


def site_of(arr_or_none, default=(None, None, None)):
    s = getattr(arr_or_none, "site", None)
    return s if s else default


def method_line(pm, mod, qual):
    n = pm.func(mod, qual)
    return pm.path(mod), n.lineno


def is_multi(x, name="MultiImage"):
    return isinstance(x, Obj) and any(c.name == name for c in x.cls.mro())


def perms(seq):
    return list(itertools.permutations(seq))


def dhash(obj):
    """Deterministic hash (the builtin hash of str is randomised per process)."""
    import zlib

    return zlib.crc32(repr(obj).encode())
