"""C06 -- the equivariant linear layer is equivariant for every parameter value.

Deciding method: abstract interpretation of ml.ConvContract (working tree) on x and on g.x with symbolic
inputs, symbolic weights and biases, and a generic symbolic invariant filter bank (Reynolds image of
symbolic seeds over the full group B_D): layer(g.x) must equal g.layer(x) as an identity of polynomials
in pixels, weights, biases and filter seeds -- hence for every parameter value, trained or not -- for every
g in B_D; on toroidal images also for cyclic shifts.  ROLE/TAINT-style AST facts are reported by C09.
"""

import itertools

from .. import arr as A
from ..report import Finding
from ..shims import Key
from .common import *
from .equiv import *
from .convspec import option_box


def worker(job):
    repo, D, in_sig, out_sig, bias, padding, rd, ld, flags, gis, shift = job[:11]
    history = job[11] if len(job) > 11 else None
    it, w = get_interp(repo)
    ml = it.get_module("ginjax.ml")
    G = group(D)
    N = (3,) * D  # cubic grid so that every g maps the grid to itself (non-square: see C01)
    M = 3
    in_sig = tuple((tuple(t), c) for t, c in in_sig)
    out_sig = tuple((tuple(t), c) for t, c in out_sig)
    kinds = sorted({(s[0] + t[0], (s[1] + t[1]) % 2) for (s, _), (t, _) in itertools.product(in_sig, out_sig)})
    fblocks = invariant_bank_blocks(D, M, kinds, G, nf=1 if D == 3 else 2)
    bank = make_multi(it, kinds, fblocks, D, True)
    pad_arg = padding if not isinstance(padding, list) else tuple(tuple(p) for p in padding)
    ld_arg = None if ld is None else tuple(ld)
    cfg = dict(D=D, input=[[list(t), c] for t, c in in_sig], target=[[list(t), c] for t, c in out_sig], use_bias=bias, padding=padding, rhs_dilation=rd, lhs_dilation=ld, is_torus=list(flags))
    problems = []
    layer = attempt(lambda: ml.ConvContract(in_sig, out_sig, bank, bias, 1, pad_arg, ld_arg, rd, Key(0)))
    if isinstance(layer, Rejected):
        problems.append(("rejected", "constructor rejected: %s" % layer.exc, None))
        return dict(cfg=cfg, problems=problems)
    from .c08 import symbolise

    symbolise(w, layer)  # every array leaf except the filter bank is an independent trainable symbol
    if history == "roundtrip":
        # "for every value of its weights and biases (not only the initial ones)": a trained layer has been through
        # pytree flatten / unflatten (filter_jit, apply_updates), which re-creates its dict fields with SORTED keys
        layer = tree_map(lambda a: a, layer)
        cfg["history"] = "pytree round trip of the layer (as after a training step)"
    xb = {t: block("x", t, (c,), N, D) for t, c in in_sig}
    x = make_multi(it, [t for t, _ in in_sig], xb, D, flags)
    y = attempt(lambda: layer(x))
    if isinstance(y, Rejected):
        problems.append(("rejected", "layer rejected the input: %s" % y.exc, None))
        return dict(cfg=cfg, problems=problems)
    gs = generators(D) + [G[gi] for gi in gis]
    cfg["group_elements"] = len(gs)
    for g in gs:
        gx = act_blocks(xb, D, g)
        gflags = permute_tuple(flags, g)
        yg = attempt(lambda: layer(make_multi(it, [t for t, _ in in_sig], gx, D, gflags)))
        if isinstance(yg, Rejected):
            problems.append(("rejected", "layer rejected g.x: %s" % yg.exc, None))
            continue
        for t in y.keys():
            want = act_block(y[t], D, t, g)
            if t not in yg or not same_elems(yg[t], want):
                problems.append(("equivariance", "layer(g.x) != g.layer(x) for output block %s, g=%s: %s" % (tname(t), g, first_diff(yg[t], want) if t in yg and yg[t].shape == want.shape else "shape/type mismatch"), site_of(yg[t]) if t in yg else None))
                cfg.setdefault("g", g)
                break
    if shift is not None and all(flags) and ld is None and padding in ("TORUS", None):  # toroidally WRAPPED images only (the statement)
        cfg["shift"] = list(shift)
        sx = {t: shift_block(b, D, shift) for t, b in xb.items()}
        ys = attempt(lambda: layer(make_multi(it, [t for t, _ in in_sig], sx, D, flags)))
        if not isinstance(ys, Rejected):
            for t in y.keys():
                want = shift_block(y[t], D, shift)
                if t not in ys or not same_elems(ys[t], want):
                    problems.append(("translation", "layer(shift x) != shift layer(x) for block %s on a torus: %s" % (tname(t), first_diff(ys[t], want)), None))
                    break
    return dict(cfg=cfg, problems=problems)


def run(ctx):
    ev, pm = ctx.ev, ctx.pm
    ev.explanation = (
        "Abstract interpretation of ml.ConvContract on x and on g.x with symbolic pixels, weights, biases and a generic invariant filter bank (Reynolds image of "
        "symbolic seeds over B_D, so every invariant bank is an instance): layer(g.x) == g.layer(x) is decided as a polynomial identity in all of them, i.e. for "
        "every parameter value, for the generators of B_D (adjacent axis swaps and a reflection; equivariance on generators implies it on all 8 / 48 elements), signatures with unequal channels incl. pseudo-types, the five bias modes, TORUS/SAME/explicit "
        "padding, filter and image dilation, torus flags, D=2,3; cyclic shifts on fully toroidal images."
    )
    ev.rule_text = "one obligation per (D, input/target signature, bias mode, padding, dilations, flags, group element g or shift); non-trivial = g != identity"
    ev.assumptions = ["lax.conv_general_dilated / einsum semantics as modelled", "the supplied filters are invariant under the group (decided for the generated family by C03)", "cubic grids here; non-square grids with flags travelling are C01/C02"]
    for q in ("ConvContract.__init__", "ConvContract.__call__", "ConvContract.individual_convolve"):
        pm.func(LAYERS_MOD, q)
        ev.functions.add(LAYERS_MOD + "." + q)
    th = ctx.thorough()
    sigs = [
        ((((0, 0), 2), ((1, 0), 1)), (((1, 0), 2), ((0, 0), 1))),
        ((((1, 0), 1), ((0, 1), 2)), (((0, 1), 1), ((1, 1), 1), ((0, 0), 1))),
        ((((1, 1), 1),), (((2, 0), 1), ((1, 0), 1))),
    ]
    if th:
        sigs.append(((((2, 0), 1), ((0, 0), 1)), (((2, 1), 1), ((1, 0), 1))))
    jobs = []
    # (two input channels of one type: channel / spatial-axis mix-ups in the filter layout only show for in_c >= 2)
    sig3 = ((((0, 0), 2), ((1, 0), 1)), (((1, 0), 1), ((0, 1), 1)))
    for D in (2, 3):
        for si, (isig, osig) in enumerate(sigs if D == 2 else [sig3] + (sigs[:2] if th else [])):
            for bias in ["auto", "mean", "scalar", True, False]:
                if D == 3 and bias not in (("auto", False, "mean") if th else ("auto",)):
                    continue
                combos = [("TORUS", 1, None, (True,) * D), ("SAME", 1, None, (False,) * D)]
                if (si == 0 and D == 2) or th:
                    combos += [(None, 2, None, (True, False, True)[:D]), ([[1, 1]] * D, 1, [2] * D, (True,) * D)]
                    # image dilation (even and odd) with the string / default paddings and with integer padding
                    combos += [("SAME", 1, [2] * D, (False,) * D), (None, 1, [2] * D, (False,) * D), ("SAME", 2, [3] * D, (True,) * D), (1, 1, [2] * D, (True, False, True)[:D]), ("VALID", 1, [2] * D, (False,) * D)]
                if D == 3 and not th:
                    combos = combos[:1] + [(None, 1, None, (True, False, True))]
                for padding, rd, ld, flags in combos:
                    # the generators of B_D are always checked (complete for the group); a few further
                    # elements are added as redundancy
                    gsel = ((3, 6) if D == 2 else (29,)) if th else ()
                    jobs.append((ctx.repo, D, isig, osig, bias, padding, rd, ld, flags, tuple(gsel), (1,) + (0,) * (D - 2) + (2,)))
    # layers as they are after a training step (pytree round trip); signatures listed in a non-sorted order with equal
    # channel counts, so that any order-dependent packing of weights / outputs shows
    rsigs = [((((1, 0), 2), ((0, 0), 2)), (((1, 0), 2), ((0, 0), 2))), ((((0, 1), 1), ((0, 0), 1)), (((1, 1), 1), ((1, 0), 1), ((0, 0), 1)))]
    for D in (2, 3) if th else (2,):
        for isig, osig in rsigs[: 2 if D == 2 else 1]:
            for bias in (("auto", "mean", False) if th else ("auto",)):
                jobs.append((ctx.repo, D, isig, osig, bias, "TORUS", 1, None, (True,) * D, (), (1,) + (0,) * (D - 2) + (2,), "roundtrip"))
    # the option box shared by C01 / C04 / C06 / C11 (symmetric paddings, unit stride), one signature, bias 'auto'
    for D in (2, 3) if th else (2,):
        for padding, stride, rd, ld, flags in option_box(D, (3,) * D, symmetric_only=True, unit_stride=True):
            if (not isinstance(rd, int) and len(set(rd)) > 1) or (ld is not None and len(set(ld)) > 1):
                continue  # a layer with anisotropic dilations is not symmetric by construction (its options do not travel with g)
            flags = flags if all(flags) else (False,) * D  # cubic grid: flags do not travel here (C01 / C02 cover that)
            jobs.append((ctx.repo, D, sig3[0], sig3[1], "auto", padding, rd, ld, flags, (), (1,) + (0,) * (D - 2) + (2,)))
    # pseudo-random (deterministic) layers: signature x bias setting x isotropic option set nobody wrote down
    from .convspec import _pick

    pool = [(0, 0), (0, 1), (1, 0), (1, 1), (2, 0), (2, 1)]
    n_s = 0
    i = 0
    while n_s < (120 if th else 14) and i < 5000:
        i += 1
        D = 2 if _pick((0, 1, 2, 3), "C06", i, "D") else 3
        ins = sorted({_pick(pool[: 6 if D == 2 else 4], "C06", i, "in", j) for j in range(_pick((1, 2, 2, 3), "C06", i, "nin"))})
        outs = sorted({_pick(pool[: 6 if D == 2 else 4], "C06", i, "out", j) for j in range(_pick((1, 2, 2, 3), "C06", i, "nout"))}, reverse=bool(i % 2))
        if max(a[0] for a in ins) + max(b[0] for b in outs) > (3 if D == 2 else 2) or (D == 3 and len(ins) * len(outs) > 2):
            continue
        isig = tuple((t, _pick((1, 2), "C06", i, "ci", t)) for t in ins)
        osig = tuple((t, _pick((1, 2), "C06", i, "co", t)) for t in outs)
        bias = _pick(("auto", "mean", "scalar", True, False), "C06", i, "bias")
        padding = _pick(("TORUS", "SAME", "VALID", None, 0, 1, 2, "sym"), "C06", i, "pad")
        if padding == "sym":
            padding = [[_pick((1, 2, 3), "C06", i, "sp")] * 2] * D
        rd = _pick((1, 1, 2, 3), "C06", i, "rd")
        ld = _pick((None, None, 2, 3), "C06", i, "ld")
        torus = _pick((True, False), "C06", i, "fl")
        if ld is not None and ((padding in ("TORUS", None)) and torus):
            continue
        if padding == "VALID" and ld is None and 3 - ((3 - 1) * rd + 1) < 0:
            continue
        if isinstance(padding, int) and ld is None and 3 + 2 * padding - ((3 - 1) * rd + 1) < 0:
            continue
        n_s += 1
        jobs.append((ctx.repo, D, isig, osig, bias, padding, rd, None if ld is None else [ld] * D, (torus,) * D, (), (1,) + (0,) * (D - 2) + (2,), "roundtrip" if n_s % 3 == 0 else None))
    by = {}
    for job, r in ctx.pairs(worker, jobs):
        cfg = r["cfg"]
        n_g = cfg.get("group_elements", 0)
        bad_g = len([1 for k, _, _ in r["problems"] if k == "equivariance"])
        for i in range(n_g):
            ev.obligation("equivariance", i >= bad_g, tuple(str(v) for v in cfg.values()) + (i,), sample=cfg if ev.obligations % 83 == 0 else None)
        if "shift" in cfg:
            ev.obligation("translation", not any(k == "translation" for k, _, _ in r["problems"]), tuple(str(v) for v in cfg.values()) + ("shift",))
        for kind, what, site in r["problems"]:
            by.setdefault(kind, []).append((what, site, cfg))
    for kind, items in sorted(by.items()):
        what, site, cfg = items[0]
        node = pm.func(LAYERS_MOD, "ConvContract.__call__")
        extra = ""
        if site and site[0]:
            extra = " [last array operation at %s:%s in %s]" % (site[0].split("/src/")[-1], site[1], site[2])
        ctx.add(Finding("C06", "C06.AXI." + kind, "ConvContract.__call__", "%s (%d of the swept configurations fail)%s" % (what, len(items), extra), pm.path(LAYERS_MOD), node.lineno, cfg, kind))
    # "for every parameter value": the parameters are the array leaves that receive a gradient.  The invariant filter bank
    # must not be one of them -- an optimiser step would move it off the invariant subspace and no identity above would
    # survive.  Decided by the taint run of C09 (symbols passing through jax.lax.stop_gradient during the forward pass are
    # renamed; no output element may depend on an un-renamed bank symbol), on this property's own entry points.
    from .c09 import taint_worker

    tspecs = [dict(cls="ConvContract", D=2, input=[((0, 0), 1), ((1, 0), 1)], output=[((1, 0), 1), ((0, 0), 1)], use_bias="auto"),
             dict(cls="ConvContract", D=2, input=[((0, 1), 1), ((1, 0), 2)], output=[((0, 0), 1), ((1, 1), 1)], use_bias="mean"),
             dict(cls="ConvContract", D=3, input=[((0, 0), 1), ((1, 0), 1)], output=[((1, 0), 1), ((0, 0), 1)], use_bias=False),
             dict(cls="ConvContract", D=2, input=[((0, 0), 2), ((1, 0), 2)], output=[((0, 0), 2), ((1, 0), 2)], use_bias=False, fast=True)]
    tby = {}
    for job, r in ctx.pairs(taint_worker, [(ctx.repo, s_) for s_ in tspecs], chunk=1):
        ev.obligation("bank-not-a-parameter", not r["problems"], tuple(str(v) for v in sorted(r["cfg"].items())))
        for kind, what, site in r["problems"]:
            tby.setdefault(kind, []).append((what, site, r["cfg"]))
    for kind, items in sorted(tby.items()):
        what, site, cfg = items[0]
        node = pm.func(LAYERS_MOD, "ConvContract.individual_convolve")
        path_, line_ = pm.path(LAYERS_MOD), node.lineno
        if site and site[0]:
            path_, line_ = site[0], site[1]
        ctx.add(Finding("C06", "C06.TAINT." + kind, "ConvContract.individual_convolve", "%s: the bank is then a trainable parameter, and the layer is equivariant only for the parameter values that keep it invariant (%d of the swept configurations fail)" % (what, len(items)), path_, line_, cfg, "bank-" + kind))
    ev.instances("C06.AXI.obligations", ev.obligations, floor=100 if ctx.tier == "quick" else 400)
    ev.exhaustive = False
