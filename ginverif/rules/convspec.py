"""The mathematical definition of the library's convolution, written directly on symbols.

out[b,o,i] = sum_c sum_a P[b,c, i*stride + a*dilation] (x) F[o,c,a]
P = the (optionally zero-interleaved) image, wrapped periodically on toroidal axes and zero padded
elsewhere; image tensor indices first, filter tensor indices after.
"""

import itertools

from .. import arr as A
from ..poly import Poly


def norm_opts(D, is_torus, stride, padding, lhs_dilation, rhs_dilation, M):
    if isinstance(is_torus, bool):
        is_torus = (is_torus,) * D
    stride = (stride,) * D if isinstance(stride, int) else tuple(stride)
    rd = (rhs_dilation,) * D if isinstance(rhs_dilation, int) else tuple(rhs_dilation)
    ld = (1,) * D if lhs_dilation is None else tuple(lhs_dilation)
    if padding is None:
        padding = "TORUS" if any(is_torus) else "SAME"
    pads = []
    for a in range(D):
        same = ((M[a] - 1) // 2) * rd[a]
        if padding == "TORUS":
            pads.append(("wrap" if is_torus[a] else "zero", same, same))
        elif padding == "SAME":
            pads.append(("zero", same, same))
        elif padding == "VALID":
            pads.append(("zero", 0, 0))
        elif isinstance(padding, int):
            pads.append(("zero", padding, padding))
        else:
            pads.append(("zero", padding[a][0], padding[a][1]))
    return is_torus, stride, pads, ld, rd


def padded_lookup(n, ld, mode, lo, hi):
    """list: padded position -> source index or None (zero). Wrap is applied to the undilated image
    (the library only supports wrap without image dilation; with dilation the wrapped image is interleaved)."""
    if mode == "wrap":
        base = [(i - lo) % n for i in range(n + lo + hi)]
    else:
        base = None
    if base is not None:
        # wrap first, then interleave zeros
        m = len(base)
        out = []
        for q in range((m - 1) * ld + 1 if m else 0):
            out.append(base[q // ld] if q % ld == 0 else None)
        return out
    dn = (n - 1) * ld + 1 if n else 0
    out = []
    for q in range(dn + lo + hi):
        r = q - lo
        if r < 0 or r >= dn or r % ld:
            out.append(None)
        else:
            out.append(r // ld)
    return out


def conv_definition(D, image, filt, is_torus, stride=1, padding=None, lhs_dilation=None, rhs_dilation=1, contract=False):
    """image (batch,in_c,spatial,tensor), filt (out_c,in_c,spatial,tensor) -> (batch,out_c,spatial',tensors)."""
    B, C = image.shape[0], image.shape[1]
    O = filt.shape[0]
    N = image.shape[2:2 + D]
    M = filt.shape[2:2 + D]
    ki = image.ndim - 2 - D
    kf = filt.ndim - 2 - D
    is_torus, stride, pads, ld, rd = norm_opts(D, is_torus, stride, padding, lhs_dilation, rhs_dilation, M)
    look = [padded_lookup(N[a], ld[a], pads[a][0], pads[a][1], pads[a][2]) for a in range(D)]
    outsp = []
    for a in range(D):
        keff = (M[a] - 1) * rd[a] + 1
        outsp.append(0 if len(look[a]) - keff < 0 else (len(look[a]) - keff) // stride[a] + 1)
    ist = A.strides_of(image.shape)
    fst = A.strides_of(filt.shape)
    ie, fe = image.elems, filt.elems
    taps = list(itertools.product(*[range(m) for m in M]))
    timg = list(itertools.product(range(D), repeat=ki))
    if contract:
        tflt_rest = list(itertools.product(range(D), repeat=kf - ki))
    else:
        tflt = list(itertools.product(range(D), repeat=kf))

    def toff(st, base, idx):
        return sum(i * st[base + j] for j, i in enumerate(idx))

    el = []
    for b in range(B):
        for o in range(O):
            for y in itertools.product(*[range(n) for n in outsp]):
                # gather the taps that read a real pixel
                reads = []
                for t in taps:
                    off = b * ist[0]
                    ok = True
                    for a in range(D):
                        s = look[a][y[a] * stride[a] + t[a] * rd[a]]
                        if s is None:
                            ok = False
                            break
                        off += s * ist[2 + a]
                    if ok:
                        reads.append((off, o * fst[0] + toff(fst, 2, t)))
                if contract:
                    for tr in tflt_rest:
                        items = []
                        for ioff, foff in reads:
                            for c in range(C):
                                for ti in timg:
                                    x = ie[ioff + c * ist[1] + toff(ist, 2 + D, ti)]
                                    f = fe[foff + c * fst[1] + toff(fst, 2 + D, ti + tr)]
                                    items.append(x * f)
                        el.append(A.poly_sum(items))
                else:
                    for ti in timg:
                        for tf in tflt:
                            items = []
                            for ioff, foff in reads:
                                for c in range(C):
                                    x = ie[ioff + c * ist[1] + toff(ist, 2 + D, ti)]
                                    f = fe[foff + c * fst[1] + toff(fst, 2 + D, tf)]
                                    items.append(x * f)
                            el.append(A.poly_sum(items))
    kout = (kf - ki) if contract else (ki + kf)
    return A.Arr((B, O) + tuple(outsp) + (D,) * kout, el, "float")


def option_box(D, N, M=3, symmetric_only=False, unit_stride=False):
    """The canonical (padding, stride, rhs_dilation, lhs_dilation, is_torus) combinations that every
    convolution-related property (C01, C04, C06, C11) sweeps on a representative configuration, so that no
    property's box lacks an option another one has.  Only combinations with a non-empty output are returned;
    wrap padding together with image dilation is left out (the library warns, the statement is ambiguous)."""
    mixed = (True, False, True)[:D]
    none = (False,) * D
    sym = [[1, 1]] * D
    asym = [[1, 2]] * D if D == 2 else [[1, 0], [0, 1], [1, 1]]
    aniso = lambda a, b: (a, b) + (a,) * (D - 2)
    out = []
    for padding in ("TORUS", "SAME", "VALID", None, 0, 1, 2, sym) + (() if symmetric_only else (asym,)):
        for rd in (1, 2, 3):
            out.append((padding, 1, rd, None, mixed))
    # a wrap wider than the image itself (the halo spans more than one period)
    wide = max(N) + 1
    out.append(("TORUS", 1, wide, None, (True,) * D))
    out.append((None, 1, wide, None, mixed))
    out.append(("TORUS", 1, aniso(1, 2), None, (True,) * D))
    out.append(("SAME", 1, aniso(2, 1), None, none))
    out.append((None, 1, 1, None, none))
    for padding in ("SAME", None, "VALID", 1, sym):
        for ld in ((2,) * D, (3,) * D, aniso(2, 1)):
            out.append((padding, 1, 1, list(ld), none if padding is None else mixed))
    out.append(("SAME", 1, 2, [3] * D, mixed))
    if not unit_stride:
        for padding in ("TORUS", "SAME", "VALID", 0, 1):
            for stride in (2, aniso(1, 2)):
                out.append((padding, stride, 1, None, mixed))
    keep = []
    for padding, stride, rd, ld, flags in out:
        _, st, pads, ldn, rdn = norm_opts(D, flags, stride, padding, ld, rd, (M,) * D)
        ok = True
        for a in range(D):
            dil_in = (N[a] - 1) * ldn[a] + 1
            k_eff = (M - 1) * rdn[a] + 1
            if dil_in + pads[a][1] + pads[a][2] - k_eff < 0:
                ok = False
        if ok:
            keep.append((padding, stride, rd, ld, flags))
    return keep


def _pick(seq, *key):
    import zlib

    return seq[zlib.crc32(repr(key).encode()) % len(seq)]


def sampled_options(D, n, seed, symmetric_only=False, unit_stride=False, kmax=None, max_cost=40000):
    """n pseudo-random members of the FULL option space (deterministic in `seed`): extents incl. 1 and non-square,
    filter sides 1-5 incl. even and non-square, every padding kind (strings, default, integers, symmetric and
    asymmetric explicit pairs), strides, both dilations incl. anisotropic ones, every torus-flag pattern (tuple or
    bool), tensor orders, batch and channel counts.  The hand-written boxes cover the combinations someone thought
    of; this sampler covers the ones nobody did.  Wrap padding together with image dilation is left out (ambiguous
    statement), outputs must be non-empty, and the size of the polynomial work is bounded by max_cost."""
    out = []
    i = 0
    kmax = kmax if kmax is not None else (3 if D == 2 else 2)
    while len(out) < n and i < 50 * n + 200:
        i += 1
        k = lambda *f: (seed, i) + f
        N = tuple(_pick((1, 2, 3, 4, 5, 6) if D == 2 else (1, 2, 3, 4), *k("N", a)) for a in range(D))
        if _pick((0, 1, 2), *k("Msq")):
            M = (_pick((1, 2, 3, 3, 3, 4, 5), *k("M")),) * D
        else:
            M = tuple(_pick((1, 2, 3, 4, 5) if D == 2 else (1, 2, 3), *k("M", a)) for a in range(D))
        even = any(m % 2 == 0 for m in M)
        fl = tuple(_pick((True, False), *k("fl", a)) for a in range(D))
        flags = _pick((fl, fl, fl, True, False), *k("flk"))
        flt = (flags,) * D if isinstance(flags, bool) else flags
        pk = _pick(("TORUS", "SAME", "VALID", None, "int", "sym", "asym") if not symmetric_only else ("TORUS", "SAME", "VALID", None, "int", "sym"), *k("pad"))
        if pk == "int":
            padding = _pick((0, 1, 2, 3), *k("padi"))
        elif pk == "sym":
            padding = [[_pick((0, 1, 2, 3), *k("pads", a))] * 2 for a in range(D)]
        elif pk == "asym":
            padding = [[_pick((0, 1, 2, 3), *k("padl", a)), _pick((0, 1, 2, 3), *k("padh", a))] for a in range(D)]
        else:
            padding = pk
        if even and padding in ("TORUS", "SAME", None) and _pick((0, 1, 2, 3), *k("keep-even")):
            continue  # rejected by design; keep only a quarter of those
        stride = 1 if unit_stride else _pick((1, 1, 1, 2, 3, "a"), *k("st"))
        if stride == "a":
            stride = tuple(_pick((1, 2, 3), *k("sta", a)) for a in range(D))
        rd = _pick((1, 1, 2, 3, "a"), *k("rd"))
        if rd == "a":
            rd = tuple(_pick((1, 2, 3), *k("rda", a)) for a in range(D))
        ld = _pick((None, None, None, 2, 3, "a"), *k("ld"))
        if ld == "a":
            ld = [_pick((1, 2, 3), *k("lda", a)) for a in range(D)]
        elif ld is not None:
            ld = [ld] * D
        wraps = (padding == "TORUS" and any(flt)) or (padding is None and any(flt))
        if ld is not None and wraps:
            continue
        if symmetric_only and padding is None and ld is not None and any(flt):
            continue
        ki = _pick(tuple(range(kmax + 1)), *k("ki"))
        kf = _pick(tuple(range(kmax + 1 - ki)), *k("kf"))
        B, C, O = _pick((1, 2), *k("B")), _pick((1, 2, 3), *k("C")), _pick((1, 2, 3), *k("O"))
        _, st, pads, ldn, rdn = norm_opts(D, flt, stride, padding, ld, rd, M)
        ok, outsz = True, 1
        for a in range(D):
            dil_in = (N[a] - 1) * ldn[a] + 1
            k_eff = (M[a] - 1) * rdn[a] + 1
            free = dil_in + pads[a][1] + pads[a][2] - k_eff
            if free < 0:
                ok = False
                break
            outsz *= free // st[a] + 1
        if not ok:
            continue
        taps = 1
        for m in M:
            taps *= m
        if outsz * taps * B * C * O * D ** (ki + kf) > max_cost:
            continue
        out.append(dict(N=N, M=M, flags=flags, padding=padding, stride=stride, rd=rd, ld=ld, ki=ki, kf=kf, B=B, C=C, O=O, even_must_reject=even and padding in ("TORUS", "SAME", None)))
    return out
