"""The mathematical definition of the library's convolution, written directly on symbols.

out[b,o,i] = sum_c sum_a P[b,c, i*stride + a*dilation] (x) F[o,c,a]
P = the (optionally zero-interleaved) image, wrapped periodically on toroidal axes and zero padded
elsewhere; image tensor indices first, filter tensor indices after.
"""

import itertools

from .. import arr as A
from ..poly import Poly


def norm_opts(D, is_torus, stride, padding, lhs_dilation, rhs_dilation, M):
    if isinstance(is_torus, bool):
        is_torus = (is_torus,) * D
    stride = (stride,) * D if isinstance(stride, int) else tuple(stride)
    rd = (rhs_dilation,) * D if isinstance(rhs_dilation, int) else tuple(rhs_dilation)
    ld = (1,) * D if lhs_dilation is None else tuple(lhs_dilation)
    if padding is None:
        padding = "TORUS" if any(is_torus) else "SAME"
    pads = []
    for a in range(D):
        same = ((M[a] - 1) // 2) * rd[a]
        if padding == "TORUS":
            pads.append(("wrap" if is_torus[a] else "zero", same, same))
        elif padding == "SAME":
            pads.append(("zero", same, same))
        elif padding == "VALID":
            pads.append(("zero", 0, 0))
        elif isinstance(padding, int):
            pads.append(("zero", padding, padding))
        else:
            pads.append(("zero", padding[a][0], padding[a][1]))
    return is_torus, stride, pads, ld, rd


def padded_lookup(n, ld, mode, lo, hi):
    """list: padded position -> source index or None (zero). Wrap is applied to the undilated image
    (the library only supports wrap without image dilation; with dilation the wrapped image is interleaved)."""
    if mode == "wrap":
        base = [(i - lo) % n for i in range(n + lo + hi)]
    else:
        base = None
    if base is not None:
        # wrap first, then interleave zeros
        m = len(base)
        out = []
        for q in range((m - 1) * ld + 1 if m else 0):
            out.append(base[q // ld] if q % ld == 0 else None)
        return out
    dn = (n - 1) * ld + 1 if n else 0
    out = []
    for q in range(dn + lo + hi):
        r = q - lo
        if r < 0 or r >= dn or r % ld:
            out.append(None)
        else:
            out.append(r // ld)
    return out


def conv_definition(D, image, filt, is_torus, stride=1, padding=None, lhs_dilation=None, rhs_dilation=1, contract=False):
    """image (batch,in_c,spatial,tensor), filt (out_c,in_c,spatial,tensor) -> (batch,out_c,spatial',tensors)."""
    B, C = image.shape[0], image.shape[1]
    O = filt.shape[0]
    N = image.shape[2:2 + D]
    M = filt.shape[2:2 + D]
    ki = image.ndim - 2 - D
    kf = filt.ndim - 2 - D
    is_torus, stride, pads, ld, rd = norm_opts(D, is_torus, stride, padding, lhs_dilation, rhs_dilation, M)
    look = [padded_lookup(N[a], ld[a], pads[a][0], pads[a][1], pads[a][2]) for a in range(D)]
    outsp = []
    for a in range(D):
        keff = (M[a] - 1) * rd[a] + 1
        outsp.append(0 if len(look[a]) - keff < 0 else (len(look[a]) - keff) // stride[a] + 1)
    ist = A.strides_of(image.shape)
    fst = A.strides_of(filt.shape)
    ie, fe = image.elems, filt.elems
    taps = list(itertools.product(*[range(m) for m in M]))
    timg = list(itertools.product(range(D), repeat=ki))
    if contract:
        tflt_rest = list(itertools.product(range(D), repeat=kf - ki))
    else:
        tflt = list(itertools.product(range(D), repeat=kf))

    def toff(st, base, idx):
        return sum(i * st[base + j] for j, i in enumerate(idx))

    el = []
    for b in range(B):
        for o in range(O):
            for y in itertools.product(*[range(n) for n in outsp]):
                # gather the taps that read a real pixel
                reads = []
                for t in taps:
                    off = b * ist[0]
                    ok = True
                    for a in range(D):
                        s = look[a][y[a] * stride[a] + t[a] * rd[a]]
                        if s is None:
                            ok = False
                            break
                        off += s * ist[2 + a]
                    if ok:
                        reads.append((off, o * fst[0] + toff(fst, 2, t)))
                if contract:
                    for tr in tflt_rest:
                        items = []
                        for ioff, foff in reads:
                            for c in range(C):
                                for ti in timg:
                                    x = ie[ioff + c * ist[1] + toff(ist, 2 + D, ti)]
                                    f = fe[foff + c * fst[1] + toff(fst, 2 + D, ti + tr)]
                                    items.append(x * f)
                        el.append(A.poly_sum(items))
                else:
                    for ti in timg:
                        for tf in tflt:
                            items = []
                            for ioff, foff in reads:
                                for c in range(C):
                                    x = ie[ioff + c * ist[1] + toff(ist, 2 + D, ti)]
                                    f = fe[foff + c * fst[1] + toff(fst, 2 + D, tf)]
                                    items.append(x * f)
                            el.append(A.poly_sum(items))
    kout = (kf - ki) if contract else (ki + kf)
    return A.Arr((B, O) + tuple(outsp) + (D,) * kout, el, "float")


def option_box(D, N, M=3, symmetric_only=False, unit_stride=False):
    """The canonical (padding, stride, rhs_dilation, lhs_dilation, is_torus) combinations that every
    convolution-related property (C01, C04, C06, C11) sweeps on a representative configuration, so that no
    property's box lacks an option another one has.  Only combinations with a non-empty output are returned;
    wrap padding together with image dilation is left out (the library warns, the statement is ambiguous)."""
    mixed = (True, False, True)[:D]
    none = (False,) * D
    sym = [[1, 1]] * D
    asym = [[1, 2]] * D if D == 2 else [[1, 0], [0, 1], [1, 1]]
    aniso = lambda a, b: (a, b) + (a,) * (D - 2)
    out = []
    for padding in ("TORUS", "SAME", "VALID", None, 0, 1, 2, sym) + (() if symmetric_only else (asym,)):
        for rd in (1, 2, 3):
            out.append((padding, 1, rd, None, mixed))
    # a wrap wider than the image itself (the halo spans more than one period)
    wide = max(N) + 1
    out.append(("TORUS", 1, wide, None, (True,) * D))
    out.append((None, 1, wide, None, mixed))
    out.append(("TORUS", 1, aniso(1, 2), None, (True,) * D))
    out.append(("SAME", 1, aniso(2, 1), None, none))
    out.append((None, 1, 1, None, none))
    for padding in ("SAME", None, "VALID", 1, sym):
        for ld in ((2,) * D, (3,) * D, aniso(2, 1)):
            out.append((padding, 1, 1, list(ld), none if padding is None else mixed))
    out.append(("SAME", 1, 2, [3] * D, mixed))
    if not unit_stride:
        for padding in ("TORUS", "SAME", "VALID", 0, 1):
            for stride in (2, aniso(1, 2)):
                out.append((padding, stride, 1, None, mixed))
    keep = []
    for padding, stride, rd, ld, flags in out:
        _, st, pads, ldn, rdn = norm_opts(D, flags, stride, padding, ld, rd, (M,) * D)
        ok = True
        for a in range(D):
            dil_in = (N[a] - 1) * ldn[a] + 1
            k_eff = (M - 1) * rdn[a] + 1
            if dil_in + pads[a][1] + pads[a][2] - k_eff < 0:
                ok = False
        if ok:
            keep.append((padding, stride, rd, ld, flags))
    return keep
