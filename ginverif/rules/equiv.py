"""Shared machinery for the equivariance obligations (C01, C05, C06, C07, C08).

Equivariance is decided as an *identity of exact terms*: the analysed function is abstractly
interpreted on g.x and on x (symbolic pixels, symbolic parameters, a generic symbolic G-invariant filter
bank); f(g.x) must equal g.f(x) element for element.  Polynomial parts are compared as polynomials;
non-polynomial parts are uninterpreted functions whose arguments are compared the same way, so equality
holds for every numeric value of pixels and parameters.
"""

import itertools
from fractions import Fraction

from .. import arr as A
from ..poly import Poly
from .common import *
from .c02 import group, spec_action, det, matmul


def transpose(g):
    return [list(r) for r in zip(*g)]


def act_block(b, D, t, g, nlead=1):
    """g acting on a block (lead..., spatial, tensor) of type t."""
    flat = A.reshape(b, (-1,) + b.shape[nlead:])
    ex = [spec_action(flat[i], D, t[0], t[1], g)[0] for i in range(flat.shape[0])]
    return A.reshape(A.stack(ex, 0), b.shape[:nlead] + ex[0].shape)


def act_blocks(blocks, D, g, nlead=1):
    return {t: act_block(b, D, t, g, nlead) for t, b in blocks.items()}


def invariant_bank_blocks(D, M, kinds, G, nf=2, prefix="F"):
    """A generic G-invariant filter family: the Reynolds image of fully symbolic seeds.
    Every G-invariant filter of that type is a value of it, so identities that hold for it hold for
    every invariant bank."""
    out = {}
    for t in kinds:
        fs = []
        for n in range(nf):
            seed = A.leaf("%s%s_%d" % (prefix, tname(t), n), (M,) * D + (D,) * t[0])
            acc = None
            for g in G:
                r = spec_action(seed, D, t[0], t[1], g)[0]
                acc = r if acc is None else acc + r
            fs.append(acc)
        out[t] = A.stack(fs, 0)
    return out


def shift_block(b, D, shift, nlead=1):
    out = b
    for a, s in enumerate(shift):
        if s:
            out = A.roll(out, s, nlead + a)
    return out


def permute_tuple(tup, g):
    """Carry a per-axis tuple along with the axes: out axis i takes the value of the in axis it comes from."""
    D = len(g)
    return tuple(tup[[j for j in range(D) if g[i][j] != 0][0]] for i in range(D))


def generators(D):
    """Generators of the hyperoctahedral group B_D: adjacent axis swaps and one reflection.
    f(g.x) = g.f(x) for the generators implies it for every element (f(gh.x) = g.f(h.x) = gh.f(x))."""
    gens = []
    for a in range(D - 1):
        g = [[1 if i == j else 0 for j in range(D)] for i in range(D)]
        g[a], g[a + 1] = g[a + 1], g[a]
        gens.append(g)
    r = [[1 if i == j else 0 for j in range(D)] for i in range(D)]
    r[0][0] = -1
    gens.append(r)
    return gens
