"""C18 -- losses compute their definition, pair blocks by type and are symmetry-invariant.

Deciding method: abstract interpretation of smse_loss / timestep_smse_loss / normalized_smse_loss on
symbolic prediction/target blocks; the result polynomial (or opaque-function term) must equal the
definition evaluated on the blocks paired by type, for every insertion order / pytree round trip of
either argument.  ORDER (AST) locates positional pairing constructs.
"""

from fractions import Fraction

from .. import arr as A
from ..order import scan_function
from ..report import Finding
from .common import *

FUNCS = ["smse_loss", "timestep_smse_loss", "normalized_smse_loss"]


def spec_smse(xb, yb, types, S, reduce):
    tot = None
    for t in types:
        d = xb[t] - yb[t]
        l = A.reduce_("sum", d * d, tuple(range(1, d.ndim))) / S
        tot = l if tot is None else tot + l
    if reduce == "mean":
        return A.reduce_("mean", tot)
    return tot


def spec_timestep(xb, yb, types, S, steps, reduce, batch):
    tot = None
    for t in types:
        x, y = xb[t], yb[t]
        c = x.shape[1] // steps
        x = A.reshape(x, (batch, c, steps) + x.shape[2:])
        y = A.reshape(y, (batch, c, steps) + y.shape[2:])
        d = x - y
        l = A.reduce_("sum", d * d, (1,) + tuple(range(3, d.ndim))) / S
        tot = l if tot is None else tot + l
    if reduce == "mean":
        return A.reduce_("mean", tot, 0)
    if reduce == "max":
        i = A.reduce_("argmax", A.reduce_("sum", tot, 1))
        return tot[i]
    return tot


def spec_normalized(xb, yb, types, S, D, eps):
    tot = None
    for t in types:
        x, y = xb[t], yb[t]
        k = t[0]
        d = x - y
        if k:
            n2 = A.reduce_("sum", y * y, tuple(range(y.ndim - k, y.ndim)), keepdims=True)
        else:
            n2 = y * y
        l = A.reduce_("sum", (d * d) / (n2 + eps), tuple(range(1, d.ndim))) / S
        tot = l if tot is None else tot + l
    return A.reduce_("mean", tot)


def _default_eps(it, f):
    """The default of the `eps` parameter as written in the analysed source (the statement only asks for 'a small
    epsilon': any positive literal not above 1/100 is accepted, so retuning the default is not a violation)."""
    import ast as _ast

    a = f.node.args
    names = [x.arg for x in a.args]
    if "eps" not in names:
        raise AbstractError("normalized_smse_loss has no parameter named eps")
    i = names.index("eps") - (len(names) - len(a.defaults))
    if i < 0:
        raise AbstractError("normalized_smse_loss: eps has no default")
    try:
        v = _ast.literal_eval(a.defaults[i])
    except Exception:
        raise Unsupported("default of eps is not a literal: %s" % _ast.unparse(a.defaults[i]))
    fr = Fraction(str(v)) if isinstance(v, float) else Fraction(v)
    if not (0 < fr <= Fraction(1, 100)):
        raise AbstractError("default eps %s is not a small positive number" % v)
    return fr


def worker(job):
    repo, fn, D, types, ox, oy, hx, hy, reduce, same = job
    it, w = get_interp(repo)
    ml = it.get_module("ginjax.ml")
    batch, steps = 2, 3 if fn == "timestep_smse_loss" else 1
    ch = {(0, 0): 2, (0, 1): 2, (1, 0): 1, (1, 1): 1, (2, 0): 1}
    if D == 3:
        ch = {(0, 0): 3, (0, 1): 3, (1, 0): 1, (1, 1): 1, (2, 0): 1}
    sp = SPATIAL[D]
    S = 1
    for s in sp:
        S *= s
    xb = {t: block("x", t, (batch, ch[t] * steps), sp, D) for t in types}
    yb = {t: block("x" if same else "y", t, (batch, ch[t] * steps), sp, D) for t in types}
    x = make_multi(it, ox, xb, D, True, hx)
    y = make_multi(it, oy, yb, D, True, hy)
    cfg = dict(fn=fn, D=D, types=[list(t) for t in types], order_x=[list(t) for t in ox], order_y=[list(t) for t in oy], history_x=hx, history_y=hy, reduce=reduce, equal_args=same)
    f = getattr(ml, fn)
    if fn == "smse_loss":
        res = attempt(lambda: f(x, y, reduce))
        exp = spec_smse(xb, yb, types, S, reduce)
    elif fn == "timestep_smse_loss":
        res = attempt(lambda: f(x, y, steps, reduce))
        exp = spec_timestep(xb, yb, types, S, steps, reduce, batch)
    else:
        # reduce slot of the job carries the epsilon mode for the normalised loss: the function's own default, or an
        # explicit value handed over positionally / by keyword -- the caller's epsilon is the one the definition uses
        mode = reduce if isinstance(reduce, tuple) else ("default", None)
        if mode[0] == "default":
            res = attempt(lambda: f(x, y))
            eps = _default_eps(it, f)
        elif mode[0] == "positional":
            eps = Fraction(*mode[1])
            res = attempt(lambda: f(x, y, eps))
        else:
            eps = Fraction(*mode[1])
            res = attempt(lambda: f(x, y, eps=eps))
        cfg["reduce"] = None
        cfg["eps"] = "the function's default" if mode[0] == "default" else "%s, passed %s" % (eps, mode[0])
        exp = spec_normalized(xb, yb, types, S, D, eps)
    problems = []
    if isinstance(res, Rejected):
        problems.append(("rejected", "arguments with equal type sets were rejected: %s" % res.exc, None))
    elif not isinstance(res, A.Arr):
        problems.append(("type", "result is %r" % (res,), None))
    else:
        if res.shape != exp.shape:
            problems.append(("shape", "result shape %r, definition gives %r" % (res.shape, exp.shape), site_of(res)))
        elif not same_elems(res, exp):
            # classify: pairing (depends on a wrongly paired block) or definition
            kind = "definition"
            from ..poly import leaves_of, as_poly

            # pairing check: monomials mixing x_t with y_t' (t != t')
            mixed = False
            from ..poly import sym_key

            for e in res.elems:
                p = as_poly(e)
                for m in p.terms:
                    names = set()
                    for sid in m:
                        kk = sym_key(sid)
                        if kk[0] == "leaf":
                            names.add(kk[1][1:])
                    if len(names) > 1:
                        mixed = True
            if mixed:
                kind = "pairing"
            problems.append((kind, "loss value differs from its definition: %s" % first_diff(res, exp), site_of(res)))
        if same and not problems:
            if not all((not isinstance(e, Poly) and e == 0) for e in res.elems):
                problems.append(("zero", "loss of equal arguments is not identically zero: %s" % (res.elems[0],), site_of(res)))
    return dict(cfg=cfg, problems=problems)


def run(ctx):
    ev, pm = ctx.ev, ctx.pm
    ev.explanation = (
        "Abstract interpretation of the three loss functions of ginjax.ml.losses on symbolic prediction/target blocks; the result term must "
        "equal the stated definition evaluated on blocks paired by type -- for every insertion order and pytree round trip of either argument, "
        "every reduce mode, D in {2,3} (thorough), including equal arguments (loss identically 0). ORDER (AST) locates positional pairing."
    )
    ev.rule_text = "one obligation per (loss, D, type set, order of prediction, order of target, histories, reduce mode, equal-arguments flag); non-trivial = >=2 types with different orders/histories"
    ev.assumptions = ["jnp.linalg.norm over the flattened tensor axes is sqrt(sum of squares)", "argmax in reduce='max' is an uninterpreted selection", "dict pytrees come back in sorted key order"]
    hits = {}
    for fn in FUNCS:
        node = pm.func(LOSSES_MOD, fn)
        ev.functions.add(LOSSES_MOD + "." + fn)
        hits[fn] = scan_function(node)
    ev.extra["order_rule_hits"] = {q: [list(h) for h in hs] for q, hs in hits.items()}
    jobs = []
    Ds = (2, 3)
    for D in Ds:
        if ctx.thorough():
            sets = [[(0, 0)], [(0, 0), (1, 0)], [(0, 0), (0, 1)], [(1, 0), (1, 1)], [(0, 0), (1, 0), (2, 0)], [(0, 1), (1, 0), (1, 1)]]
        else:
            sets = [[(0, 0), (1, 0)], [(0, 0), (0, 1), (1, 1)], [(2, 0), (0, 0)]]
        if D == 3:
            sets = sets[:4] if ctx.thorough() else sets[:1]
        for s in sets:
            ps = perms(s)
            pairs = [(a, b) for a in ps for b in ps] if (ctx.thorough() or len(s) <= 2) else [(ps[0], ps[0]), (ps[0], ps[4]), (ps[3], ps[1]), (ps[5], ps[2])]
            for ox, oy in pairs:
                hists = [("ctor", "ctor"), ("pytree", "ctor"), ("ctor", "pytree")]
                if ctx.thorough():
                    hists += [("append", "copy"), ("from_vector", "pytree")]
                for hx, hy in hists:
                    for fn in FUNCS:
                        reduces = {"smse_loss": ["mean", None], "timestep_smse_loss": ["mean", "max", None], "normalized_smse_loss": [("default", None), ("positional", (1, 7)), ("keyword", (3, 11))] if (hx, hy) == ("ctor", "ctor") else [("default", None)]}[fn]
                        for r in reduces:
                            jobs.append((ctx.repo, fn, D, tuple(s), ox, oy, hx, hy, r, False))
                        if hx == "ctor" and hy == "ctor":
                            jobs.append((ctx.repo, fn, D, tuple(s), ox, oy, hx, hy, reduces[0], True))
    results = ctx.pairs(worker, jobs)
    by = {}
    for job, r in results:
        cfg = r["cfg"]
        nontriv = len(cfg["types"]) >= 2 and (cfg["order_x"] != cfg["order_y"] or cfg["history_x"] != cfg["history_y"])
        ev.obligation("loss", not r["problems"], tuple(str(v) for v in cfg.values()) if nontriv else None, sample=cfg if ev.obligations % 53 == 0 else None)
        for kind, what, site in r["problems"]:
            by.setdefault((cfg["fn"], kind), []).append((what, site, cfg))
    for (fn, kind), items in sorted(by.items()):
        node = pm.func(LOSSES_MOD, fn)
        line = node.lineno
        loc = ""
        if kind == "pairing" and hits.get(fn):
            line = hits[fn][0][0]
            loc = " [ORDER: positional pairing at line %d: %s]" % (hits[fn][0][0], hits[fn][0][2])
        what, site, cfg = items[0]
        witness = {"pairing": "insertion-order"}.get(kind, kind)
        ctx.add(Finding("C18", "C18.AXI." + kind, fn, "%s (%d of the swept configurations fail)%s" % (what, len(items), loc), pm.path(LOSSES_MOD), line, cfg, witness))
    ev.instances("C18.AXI.obligations", ev.obligations, floor=100 if ctx.tier == "quick" else 1500)
    ev.exhaustive = ctx.thorough()
