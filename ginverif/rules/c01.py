"""C01 -- convolution commutes with the symmetry group (rotations, reflections, shifts).

Deciding method: abstract interpretation of geom.convolve / GeometricImage.convolve_with (working tree)
on (g.A, g.C) and on (A, C) with fully symbolic image A and (non-invariant) filter C; per-axis options
(torus flags, explicit padding, dilations) travel with their axes.  (g.A)*(g.C) == g.(A*C) with type
(k+k', p+p') is decided as an identity of bilinear polynomials for the generators of B_D (which implies
the whole group), for every symmetric boundary treatment incl. even-sided filters, filter and image
dilation, non-square images; cyclic shifts on wrapped axes.
"""

import itertools

from .. import arr as A
from ..report import Finding
from .common import *
from .equiv import *
from .convspec import option_box, sampled_options, _pick


def worker(job):
    repo, D, N, M, ki, kf, pi, pf, flags, padding, rd, ld, extra_g = job
    it, w = get_interp(repo)
    geom = it.get_module(GEOM)
    G = group(D)
    cfg = dict(D=D, image_shape=list(N), filter_shape=list(M), image=[ki, pi], filter=[kf, pf], is_torus=list(flags), padding=padding, rhs_dilation=list(rd), lhs_dilation=ld)
    problems = []
    B, C, O = 1, 2, 2
    img = A.leaf("A", (B, C) + tuple(N) + (D,) * ki)
    flt = A.leaf("C", (O, C) + tuple(M) + (D,) * kf)
    pad_arg = padding if not isinstance(padding, list) else tuple(tuple(p) for p in padding)
    ld_arg = None if ld is None else tuple(ld)
    base = attempt(lambda: geom.convolve(D, img, flt, tuple(flags), 1, pad_arg, ld_arg, tuple(rd)))
    if isinstance(base, Rejected):
        problems.append(("rejected", "convolve rejected a valid option set: %s" % base.exc, None))
        return dict(cfg=cfg, problems=problems)
    tout = (ki + kf, (pi + pf) % 2)
    if base.size == 0:
        cfg["empty_output"] = True
        cfg["group_elements"] = 0
        return dict(cfg=cfg, problems=problems)
    gs = generators(D) + [G[i] for i in extra_g]
    cfg["group_elements"] = len(gs)
    for g in gs:
        gimg = act_block(img, D, (ki, pi), g, 2)
        gflt = act_block(flt, D, (kf, pf), g, 2)
        gflags = permute_tuple(tuple(flags), g)
        grd = permute_tuple(tuple(rd), g)
        gld = None if ld is None else permute_tuple(tuple(ld), g)
        gpad = pad_arg if not isinstance(pad_arg, tuple) else permute_tuple(pad_arg, g)
        res = attempt(lambda: geom.convolve(D, gimg, gflt, gflags, 1, gpad, gld, grd))
        if isinstance(res, Rejected):
            problems.append(("rejected", "convolve rejected the transformed operands (g=%s): %s" % (g, res.exc), None))
            cfg.setdefault("g", g)
            continue
        want = act_block(base, D, tout, g, 2)
        if res.shape != want.shape or not same_elems(res, want):
            problems.append(("equivariance", "(g.A)*(g.C) != g.(A*C) with type (k+k',p+p')=%s for g=%s: %s" % (tname(tout), g, first_diff(res, want) if res.shape == want.shape else "shape %r vs %r" % (res.shape, want.shape)), site_of(res)))
            cfg.setdefault("g", g)
    # translations on wrapped axes (no image dilation)
    if ld is None and padding in ("TORUS", None) and any(flags):
        shift = tuple((1 if f else 0) for f in flags)
        cfg["shift"] = list(shift)
        simg = shift_block(img, D, shift, 2)
        res = attempt(lambda: geom.convolve(D, simg, flt, tuple(flags), 1, pad_arg, ld_arg, tuple(rd)))
        if not isinstance(res, Rejected):
            want = shift_block(base, D, shift, 2)
            if not same_elems(res, want):
                problems.append(("translation", "convolution does not commute with the cyclic shift %s on the wrapped axes: %s" % (list(shift), first_diff(res, want)), None))
    return dict(cfg=cfg, problems=problems)


def parity_worker(job):
    repo, D, pi, pf, ki, kf = job
    it, w = get_interp(repo)
    geom = it.get_module(GEOM)
    N = (3,) * D
    a = geom.GeometricImage(A.leaf("A", N + (D,) * ki), pi, D, True)
    c = geom.GeometricFilter(A.leaf("C", (3,) * D + (D,) * kf), pf, D, True)
    res = attempt(lambda: a.convolve_with(c))
    cfg = dict(D=D, image=[ki, pi], filter=[kf, pf])
    problems = []
    if isinstance(res, Rejected):
        problems.append(("rejected", "convolve_with rejected: %s" % res.exc, None))
    elif res.parity != (pi + pf) % 2 or res.k != ki + kf or res.D != D:
        problems.append(("type", "convolve_with declares (k=%r, parity=%r); the result transforms with (k+k', p+p') = (%d, %d)" % (res.k, res.parity, ki + kf, (pi + pf) % 2), None))
    else:
        # the declared type must be the one with which it transforms (checked on a reflection)
        g = generators(D)[-1]
        ga = geom.GeometricImage(spec_action(a.data, D, ki, pi, g)[0], pi, D, True)
        gc = geom.GeometricFilter(spec_action(c.data, D, kf, pf, g)[0], pf, D, True)
        r2 = attempt(lambda: ga.convolve_with(gc))
        if not isinstance(r2, Rejected):
            want = spec_action(res.data, D, res.k, res.parity, g)[0]
            if not same_elems(r2.data, want):
                problems.append(("type", "the declared type (k=%d, parity=%d) is not how the convolution transforms under a reflection" % (res.k, res.parity), None))
    return dict(cfg=cfg, problems=problems)


def object_worker(job):
    """The statement at the level of the image objects: (g.A).convolve_with(g.C) == g.(A.convolve_with(C)) with g applied by
    the library's own times_group_element, so that extents AND per-axis boundary flags have to travel with their axes
    through the whole expression (data, declared type and flags of both sides are compared)."""
    repo, D, N, flags, (ki, pi), (kf, pf), g = job
    it, w = get_interp(repo)
    geom = it.get_module(GEOM)
    cfg = dict(D=D, image_shape=list(N), is_torus=list(flags), image=[ki, pi], filter=[kf, pf], g=g, level="GeometricImage objects")
    problems = []
    a = geom.GeometricImage(A.leaf("A", tuple(N) + (D,) * ki), pi, D, tuple(flags))
    c = geom.GeometricFilter(A.leaf("C", (3,) * D + (D,) * kf), pf, D, tuple(flags))
    gg = A.as_arr(g)

    def lhs():
        return a.times_group_element(gg).convolve_with(c.times_group_element(gg))

    def rhs():
        return a.convolve_with(c).times_group_element(gg)

    L, R = attempt(lhs), attempt(rhs)
    if isinstance(L, Rejected) or isinstance(R, Rejected):
        bad = L if isinstance(L, Rejected) else R
        problems.append(("rejected", "%s rejected: %s" % ("(g.A)*(g.C)" if isinstance(L, Rejected) else "g.(A*C)", bad.exc), None))
        return dict(cfg=cfg, problems=problems)
    if (L.k, L.parity, L.D) != (R.k, R.parity, R.D):
        problems.append(("type", "(g.A)*(g.C) is declared (k=%r, parity=%r), g.(A*C) is declared (k=%r, parity=%r)" % (L.k, L.parity, R.k, R.parity), None))
    elif tuple(L.is_torus) != tuple(R.is_torus):
        problems.append(("equivariance", "(g.A)*(g.C) carries boundary flags %r, g.(A*C) carries %r: the flags do not travel with their axes" % (tuple(L.is_torus), tuple(R.is_torus)), None))
    elif L.data.shape != R.data.shape or not same_elems(L.data, R.data):
        problems.append(("equivariance", "(g.A).convolve_with(g.C) != g.(A.convolve_with(C)) for g=%s with boundary flags %s: %s" % (g, list(flags), first_diff(L.data, R.data) if L.data.shape == R.data.shape else "shape %r vs %r" % (L.data.shape, R.data.shape)), site_of(L.data)))
    return dict(cfg=cfg, problems=problems)


def run(ctx):
    ev, pm = ctx.ev, ctx.pm
    ev.explanation = (
        "Abstract interpretation of geom.convolve on (g.A, g.C) and (A, C) with fully symbolic image and non-invariant filter, per-axis options carried with their "
        "axes: (g.A)*(g.C) == g.(A*C) with type (k+k', p+p') is decided as an identity of bilinear polynomials for the generators of B_D (hence for all 8/48 elements), for "
        "TORUS / SAME / VALID / symmetric explicit padding incl. even-sided filters, filter dilation, image dilation, mixed torus flags and non-square images; cyclic "
        "shifts on wrapped axes; GeometricImage.convolve_with must declare parity p+p' and order k+k'."
    )
    ev.rule_text = "one obligation per (D, shapes, (k,p), (k',p'), flags, padding, dilations, group element / shift); all are non-trivial (g != identity)"
    ev.assumptions = ["lax.conv_general_dilated and jnp.pad(wrap) semantics as modelled", "unit stride (the statement's scope)", "real-valued images: discharged because the identity is polynomial"]
    for q in ("convolve", "convolve_ravel", "get_torus_expanded", "get_same_padding", "pre_tensor_product_expand"):
        pm.func(FN_MOD, q)
        ev.functions.add(FN_MOD + "." + q)
    pm.func(GI_MOD, "GeometricImage.convolve_with")
    ev.functions.add(GI_MOD + ".GeometricImage.convolve_with")
    th = ctx.thorough()
    jobs = []
    for D in (2, 3):
        Ns = [(3, 4), (4, 4)] if D == 2 else [(2, 3, 4)] + ([(3, 3, 3)] if th else [])
        for N in Ns:
            flag_sets = list(itertools.product((True, False), repeat=D)) if D == 2 else [(True, False, True), (True, True, True)] + ([(False, False, False)] if th else [])
            for flags in flag_sets:
                types = [((0, 0), (0, 0)), ((1, 0), (1, 1)), ((0, 1), (1, 0))] + ([((2, 0), (0, 1)), ((1, 1), (2, 0))] if th and D == 2 else [])
                if D == 3:
                    types = types[:2] if th else [((1, 0), (0, 1))]
                for (ki, pi), (kf, pf) in types:
                    opts = [("TORUS", (1,) * D, None, (3,) * D), ("SAME", (2,) * D, None, (3,) * D), ("VALID", (1,) * D, None, (3,) * D)]
                    opts.append(([[1, 1]] * D, (1,) * D, None, (2,) * D))  # even filter, symmetric explicit padding
                    opts.append(([[1, 1]] * D, (1,) * D, [2] * D, (3,) * D))  # transposed convolution
                    opts.append(("SAME", (1,) * D, [2] * D, (3,) * D))  # transposed convolution with zero 'same' padding
                    opts.append((None, (1,) * D, [2] + [1] * (D - 1), (3,) * D))  # default padding (TORUS or SAME by flags), anisotropic image dilation
                    if D == 2:
                        opts.append((None, (1, 2), None, (3, 5)))  # anisotropic dilation and non-square filter travel with their axes
                        opts.append(([[1, 1], [2, 2]], (1, 1), [2, 1], (2, 3)))
                    for padding, rd, ld, M in opts:
                        if not th and D == 2 and dhash((N, flags, ki, kf, str(padding), rd)) % 3 and not (N == (3, 4) and flags == (True, False)):
                            continue
                        if D == 3 and not th and (padding not in ("TORUS", "SAME") or (ld is not None and flags != (True, False, True))):
                            continue
                        jobs.append((ctx.repo, D, N, M, ki, kf, pi, pf, flags, padding, rd, ld, (5,) if th else ()))
    # the option box shared by C01 / C04 / C06 / C11 (symmetric paddings, unit stride: the statement's scope)
    for D in (2, 3) if th else (2,):
        Nb = (3, 4) if D == 2 else (2, 3, 4)
        for padding, stride, rd, ld, flags in option_box(D, Nb, symmetric_only=True, unit_stride=True):
            rdt = (rd,) * D if isinstance(rd, int) else tuple(rd)
            jobs.append((ctx.repo, D, Nb, (3,) * D, 1, 1, 0, 1, flags, padding, rdt, ld, ()))
    # pseudo-random members of the full option space (symmetric paddings, unit stride), a random extra group element each
    for D in (2, 3):
        ng = 8 if D == 2 else 48
        for i, o in enumerate(sampled_options(D, (500 if D == 2 else 150) if th else (30 if D == 2 else 8), "C01", symmetric_only=True, unit_stride=True, kmax=3 if D == 2 else 2, max_cost=20000)):
            if o["even_must_reject"]:
                continue
            fl = (o["flags"],) * D if isinstance(o["flags"], bool) else tuple(o["flags"])
            rdt = (o["rd"],) * D if isinstance(o["rd"], int) else tuple(o["rd"])
            jobs.append((ctx.repo, D, o["N"], o["M"], o["ki"], o["kf"], _pick((0, 1), "pi", i), _pick((0, 1), "pf", i), fl, o["padding"], rdt, o["ld"], (_pick(tuple(range(1, ng)), "g", D, i),)))
    by = {}
    for job, r in ctx.pairs(worker, jobs):
        cfg = r["cfg"]
        n_g = cfg.get("group_elements", 0)
        bad = len([1 for k, _, _ in r["problems"] if k in ("equivariance", "rejected")])
        for i in range(n_g):
            ev.obligation("equivariance", i >= bad, tuple(str(v) for v in cfg.values()) + (i,), sample=cfg if ev.obligations % 97 == 0 else None)
        if "shift" in cfg:
            ev.obligation("translation", not any(k == "translation" for k, _, _ in r["problems"]), tuple(str(v) for v in cfg.values()) + ("s",))
        for kind, what, site in r["problems"]:
            by.setdefault(("convolve", FN_MOD, kind), []).append((what, site, cfg))
    pj = [(ctx.repo, D, pi, pf, ki, kf) for D in (2, 3) for pi in (0, 1) for pf in (0, 1) for (ki, kf) in (((0, 0), (1, 1), (0, 1)) if D == 2 else ((0, 0), (1, 0)))]
    for job, r in ctx.pairs(parity_worker, pj):
        cfg = r["cfg"]
        ev.obligation("declared-type", not r["problems"], tuple(str(v) for v in cfg.values()), sample=cfg if cfg["image"] == [1, 1] and cfg["filter"] == [1, 0] else None)
        for kind, what, site in r["problems"]:
            by.setdefault(("GeometricImage.convolve_with", GI_MOD, kind), []).append((what, site, cfg))
    # object level: generators and the axis-cycling elements (order-3 in D=3: the ones where g and g^-1 move flags differently)
    oj = []
    for D in (2, 3):
        Gs = generators(D)
        if D == 3:
            Gs = Gs + [[[0, 1, 0], [0, 0, 1], [1, 0, 0]], [[0, 0, -1], [1, 0, 0], [0, 1, 0]]]
        shapes = [((3, 4), (True, False)), ((4, 3), (False, True))] if D == 2 else [((3, 4, 3), (True, True, False)), ((3, 3, 4), (False, True, False))]
        for N, flags in shapes:
            for ti, tf in (((0, 0), (0, 0)), ((1, 0), (0, 1))) if (th or D == 2) else (((0, 0), (0, 0)),):
                for g in Gs:
                    oj.append((ctx.repo, D, N, flags, ti, tf, g))
    pm.func(GI_MOD, "GeometricImage.times_group_element")
    ev.functions.add(GI_MOD + ".GeometricImage.times_group_element")
    for job, r in ctx.pairs(object_worker, oj):
        cfg = r["cfg"]
        ev.obligation("object-level equivariance", not r["problems"], tuple(str(v) for v in cfg.values()), sample=cfg if ev.obligations % 31 == 0 else None)
        for kind, what, site in r["problems"]:
            by.setdefault(("GeometricImage.convolve_with", GI_MOD, kind), []).append((what, site, cfg))
    for (q, mod, kind), items in sorted(by.items()):
        what, site, cfg = items[0]
        node = pm.func(mod, q)
        extra = ""
        if site and site[0]:
            extra = " [last array operation at %s:%s in %s]" % (site[0].split("/src/")[-1], site[1], site[2])
        ctx.add(Finding("C01", "C01.AXI." + kind, q, "%s (%d of the swept configurations fail)%s" % (what, len(items), extra), pm.path(mod), node.lineno, cfg, kind))
    ev.instances("C01.AXI.obligations", ev.obligations, floor=100 if ctx.tier == "quick" else 600)
    ev.exhaustive = False
