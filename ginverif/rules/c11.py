"""C11 -- the linear layer computes its defining sum and returns the requested types.

Deciding method: abstract interpretation of ml.ConvContract.__init__ / __call__ / individual_convolve /
fast_convolve (working tree) with symbolic input blocks, symbolic weights, biases and a symbolic filter
bank; each output block must equal, as a polynomial identity,
    sum_s contract(conv(x_s, sum_n W[s,t][.,.,n] F[(k_s+k_t,(p_s+p_t)%2)][n])) + bias term of the setting,
and the set of emitted types must be exactly the targets reachable through the filters present.
"""

import itertools
from fractions import Fraction

from .. import arr as A
from ..report import Finding
from ..shims import Key
from .common import *
from ..shims import tree_map
from .convspec import conv_definition, option_box

BIAS = ["auto", "mean", "scalar", True, False]


def make_bank(it, D, M, kinds, nf=2):
    blocks = {t: A.leaf("F%s" % tname(t), (nf + (t[0] % 2),) + (M,) * D + (D,) * t[0]) for t in kinds}
    return make_multi(it, list(kinds), blocks, D, True), blocks


def worker(job):
    repo, D, in_sig, out_sig, bias, padding, stride, rd, ld, flags, missing, fast = job
    it, w = get_interp(repo)
    ml = it.get_module("ginjax.ml")
    geom = it.get_module(GEOM)
    N = (3, 4) if D == 2 else (3, 2, 3)
    M = 3
    in_sig = tuple((tuple(t), c) for t, c in in_sig)
    out_sig = tuple((tuple(t), c) for t, c in out_sig)
    needed = set()
    for (s, _), (t, _) in itertools.product(in_sig, out_sig):
        needed.add((s[0] + t[0], (s[1] + t[1]) % 2))
    kinds = sorted(k for k in needed if k not in missing)
    bank, fblocks = make_bank(it, D, M, kinds)
    cfg = dict(D=D, input=[[list(t), c] for t, c in in_sig], target=[[list(t), c] for t, c in out_sig], use_bias=bias, padding=padding, stride=stride, rhs_dilation=rd, lhs_dilation=ld, is_torus=list(flags), missing_filters=[list(m) for m in missing], fast=fast)
    problems = []
    pad_arg = padding if not isinstance(padding, list) else tuple(tuple(p) for p in padding)
    ld_arg = None if ld is None else tuple(ld)
    layer = attempt(lambda: ml.ConvContract(in_sig, out_sig, bank, bias, stride, pad_arg, ld_arg, rd, Key(0)))
    if isinstance(layer, Rejected):
        problems.append(("rejected", "the constructor rejected a documented configuration: %s" % layer.exc, None))
        return dict(cfg=cfg, problems=problems)
    xb = {t: block("x", t, (c,), N, D) for t, c in in_sig}
    x = make_multi(it, [t for t, _ in in_sig], xb, D, flags)
    if fast == "roundtrip":
        # the layer after a pytree flatten / unflatten (jit boundary, a training step): dict fields with sorted keys
        layer = tree_map(lambda a: a, layer)
        cfg["history"] = "pytree round trip of the layer"
        res = attempt(lambda: layer(x))
    elif fast:
        res = attempt(lambda: layer.fast_convolve(x, layer.weights))
    else:
        res = attempt(lambda: layer(x))
    if isinstance(res, Rejected):
        problems.append(("rejected", "the layer rejected a valid input: %s" % res.exc, None))
        return dict(cfg=cfg, problems=problems)
    if not is_multi(res):
        problems.append(("type", "result is %s" % type(res).__name__, None))
        return dict(cfg=cfg, problems=problems)
    # ---- specification
    weights = layer.weights
    exp = {}
    for (t, oc) in out_sig:
        acc = None
        for (s, ic) in in_sig:
            fk = (s[0] + t[0], (s[1] + t[1]) % 2)
            if fk not in fblocks:
                continue
            if s not in weights or t not in weights[s]:
                problems.append(("weights", "no weight block for %s -> %s although the filter %s exists" % (tname(s), tname(t), tname(fk)), None))
                continue
            Wst = weights[s][t]
            F = fblocks[fk]
            if Wst.shape != (oc, ic, F.shape[0]):
                problems.append(("weights", "weights %s->%s have shape %r, expected %r" % (tname(s), tname(t), Wst.shape, (oc, ic, F.shape[0])), None))
                continue
            fb = A.einsum("oin,n...->oi...", Wst, F)
            y = conv_definition(D, A.expand_dims(xb[s], 0), fb, flags, stride, pad_arg, ld_arg, rd, True)[0]
            acc = y if acc is None else acc + y
        if acc is not None:
            exp[t] = acc
    mode = bias
    if mode is True:
        mode = "auto"
    for t in list(exp):
        if fast is True or not mode:
            continue
        b = layer.bias.get(t) if isinstance(layer.bias, dict) else None
        additive = t == (0, 0) and mode in ("auto", "scalar")
        meanscale = (t != (0, 0) and mode == "auto") or mode == "mean"
        if additive or meanscale:
            oc = dict(out_sig)[t]
            if b is None or b.shape != (oc,) + (1,) * (D + t[0]):
                problems.append(("bias", "bias for %s is %s, expected a per-channel parameter of shape %r" % (tname(t), None if b is None else b.shape, (oc,) + (1,) * (D + t[0])), None))
                continue
            if additive:
                exp[t] = exp[t] + b
            else:
                mean = A.reduce_("mean", exp[t], tuple(range(1, 1 + D)), keepdims=True)
                exp[t] = exp[t] + mean * b
    # ---- comparison
    if set(res.keys()) != set(exp.keys()):
        missing_t = sorted(set(exp) - set(res.keys()))
        extra_t = sorted(set(res.keys()) - set(exp))
        problems.append(("types", "the output holds types %s; requested and reachable are %s%s%s" % (sorted(res.keys()), sorted(exp), (" -- silently dropped: %s" % missing_t) if missing_t else "", (" -- unexpected: %s" % extra_t) if extra_t else ""), None))
    for t in exp:
        if t not in res:
            continue
        if res[t].shape != exp[t].shape:
            problems.append(("shape", "block %s has shape %r, expected %r" % (tname(t), res[t].shape, exp[t].shape), site_of(res[t])))
        elif not same_elems(res[t], exp[t]):
            problems.append(("definition", "block %s differs from the defining sum: %s" % (tname(t), first_diff(res[t], exp[t])), site_of(res[t])))
    if res.D != D or tuple(res.is_torus) != tuple(flags):
        problems.append(("meta", "result has D=%r is_torus=%r" % (res.D, res.is_torus), None))
    return dict(cfg=cfg, problems=problems)


def run(ctx):
    ev, pm = ctx.ev, ctx.pm
    ev.explanation = (
        "Abstract interpretation of ml.ConvContract (constructor, __call__, individual_convolve, fast_convolve) with symbolic inputs, weights, biases and filter "
        "bank: every output block must equal -- as a polynomial identity in all of them -- the defining sum over input types of contract(conv(x_s, sum_n W F_n)) "
        "plus the bias term prescribed by the setting (additive only for true scalars, mean-scaled otherwise), the emitted key set must be exactly the reachable "
        "targets, with the requested channels and the spatial shape implied by padding/stride/dilations; swept over signatures (any key order, unequal channels), "
        "the five bias settings, padding modes, stride, dilations, torus flags, banks with a missing filter type, D=2,3."
    )
    ev.rule_text = "one obligation per (D, input signature, target signature, bias setting, padding, stride, dilations, flags, missing filter types, code path); non-trivial = >=2 input or target types or a bias"
    ev.assumptions = ["lax.conv_general_dilated / einsum semantics as modelled", "random initial values are irrelevant: weights and biases are symbols"]
    for q in ("ConvContract.__init__", "ConvContract.__call__", "ConvContract.individual_convolve", "ConvContract.fast_convolve"):
        pm.func(LAYERS_MOD, q)
        ev.functions.add(LAYERS_MOD + "." + q)
    th = ctx.thorough()
    sigs = [
        ((((0, 0), 2),), (((0, 0), 3),)),
        ((((0, 0), 2), ((1, 0), 1)), (((1, 0), 2), ((0, 0), 1))),
        ((((1, 0), 2), ((0, 1), 1)), (((0, 0), 1), ((0, 1), 2), ((1, 1), 1))),
        ((((0, 0), 1), ((1, 0), 2), ((2, 0), 1)), (((1, 0), 1),)),
        ((((1, 1), 1),), (((2, 0), 1), ((0, 0), 2))),
    ]
    if th:
        sigs += [
            ((((0, 1), 2), ((0, 0), 1)), (((0, 1), 1), ((0, 0), 2))),
            ((((2, 0), 1), ((0, 0), 2)), (((2, 0), 1), ((1, 1), 2))),
            ((((1, 0), 1), ((0, 0), 2), ((1, 1), 2)), (((1, 1), 2), ((1, 0), 1), ((0, 0), 1))),
        ]
    jobs = []
    for D in (2, 3):
        for si, (isig, osig) in enumerate(sigs):
            if D == 3 and (si not in (1, 2) or not th and si != 1):
                continue
            for bias in BIAS:
                combos = [("TORUS", 1, 1, None, (True,) * D), (None, 1, 1, None, (True, False, True)[:D])]
                if th or si in (1, 2):
                    combos += [("SAME", 1, 2, None, (False,) * D), ("SAME", 2, 1, None, (False,) * D), ("VALID", 2, 1, None, (True,) * D), ([[1, 1]] * D, 1, 1, [2] * D, (True,) * D), (None, 1, 1, None, (False,) * D)]
                if th or si == 1:
                    # integer paddings incl. 0 (the "spatial shape implied by the padding" clause), image dilation with
                    # string / integer padding, anisotropic stride
                    combos += [(0, 1, 1, None, (True,) * D), (1, 1, 2, None, (True, False, True)[:D]), (2, 2, 1, None, (False,) * D), ("SAME", 1, 1, [2] * D, (False,) * D), (1, 1, 1, [2] * D, (True,) * D), ("VALID", (1, 2, 1)[:D], 1, None, (True,) * D)]
                if not th and bias in (False, "mean") and si > 2:
                    combos = combos[:1]
                for padding, stride, rd, ld, flags in combos:
                    miss_opts = [()]
                    if any(((s[0] + t[0], (s[1] + t[1]) % 2) == (0, 1)) for (s, _), (t, _) in itertools.product(isig, osig)):
                        miss_opts.append(((0, 1),))
                    for missing in miss_opts:
                        jobs.append((ctx.repo, D, isig, osig, bias, padding, stride, rd, ld, flags, missing, False))
        # fast path (public, dead while fast_mode is forced off): equal channels, no missing filter
        # (in and out channel counts differ, so an in_c / out_c mix-up changes a shape or the result)
        for isig, osig in (((((0, 0), 2), ((1, 0), 2)), (((0, 0), 3), ((1, 0), 3))), ((((1, 0), 1),), (((0, 0), 2), ((1, 0), 2), ((2, 0), 2))), ((((0, 1), 3), ((1, 1), 3)), (((0, 0), 2), ((1, 0), 2)))):
            if D == 3 and not th:
                continue
            jobs.append((ctx.repo, D, isig, osig, False, "TORUS", 1, 1, None, (True,) * D, (), True))
            jobs.append((ctx.repo, D, isig, osig, False, "SAME", 1, 1, None, (False,) * D, (), True))
    # layers that qualify for the single-convolution fast path (equal channel counts on each side, one filter size,
    # no missing filter), types listed in a non-sorted order, through __call__ -- whichever path it dispatches to
    for D in (2, 3) if th else (2,):
        for isig, osig in (((((1, 0), 2), ((0, 0), 2)), (((1, 1), 3), ((1, 0), 3), ((0, 0), 3))), ((((0, 1), 1), ((0, 0), 1)), (((1, 0), 2), ((0, 1), 2)))):
            for bias in ("auto", False):
                jobs.append((ctx.repo, D, isig, osig, bias, "TORUS", 1, 1, None, (True,) * D, (), False))
                jobs.append((ctx.repo, D, isig, osig, bias, "TORUS", 1, 1, None, (True,) * D, (), "roundtrip"))
    # the option box shared by C01 / C04 / C06 / C11, one signature with two types on each side, bias 'auto'
    for D in (2, 3) if th else (2,):
        for padding, stride, rd, ld, flags in option_box(D, (4, 5) if D == 2 else (3, 4, 3)):
            jobs.append((ctx.repo, D, sigs[1][0], sigs[1][1], "auto", padding, stride, rd, ld, flags, (), False))
    # pseudo-random (deterministic) layers: signature (any key order, unequal channels) x bias x any option set
    from .convspec import _pick, norm_opts

    pool = [(0, 0), (0, 1), (1, 0), (1, 1), (2, 0), (2, 1)]
    n_s = 0
    i = 0
    while n_s < (150 if th else 16) and i < 5000:
        i += 1
        D = 2 if _pick((0, 1, 2, 3), "C11", i, "D") else 3
        N = (3, 4) if D == 2 else (3, 2, 3)
        ins = list(dict.fromkeys(_pick(pool[: 6 if D == 2 else 4], "C11", i, "in", j) for j in range(_pick((1, 2, 2, 3), "C11", i, "nin"))))
        outs = list(dict.fromkeys(_pick(pool[: 6 if D == 2 else 4], "C11", i, "out", j) for j in range(_pick((1, 2, 3, 3), "C11", i, "nout"))))
        if max(a[0] for a in ins) + max(b[0] for b in outs) > (3 if D == 2 else 2) or (D == 3 and len(ins) * len(outs) > 2):
            continue
        isig = tuple((t, _pick((1, 2, 3), "C11", i, "ci", t)) for t in ins)
        osig = tuple((t, _pick((1, 2, 3), "C11", i, "co", t)) for t in outs)
        bias = _pick(BIAS, "C11", i, "bias")
        pk = _pick(("TORUS", "SAME", "VALID", None, "int", "sym", "asym"), "C11", i, "pad")
        padding = _pick((0, 1, 2), "C11", i, "pi") if pk == "int" else [[_pick((0, 1, 2), "C11", i, "ps", a)] * 2 for a in range(D)] if pk == "sym" else [[_pick((0, 1, 2), "C11", i, "pl", a), _pick((0, 1, 2), "C11", i, "ph", a)] for a in range(D)] if pk == "asym" else pk
        stride = _pick((1, 1, 2, "a"), "C11", i, "st")
        stride = tuple(_pick((1, 2), "C11", i, "sta", a) for a in range(D)) if stride == "a" else stride
        rd = _pick((1, 1, 2, 3, "a"), "C11", i, "rd")
        rd = tuple(_pick((1, 2), "C11", i, "rda", a) for a in range(D)) if rd == "a" else rd
        ld = _pick((None, None, None, 2, "a"), "C11", i, "ld")
        ld = [_pick((1, 2), "C11", i, "lda", a) for a in range(D)] if ld == "a" else ([ld] * D if ld else None)
        flags = tuple(_pick((True, False), "C11", i, "fl", a) for a in range(D))
        if ld is not None and padding in ("TORUS", None) and any(flags):
            continue
        _, st, pads, ldn, rdn = norm_opts(D, flags, stride, padding, ld, rd, (3,) * D)
        if any((N[a] - 1) * ldn[a] + 1 + pads[a][1] + pads[a][2] - ((3 - 1) * rdn[a] + 1) < 0 for a in range(D)):
            continue
        missing = ((0, 1),) if _pick((0, 0, 1), "C11", i, "miss") and any(((s_[0] + t_[0], (s_[1] + t_[1]) % 2) == (0, 1)) for s_ in ins for t_ in outs) else ()
        n_s += 1
        jobs.append((ctx.repo, D, isig, osig, bias, padding, stride, rd, ld, flags, missing, "roundtrip" if i % 5 == 0 else False))
    by = {}
    for job, r in ctx.pairs(worker, jobs):
        cfg = r["cfg"]
        nontriv = len(cfg["input"]) >= 2 or len(cfg["target"]) >= 2 or cfg["use_bias"]
        ev.obligation("layer", not r["problems"], tuple(str(v) for v in cfg.values()) if nontriv else None, sample=cfg if ev.obligations % 31 == 0 else None)
        for kind, what, site in r["problems"]:
            by.setdefault(("fast_convolve" if cfg["fast"] is True else "__call__", kind, str(cfg["use_bias"]) if kind == "types" else ""), []).append((what, site, cfg))
    for (entry, kind, bmode), items in sorted(by.items()):
        what, site, cfg = items[0]
        q = "ConvContract." + entry
        node = pm.func(LAYERS_MOD, q)
        witness = kind + ((":use_bias=" + bmode) if bmode else "")
        ctx.add(Finding("C11", "C11.AXI." + kind, q, "%s (%d of the swept configurations fail)" % (what, len(items)), pm.path(LAYERS_MOD), node.lineno, cfg, witness))
    ev.instances("C11.AXI.obligations", ev.obligations, floor=60 if ctx.tier == "quick" else 300)
    ev.exhaustive = False
