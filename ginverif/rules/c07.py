"""C07 -- equivariant networks are equivariant end to end.

Deciding method: abstract interpretation of the model constructors and __call__ of UNet / ResNet /
DilResNet / ConvBlock (working tree) in equivariant mode, on x and on g.x, with symbolic pixels, every
learnable parameter a symbol and a generic invariant filter bank: model(g.x) == g.model(x) must hold as an
identity of exact terms for the generators of B_D (hence the whole group) -- for every parameter value.
Large intermediate polynomials are interned as signed symbols (sound for comparing two runs of the same
code).  EFFECT (AST): every construct that is not equivariant by construction must be control-dependent
on `not equivariant`.
"""

import ast
import itertools

from .. import arr as A
from ..report import Finding
from .common import *
from .equiv import *
from .c08 import symbolise
from .modelbox import build_model, spatial_for


def worker(job):
    repo, spec = job
    it, w = get_interp(repo)
    cfg = dict(spec)
    problems = []
    D = spec["D"]
    A.set_cut(24)
    try:
        model = attempt(lambda: build_model(it, w, spec))
        if isinstance(model, Rejected):
            problems.append(("rejected", "the constructor rejected the configuration: %s" % model.exc, None))
            return dict(cfg=cfg, problems=problems)
        symbolise(w, model)
        if spec.get("_roundtrip"):
            # "for every parameter value": a trained / jitted / loaded model has been through pytree flatten / unflatten,
            # which re-creates every dict field with SORTED keys
            model = tree_map(lambda a: a, model)
        N = spatial_for(spec)
        if spec.get("_orient"):
            N = tuple(N[i] for i in spec["_orient"])  # another member of the orbit of a non-cubic box
        flags = tuple(spec.get("is_torus", (True,) * D))
        in_sig = [(tuple(t), c) for t, c in spec["input"]]
        out_sig = [(tuple(t), c) for t, c in spec["output"]]
        xb = {t: block("x", t, (c,), N, D) for t, c in in_sig}
        order = [t for t, _ in in_sig]
        r = attempt(lambda: model(make_multi(it, order, xb, D, flags)))
        if isinstance(r, Rejected):
            problems.append(("rejected", "the model rejected an input of its declared signature: %s" % r.exc, None))
            return dict(cfg=cfg, problems=problems)
        y = r[0]
        if not is_multi(y) or set(y.keys()) != set(t for t, _ in out_sig):
            problems.append(("types", "output types %s, requested %s" % (sorted(y.keys()) if is_multi(y) else type(y).__name__, sorted(t for t, _ in out_sig)), None))
            return dict(cfg=cfg, problems=problems)
        n_ok = 0
        for g in generators(D):
            gx = act_blocks(xb, D, g)
            rg = attempt(lambda: model(make_multi(it, order, gx, D, permute_tuple(flags, g))))
            if isinstance(rg, Rejected):
                problems.append(("rejected", "the model rejected g.x: %s" % rg.exc, None))
                continue
            yg = rg[0]
            bad = None
            for t in y.keys():
                want = act_block(y[t], D, t, g)
                if t not in yg or yg[t].shape != want.shape or not same_elems(yg[t], want):
                    bad = t
                    break
            if bad is not None:
                problems.append(("equivariance", "model(g.x) != g.model(x) for the requested output block %s and g=%s" % (tname(bad), g), site_of(yg[bad]) if bad in yg else None))
                cfg["g"] = g
                break
            n_ok += 1
        cfg["generators_checked"] = n_ok
        # translations: ResNets by one pixel, the U-Net by its total pooling factor (fully toroidal inputs)
        if all(flags) and not problems:
            step = 2 ** spec.get("num_downsamples", 1) if spec["cls"] == "UNet" else 1
            sh = (step,) + (0,) * (D - 1)
            sx = {t: shift_block(b, D, sh) for t, b in xb.items()}
            rs = attempt(lambda: model(make_multi(it, order, sx, D, flags)))
            if not isinstance(rs, Rejected):
                for t in y.keys():
                    if not same_elems(rs[0][t], shift_block(y[t], D, sh)):
                        problems.append(("translation", "the model does not commute with the cyclic shift by %d pixel(s)" % step, None))
                        break
                cfg["shift_checked"] = step
    finally:
        A.set_cut(None)
    return dict(cfg=cfg, problems=problems)


# ------------------------------------------------------------------------------------- EFFECT (AST)

NONEQ_CALLS = {
    "equinox.nn.Conv": "conventional convolution",
    "equinox.nn.ConvTranspose": "conventional transposed convolution",
    "equinox.nn.GroupNorm": "conventional group norm applied to flattened components",
    "equinox.nn.BatchNorm": "batch norm",
    "equinox.nn.MLP": "MLP",
    "equinox.nn.Linear": "linear layer",
    "ginjax.ml.layers.LayerWrapper": "per-type wrapper around a plain module",
    "ginjax.ml.layers.LayerWrapperAux": "per-type wrapper around a plain module",
    "ginjax.geometric.multi_image.MultiImage.to_scalar_multi_image": "component flattening",
    "ginjax.geometric.multi_image.MultiImage.from_scalar_multi_image": "component un-flattening",
}
NONEQ_METHODS = {"to_scalar_multi_image", "from_scalar_multi_image"}


def guard_polarity(test, name="equivariant"):
    """+1 if test implies `equivariant`, -1 if it implies `not equivariant`, 0 otherwise."""
    t = ast.unparse(test)
    if isinstance(test, ast.UnaryOp) and isinstance(test.op, ast.Not):
        return -guard_polarity(test.operand, name)
    if isinstance(test, (ast.Name, ast.Attribute)) and t in (name, "self." + name):
        return 1
    # batch norm is documented (and asserted by the U-Net) to be available in conventional mode only
    if isinstance(test, (ast.Name, ast.Attribute)) and t in ("use_batch_norm", "self.use_batch_norm"):
        return -1
    if isinstance(test, ast.BoolOp) and isinstance(test.op, ast.And):
        for v in test.values:
            p = guard_polarity(v, name)
            if p:
                return p
    return 0


def walk_pol(node, pol):
    """ast.walk that carries the guard polarity through conditional expressions (`a if equivariant else b`)."""
    yield node, pol
    if isinstance(node, ast.IfExp):
        g = guard_polarity(node.test)
        exact = not isinstance(node.test, ast.BoolOp)
        for x in walk_pol(node.test, pol):
            yield x
        for x in walk_pol(node.body, g if g else pol):
            yield x
        for x in walk_pol(node.orelse, -g if (g and exact) else pol):
            yield x
        return
    for ch in ast.iter_child_nodes(node):
        for x in walk_pol(ch, pol):
            yield x


def effect_rule(ctx):
    pm = ctx.pm
    hits = []
    n_sites = 0
    for q, fn in pm.functions(MODELS_MOD):
        params = [a.arg for a in fn.args.args] + [a.arg for a in fn.args.kwonlyargs]
        in_model = q.split(".")[0] in ("UNet", "ResNet", "DilResNet", "ConvBlock") or q in ("make_conv", "handle_activation")
        if not in_model:
            continue

        def terminates(stmts):
            """every path through the block ends in return / raise (guard-clause style early exits)"""
            if not stmts:
                return False
            last = stmts[-1]
            if isinstance(last, (ast.Return, ast.Raise)):
                return True
            if isinstance(last, ast.If):
                return terminates(last.body) and terminates(last.orelse)
            return False

        def visit(stmts, ctxpol):
            nonlocal n_sites
            for st in stmts:
                if isinstance(st, ast.If):
                    pol = guard_polarity(st.test)
                    visit(st.body, pol if pol else ctxpol)
                    # `a and equivariant` says nothing about its else branch
                    exact = not isinstance(st.test, ast.BoolOp)
                    visit(st.orelse, -pol if (pol and exact) else ctxpol)
                    if not exact:
                        pol = 0
                    # guard clause: `if equivariant: ...; return` makes the rest of the block the conventional branch
                    if pol and ctxpol == 0:
                        if terminates(st.body) and not terminates(st.orelse):
                            ctxpol = -pol
                        elif terminates(st.orelse) and not terminates(st.body):
                            ctxpol = pol
                    continue
                for sub in ([st] if not isinstance(st, (ast.For, ast.While, ast.With)) else []):
                    for n, npol in walk_pol(sub, ctxpol):
                        if isinstance(n, ast.Call):
                            d = pm.resolve(MODELS_MOD, n.func, params) or ""
                            what = NONEQ_CALLS.get(d)
                            if what is None and isinstance(n.func, ast.Attribute) and n.func.attr in NONEQ_METHODS:
                                what = "component (un)flattening"
                                d = n.func.attr
                            if what is None and d == "ginjax.ml.layers.MaxNormPool":
                                # second argument must be truthy in the equivariant branch
                                a2 = n.args[1] if len(n.args) > 1 else None
                                if a2 is not None and not (isinstance(a2, ast.Constant) and a2.value is True) and ast.unparse(a2) not in ("equivariant", "self.equivariant"):
                                    what = "max pooling by signed value (use_norm=%s)" % ast.unparse(a2)
                            if what is not None:
                                n_sites += 1
                                if npol != -1:
                                    hits.append((q, n.lineno, "%s (%s) is reachable in the equivariant branch: not guarded by `not equivariant`" % (d, what)))
                if isinstance(st, (ast.For, ast.While, ast.With)):
                    visit(st.body, ctxpol)

        visit(fn.body, 0)
    return hits, n_sites


def run(ctx):
    ev, pm = ctx.ev, ctx.pm
    ev.explanation = (
        "Abstract interpretation of the constructors and __call__ of UNet, ResNet, DilResNet and ConvBlock in equivariant mode on x and g.x with symbolic pixels, all learnable "
        "parameters symbolised and a generic invariant filter bank (3-sided for convolutions, 2-sided for the U-Net up-sampling): model(g.x) == g.model(x) as an identity of exact "
        "terms for the generators of B_D, so skip concatenation, residual sums, the [1,2,4,8,4,2,1] dilation schedule, norm-based max pooling, the lhs-dilated up-convolution, "
        "normalisation and nonlinearities are all covered; cyclic shifts (by one pixel for the ResNets, by the pooling factor for the U-Net) on toroidal inputs. EFFECT (AST): every "
        "conventional construct in models.py is control-dependent on `not equivariant`."
    )
    ev.rule_text = "one obligation per architecture configuration (class, depth, blocks, downsamples, convs per level, activation, normalisation, pre-activation, bias mode, signature incl. pseudo-types, flags, D); each covers all generators and a shift"
    ev.assumptions = ["axioms A8/A10 as in C08", "interning of large polynomials as signed symbols preserves equalities between two runs of the same code", "the filter banks handed to the model are invariant (C03)", "pooling compatible extents"]
    for q in ("make_conv", "handle_activation", "ConvBlock.__init__", "ConvBlock.__call__", "UNet.__init__", "UNet.__call__", "ResNet.__init__", "ResNet.__call__", "DilResNet.__init__", "DilResNet.__call__"):
        pm.func(MODELS_MOD, q)
        ev.functions.add(MODELS_MOD + "." + q)
    hits, n_sites = effect_rule(ctx)
    ev.instances("C07.EFFECT.conventional_sites", n_sites, floor=4)  # one per conventional construct kind; the count above that is style
    for q, line, what in hits:
        ctx.add(Finding("C07", "C07.EFFECT", q, what, pm.path(MODELS_MOD), line, None, "conventional-in-equivariant"))
    th = ctx.thorough()
    S1 = ([((0, 0), 1), ((1, 0), 1)], [((1, 0), 1)])
    S2 = ([((0, 1), 1), ((1, 0), 1)], [((0, 0), 1), ((1, 1), 1)])
    S3 = ([((0, 0), 2)], [((0, 0), 1), ((0, 1), 1)])
    specs = []
    base = dict(D=2, depth=1)
    for cls in ("ResNet", "DilResNet", "UNet", "ConvBlock"):
        sigs = [S1, S2] + ([S3] if th else [])
        if not th and cls in ("DilResNet", "UNet"):
            sigs = [S2] if cls == "UNet" else [S1]
        for si, (i, o) in enumerate(sigs):
            opts = [dict(use_group_norm=True, activation="relu", use_bias="auto")]
            if (si == 0 and cls in ("ResNet", "ConvBlock")) or th:
                opts.append(dict(use_group_norm=False, activation="gelu", use_bias="mean"))
            if th or cls == "ConvBlock":
                # every documented bias setting (the cheap single block carries them in the quick tier)
                opts += [dict(use_group_norm=True, activation=None, use_bias=False), dict(use_group_norm=False, activation="callable", use_bias="scalar"), dict(use_group_norm=True, activation="relu", use_bias=True)]
            for op in opts:
                s = dict(base, cls=cls, input=i, output=o, **op)
                if cls == "ResNet":
                    variants = [dict(preactivation_order=True, num_conv=1)]
                    if th or si == 0:
                        variants.append(dict(preactivation_order=False, num_conv=2))
                    if th:
                        variants.append(dict(preactivation_order=True, num_blocks=2, depth=2))
                elif cls == "UNet":
                    variants = [dict(num_downsamples=1, num_conv=1)]
                    if th:
                        variants += [dict(num_downsamples=2, num_conv=1), dict(num_downsamples=1, num_conv=2), dict(num_downsamples=0, num_conv=1)]
                elif cls == "ConvBlock":
                    variants = [dict(preactivation_order=False), dict(preactivation_order=True)]
                else:
                    variants = [dict()]
                for v in variants:
                    s2 = dict(s, **v)
                    specs.append(s2)
                    if th and si == 0 and cls != "UNet":
                        specs.append(dict(s2, is_torus=[True, False]))
    if th:
        specs.append(dict(D=3, depth=1, cls="ResNet", input=S1[0], output=S1[1], use_group_norm=True, activation="relu", use_bias="auto", num_conv=1))
        specs.append(dict(D=3, depth=1, cls="ConvBlock", input=S2[0], output=S2[1], use_group_norm=True, activation="relu", use_bias="auto"))
        specs.append(dict(D=3, depth=1, cls="UNet", input=S2[0], output=S2[1], use_group_norm=True, activation="gelu", use_bias="auto", num_downsamples=1, num_conv=1, square=False))
        specs.append(dict(D=3, depth=1, cls="DilResNet", input=S1[0], output=S1[1], use_group_norm=False, activation="relu", use_bias="auto"))
    else:
        specs.append(dict(D=3, depth=1, cls="ConvBlock", input=S1[0], output=S1[1], use_group_norm=True, activation="relu", use_bias="auto"))
    # the 3-D U-Net exercises the up-sampling bank with tensor order >= 1 under rotations mixing all three axes
    specs.append(dict(D=3, depth=1, cls="UNet", input=S1[0], output=S1[1], use_group_norm=False, activation="relu", use_bias="auto", num_downsamples=1, num_conv=1, square=False))
    # banks with an absent filter type (no (0,1) filter exists for 3^D filters): the model must stay equivariant
    for cls in ("ResNet", "ConvBlock") + (("UNet", "DilResNet") if th else ()):
        sm = dict(base, cls=cls, input=S2[0], output=S2[1], use_group_norm=True, activation="relu", use_bias="auto", missing=[(0, 1)])
        if cls == "UNet":
            sm.update(num_downsamples=1, num_conv=1)
        specs.append(sm)
    # models as they are after a training step / filter_jit / load (pytree round trip), signatures listed in a non-sorted
    # order with equal channel counts
    SR = ([((1, 0), 1), ((0, 0), 1)], [((1, 0), 1), ((0, 0), 1)])
    for cls in ("ConvBlock", "ResNet") + (("UNet", "DilResNet") if th else ()):
        sr = dict(base, cls=cls, input=SR[0], output=SR[1], use_group_norm=(cls != "DilResNet"), activation="relu", use_bias="auto", _roundtrip=True)
        if cls == "UNet":
            sr.update(num_downsamples=1, num_conv=1)
        specs.append(sr)
    if th:
        # a non-cubic box and its axis-permuted copies form one orbit: the generators are checked on every member
        extra = []
        for sp in specs:
            N0 = spatial_for(sp)
            if len(set(N0)) > 1 and all(sp.get("is_torus", [True] * sp["D"])):
                seen = {tuple(N0)}
                for perm in itertools.permutations(range(sp["D"])):
                    Np = tuple(N0[i] for i in perm)
                    if Np not in seen:
                        seen.add(Np)
                        extra.append(dict(sp, _orient=list(perm)))
        specs += extra
    jobs = [(ctx.repo, s) for s in specs]
    by = {}
    for job, r in ctx.pairs(worker, jobs, chunk=1):
        cfg = r["cfg"]
        ev.obligation("model", not r["problems"], tuple(str(v) for v in sorted(cfg.items())), sample={k: v for k, v in cfg.items()} if ev.obligations % 5 == 0 else None)
        for kind, what, site in r["problems"]:
            by.setdefault((cfg["cls"], kind), []).append((what, site, cfg))
    for (cls, kind), items in sorted(by.items()):
        what, site, cfg = items[0]
        q = cls + ".__call__"
        node = pm.func(MODELS_MOD, q)
        extra = ""
        if site and site[0]:
            extra = " [last array operation at %s:%s in %s]" % (site[0].split("/src/")[-1], site[1], site[2])
        ctx.add(Finding("C07", "C07.AXI." + kind, q, "%s (%d of the swept configurations fail)%s" % (what, len(items), extra), pm.path(MODELS_MOD), node.lineno, cfg, kind))
    # "for every parameter value": the parameters are the array leaves that receive a gradient.  The invariant filter bank
    # must not be one of them -- an optimiser step would move it off the invariant subspace and no identity above would
    # survive.  Decided by the taint run of C09 (symbols passing through jax.lax.stop_gradient during the forward pass are
    # renamed; no output element may depend on an un-renamed bank symbol), on this property's own entry points.
    from .c09 import taint_worker

    tspecs = [dict(cls="ConvBlock", D=2, depth=1, input=[((0, 0), 1), ((1, 0), 1)], output=[((1, 0), 1), ((0, 0), 1)], use_group_norm=True, activation="relu", use_bias="auto"),
             dict(cls="ResNet", D=2, depth=1, input=[((0, 0), 1), ((1, 0), 1)], output=[((1, 0), 1), ((0, 0), 1)], use_group_norm=True, activation="relu", use_bias="auto", num_conv=1)]
    tby = {}
    for job, r in ctx.pairs(taint_worker, [(ctx.repo, s_) for s_ in tspecs], chunk=1):
        ev.obligation("bank-not-a-parameter", not r["problems"], tuple(str(v) for v in sorted(r["cfg"].items())))
        for kind, what, site in r["problems"]:
            tby.setdefault(kind, []).append((what, site, r["cfg"]))
    for kind, items in sorted(tby.items()):
        what, site, cfg = items[0]
        node = pm.func(LAYERS_MOD, "ConvContract.individual_convolve")
        path_, line_ = pm.path(LAYERS_MOD), node.lineno
        if site and site[0]:
            path_, line_ = site[0], site[1]
        ctx.add(Finding("C07", "C07.TAINT." + kind, "ConvContract.individual_convolve", "%s: the bank is then a trainable parameter, and the layer is equivariant only for the parameter values that keep it invariant (%d of the swept configurations fail)" % (what, len(items)), path_, line_, cfg, "bank-" + kind))
    ev.instances("C07.AXI.obligations", ev.obligations, floor=10 if ctx.tier == "quick" else 80)
    ev.exhaustive = False
