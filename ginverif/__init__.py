"""ginverif: static verification machinery for ginjax (stdlib only)."""
