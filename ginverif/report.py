"""Verdict plumbing: findings, known-findings matching, evidence files, exit codes."""

import json
import os
import sys
import time
import traceback

VERIF_ROOT = os.path.dirname(os.path.dirname(os.path.abspath(__file__)))


class AnalysisError(Exception):
    """The analyser cannot decide (vanished anchor, unmodelled construct): exit 2, never a verdict."""

    pass


class Finding(object):
    def __init__(self, prop, rule, construct, what, file=None, line=None, config=None, witness=None):
        self.prop = prop
        self.rule = rule
        self.construct = construct  # qualified function / class (stable key part)
        self.what = what  # human readable: expected / found
        self.file = file
        self.line = line
        self.config = config
        self.witness = witness  # witness class (stable key part), e.g. 'insertion-order'

    def key(self):
        return "%s|%s|%s" % (self.rule, self.construct, self.witness or "")

    def line_text(self):
        loc = "%s:%s" % (_rel(self.file) if self.file else "?", self.line if self.line else "?")
        cfg = " config=%s" % (json.dumps(self.config, default=str, sort_keys=True),) if self.config is not None else ""
        w = self.what if len(self.what) <= 600 else self.what[:600] + " ..."
        return "%s  %s  %s%s  %s" % (loc, self.construct, self.rule, cfg, w)

    def to_json(self):
        return dict(property=self.prop, rule=self.rule, construct=self.construct, what=self.what, file=_rel(self.file) if self.file else None, line=self.line, config=self.config, witness=self.witness, key=self.key())


def _rel(p):
    if p and p.startswith("/repo/"):
        return p[len("/repo/"):]
    return p


class Evidence(object):
    def __init__(self, prop, tier, seed):
        self.prop = prop
        self.tier = tier
        self.seed = seed
        self.obligations = 0
        self.discharged = 0
        self.evaluations = 0
        self.nontrivial = set()
        self.samples = []
        self.functions = set()
        self.interpreted = set()
        self.branches = {}
        self.rule_instances = {}
        self.floors = {}
        self.assumptions = []
        self.explanation = ""
        self.rule_text = ""
        self.exhaustive = False
        self.extra = {}
        self.trusted_base = []

    def obligation(self, name, ok, nontrivial_key=None, sample=None):
        self.obligations += 1
        self.evaluations += 1
        if ok:
            self.discharged += 1
        if nontrivial_key is not None:
            self.nontrivial.add(nontrivial_key)
        if sample is not None and len(self.samples) < 12:
            self.samples.append(sample)

    def instances(self, rule, n, floor=None):
        self.rule_instances[rule] = self.rule_instances.get(rule, 0) + n
        if floor is not None:
            self.floors[rule] = floor

    def check_floors(self):
        for rule, floor in self.floors.items():
            if self.rule_instances.get(rule, 0) < floor:
                raise AnalysisError("rule %s matched %d instances, fewer than the %d confirmed by hand on the pinned tree (rule went vacuous?)" % (rule, self.rule_instances.get(rule, 0), floor))

    def to_json(self, wall, violations, known, findings):
        cov = dict(
            explanation=self.explanation,
            obligations=self.obligations,
            discharged=self.discharged,
            evaluations=max(self.evaluations, 1),
            distinct_nontrivial=len(self.nontrivial),
            rule=self.rule_text,
            samples=self.samples[:12] or ["(no obligations)"],
            exhaustive=self.exhaustive,
            functions_analysed=sorted(self.functions),
            functions_interpreted=sorted(self.interpreted),
            rule_instances=self.rule_instances,
            rule_instance_floors=self.floors,
            trusted_base=self.trusted_base or list(self.assumptions),
            checker_cmd="./check %s --tier %s" % (self.prop, self.tier),
            known_findings_reported=known,
            findings=[f.to_json() for f in findings][:50],
        )
        cov.update(self.extra)
        return dict(property_id=self.prop, tier=self.tier, seed=self.seed, level="other", coverage=cov, assumptions=self.assumptions, wall_s=round(wall, 3), violations=violations)


def load_known():
    p = os.path.join(VERIF_ROOT, "KNOWN_FINDINGS.json")
    if not os.path.isfile(p):
        return []
    with open(p) as f:
        return json.load(f).get("findings", [])


def finish(prop, tier, seed, ev, findings, t0, errors):
    """Print verdict lines, write evidence, return exit code."""
    wall = time.time() - t0
    known = [k for k in load_known() if k.get("property") == prop and k.get("status") == "known"]
    known_keys = {k["key"]: k for k in known}
    new = []
    reported_known = {}
    for f in findings:
        k = f.key()
        if k in known_keys:
            reported_known.setdefault(k, f)
        else:
            new.append(f)
    # dedupe new findings by key for the headline, keep all lines
    os.makedirs(os.path.join(VERIF_ROOT, "evidence"), exist_ok=True)
    code = 0
    for k, f in sorted(reported_known.items()):
        print("KNOWN-FINDING: property=%s %s -- %s" % (prop, known_keys[k].get("what", k), f.line_text()))
    if errors:
        for e in errors[:20]:
            print("ANALYSIS-ERROR property=%s %s" % (prop, e))
        code = 2
    if new:
        rp_dir = os.path.join(VERIF_ROOT, "evidence", "replay") if not os.environ.get("GINVERIF_NO_EVIDENCE") else (os.environ.get("GINVERIF_REPLAY_DIR") or os.path.join("/tmp", "ginverif_replay_%d" % os.getpid()))
        os.makedirs(rp_dir, exist_ok=True)
        rp = os.path.join(rp_dir, "%s.json" % prop)
        with open(rp, "w") as fh:
            json.dump(dict(property=prop, tier=tier, seed=seed, findings=[f.to_json() for f in new]), fh, indent=1, default=str)
        print("VIOLATION property=%s replay=%s" % (prop, rp))
        seen = set()
        n = 0
        for f in new:
            kk = (f.key(), f.what)
            if kk in seen:
                continue
            seen.add(kk)
            n += 1
            if n <= 40:
                print("  " + f.line_text())
        if n > 40:
            print("  ... %d more finding lines (see replay file)" % (n - 40))
        code = 1 if code == 0 else code
        if errors:
            code = 1
    out = ev.to_json(wall, len(new), sorted(reported_known), new)
    if errors:
        out["coverage"]["analysis_errors"] = errors[:20]
    if not os.environ.get("GINVERIF_NO_EVIDENCE"):
        with open(os.path.join(VERIF_ROOT, "evidence", "%s.json" % prop), "w") as fh:
            json.dump(out, fh, indent=1, default=str)
    if code == 0:
        print("OK property=%s tier=%s obligations=%d discharged=%d rule_instances=%s wall=%.1fs" % (prop, tier, ev.obligations, ev.discharged, json.dumps(ev.rule_instances, sort_keys=True), wall))
    return code
