"""Free commutative polynomial algebra over *symbols* (stdlib only).

This is the value domain of the abstract interpreter's element provenance: an
array element is never a number that came from data -- it is a polynomial with
rational coefficients over symbols.  A symbol is either

  ('leaf', name, idx)        one element of an abstract input / parameter array
  ('fn', fname, args)        an uninterpreted function of polynomial arguments
                             (relu, sqrt, abs, argmax-selection, model outputs ...)

Pure re-layouts move symbols around; linear / bilinear code builds sums of
monomials; everything non-polynomial is kept as an opaque ``fn`` symbol whose
arguments are canonical polynomial keys, so equality of two results is
structural equality of canonical forms and holds for every numeric value of the
leaves.
"""

from fractions import Fraction

_SYMS = {}  # key -> id
_SYM_BY_ID = []  # id -> key


def reset_symbols():
    _SYMS.clear()
    del _SYM_BY_ID[:]


def sym_id(key):
    i = _SYMS.get(key)
    if i is None:
        i = len(_SYM_BY_ID)
        _SYMS[key] = i
        _SYM_BY_ID.append(key)
    return i


def sym_key(i):
    return _SYM_BY_ID[i]


def is_num(x):
    return isinstance(x, (int, Fraction)) and not isinstance(x, bool)


def to_num(x):
    """Normalise a host number to int / Fraction (floats are converted exactly)."""
    if isinstance(x, bool):
        return int(x)
    if isinstance(x, int):
        return x
    if isinstance(x, Fraction):
        if x.denominator == 1:
            return int(x)
        return x
    if isinstance(x, float):
        if x != x or x in (float("inf"), float("-inf")):
            return x
        f = Fraction(x)
        # prefer the short decimal representation: 1e-5 -> 1/100000, 0.1 -> 1/10
        g = Fraction(repr(x))
        if float(g) == x:
            f = g
        return int(f) if f.denominator == 1 else f
    raise TypeError("not a number: %r" % (x,))


class Poly(object):
    __slots__ = ("terms", "_key")

    def __init__(self, terms):
        self.terms = terms  # dict: monomial(tuple of sorted sym ids) -> coeff
        self._key = None

    # ---------------------------------------------------------------- ctor
    @staticmethod
    def const(c):
        c = to_num(c)
        if c == 0:
            return Poly({})
        return Poly({(): c})

    @staticmethod
    def symbol(key):
        return Poly({(sym_id(key),): 1})

    @staticmethod
    def leaf(name, idx):
        return Poly({(sym_id(("leaf", name, tuple(idx))),): 1})

    @staticmethod
    def fn(fname, *args):
        """Uninterpreted function application; args are Poly / numbers / hashables."""
        kargs = tuple(pk(a) if isinstance(a, Poly) else a for a in args)
        return Poly({(sym_id(("fn", fname, kargs)),): 1})

    # ---------------------------------------------------------------- basics
    def key(self):
        k = self._key
        if k is None:
            k = self._key = tuple(sorted(self.terms.items()))
        return k

    def __hash__(self):
        return hash(self.key())

    def __eq__(self, other):
        if isinstance(other, Poly):
            return self.terms == other.terms
        if is_num(other) or isinstance(other, float):
            return self.terms == Poly.const(other).terms
        return NotImplemented

    def __ne__(self, other):
        r = self.__eq__(other)
        return r if r is NotImplemented else not r

    def is_const(self):
        return not self.terms or (len(self.terms) == 1 and () in self.terms)

    def const_value(self):
        if not self.terms:
            return 0
        return self.terms[()]

    def is_zero(self):
        return not self.terms

    def single_symbol(self):
        """Return sym id if self is exactly one symbol with coefficient 1, else None."""
        if len(self.terms) == 1:
            (m, c), = self.terms.items()
            if c == 1 and len(m) == 1:
                return m[0]
        return None

    def symbols(self):
        s = set()
        for m in self.terms:
            s.update(m)
        return s

    def degree(self):
        return max((len(m) for m in self.terms), default=0)

    # ---------------------------------------------------------------- arithmetic
    def __add__(self, other):
        other = as_poly(other)
        if other is NotImplemented:
            return NotImplemented
        if not other.terms:
            return self
        if not self.terms:
            return other
        a, b = self.terms, other.terms
        if len(a) < len(b):
            a, b = b, a
        out = dict(a)
        for m, c in b.items():
            v = out.get(m)
            if v is None:
                out[m] = c
            else:
                v = v + c
                if v == 0:
                    del out[m]
                else:
                    out[m] = v
        return Poly(out)

    __radd__ = __add__

    def __neg__(self):
        return Poly({m: -c for m, c in self.terms.items()})

    def __sub__(self, other):
        other = as_poly(other)
        if other is NotImplemented:
            return NotImplemented
        return self + (-other)

    def __rsub__(self, other):
        other = as_poly(other)
        if other is NotImplemented:
            return NotImplemented
        return other + (-self)

    def scale(self, c):
        c = to_num(c)
        if c == 0:
            return Poly({})
        if c == 1:
            return self
        return Poly({m: _norm(v * c) for m, v in self.terms.items()})

    def __mul__(self, other):
        if is_num(other) or isinstance(other, (float, bool)):
            return self.scale(other)
        other = as_poly(other)
        if other is NotImplemented:
            return NotImplemented
        if not self.terms or not other.terms:
            return Poly({})
        if other.is_const():
            return self.scale(other.const_value())
        if self.is_const():
            return other.scale(self.const_value())
        if len(self.terms) == 1 and len(other.terms) == 1:
            # sqrt(p) * sqrt(p) -> p  (the same normal form as sqrt(p) ** 2, however the square is written)
            s1 = self.single_symbol()
            if s1 is not None and s1 == other.single_symbol():
                k = sym_key(s1)
                if k[0] == "fn" and k[1] == "sqrt":
                    return unpk(k[2][0])
        a, b = self.terms, other.terms
        if len(a) == 1 or len(b) == 1:
            if len(b) == 1:
                a, b = b, a
            (m1, c1), = a.items()
            out = {}
            if len(m1) == 1:
                s = m1[0]
                for m2, c2 in b.items():
                    # insert s into the sorted tuple m2
                    i = 0
                    n = len(m2)
                    while i < n and m2[i] <= s:
                        i += 1
                    m = m2[:i] + m1 + m2[i:]
                    c = c2 if c1 == 1 else c1 * c2
                    out[m] = c
            else:
                for m2, c2 in b.items():
                    m = tuple(sorted(m1 + m2)) if m2 else m1
                    out[m] = c1 * c2
            if c1 == 1 or isinstance(c1, int):
                return Poly(out)
            return Poly({m: _norm(c) for m, c in out.items()})
        out = {}
        for m1, c1 in self.terms.items():
            for m2, c2 in other.terms.items():
                if not m1:
                    m = m2
                elif not m2:
                    m = m1
                else:
                    m = tuple(sorted(m1 + m2))
                v = out.get(m)
                c = c1 * c2
                if v is None:
                    out[m] = c
                else:
                    v = v + c
                    if v == 0:
                        del out[m]
                    else:
                        out[m] = v
        return Poly({m: _norm(c) for m, c in out.items()})

    __rmul__ = __mul__

    def __truediv__(self, other):
        if is_num(other) or isinstance(other, float):
            other = to_num(other)
            if other == 0:
                return Poly.fn("div", self, Poly.const(0))
            return self.scale(Fraction(1, 1) / other)
        other = as_poly(other)
        if other is NotImplemented:
            return NotImplemented
        if other.is_const():
            return self.__truediv__(other.const_value())
        if not self.terms:
            return self
        # a / b  ==  a * recip(b): keeps the numerator polynomial (so signs and sums distribute)
        return self * recip(other)

    def __rtruediv__(self, other):
        other = as_poly(other)
        if other is NotImplemented:
            return NotImplemented
        return other.__truediv__(self)

    def __pow__(self, e):
        if isinstance(e, Poly):
            if e.is_const():
                e = e.const_value()
            else:
                return Poly.fn("pow", self, e)
        e = to_num(e)
        if isinstance(e, int) and e >= 0:
            if e == 2:
                # (sqrt(p))**2 -> p
                s = self.single_symbol()
                if s is not None:
                    k = sym_key(s)
                    if k[0] == "fn" and k[1] == "sqrt":
                        return unpk(k[2][0])
            r = Poly.const(1)
            for _ in range(e):
                r = r * self
            return r
        if self.is_const():
            c = self.const_value()
            try:
                if isinstance(e, int) and c != 0:
                    return Poly.const(Fraction(c) ** e)
            except Exception:
                pass
        return Poly.fn("pow", self, Poly.const(e))

    def __rpow__(self, base):
        base = as_poly(base)
        return base.__pow__(self)

    # ---------------------------------------------------------------- display
    def __repr__(self):
        return "Poly(%s)" % self.show()

    def show(self, limit=6):
        if not self.terms:
            return "0"
        parts = []
        for i, (m, c) in enumerate(sorted(self.terms.items())):
            if i >= limit:
                parts.append("... %d more" % (len(self.terms) - limit))
                break
            s = "*".join(show_sym(x) for x in m) or "1"
            if c == 1 and m:
                parts.append(s)
            else:
                parts.append("%s*%s" % (c, s) if m else str(c))
        return " + ".join(parts)


def canon_sign(p):
    """(sign, q) with p == sign*q and q's leading coefficient positive (a canonical representative up to sign)."""
    if not p.terms:
        return 1, p
    m = min(p.terms)
    if p.terms[m] < 0:
        return -1, -p
    return 1, p


def recip(p):
    """1/p as an uninterpreted symbol with the odd symmetry recip(-p) = -recip(p) made canonical."""
    if p.is_const():
        c = p.const_value()
        if c == 0:
            return Poly.fn("recip", p)
        return Poly.const(Fraction(1, 1) / c)
    sgn, q = canon_sign(p)
    r = Poly.fn("recip", q)
    return -r if sgn < 0 else r


def even_fn(name, p):
    """f(p) for an even function f (abs, ...): canonical in the sign of its argument."""
    sgn, q = canon_sign(p)
    return Poly.fn(name, q)


def _norm(c):
    if isinstance(c, Fraction) and c.denominator == 1:
        return int(c)
    return c


def poly_from_key(k):
    return Poly(dict(k))


def pk(p):
    """Interned reference to a polynomial, used inside the argument lists of function symbols."""
    return ("P", sym_id(("poly", as_poly(p).key())))


def is_pk(a):
    return isinstance(a, tuple) and len(a) == 2 and a[0] == "P" and isinstance(a[1], int)


def unpk(a):
    return poly_from_key(sym_key(a[1])[1])


def as_poly(x):
    if isinstance(x, Poly):
        return x
    if isinstance(x, (int, Fraction, float, bool)):
        return Poly.const(x)
    return NotImplemented


def show_sym(i, depth=0):
    k = sym_key(i)
    if k[0] == "leaf":
        return "%s[%s]" % (k[1], ",".join(str(j) for j in k[2]))
    if k[0] == "cut":
        return "{%s}" % unpk(("P", k[1])).show(2)
    if k[0] == "sg":
        return "sg(%s)" % show_sym(k[1], depth + 1)
    if k[0] == "fn":
        if depth > 2:
            return "%s(...)" % k[1]
        args = []
        for a in k[2]:
            if is_pk(a):
                args.append(unpk(a).show(3))
            elif isinstance(a, tuple) and len(a) > 4:
                args.append("<%d items>" % len(a))
            else:
                args.append(repr(a))
        return "%s(%s)" % (k[1], ", ".join(args))
    return repr(k)


def leaf_of(p):
    """If p is a single leaf symbol return (name, idx) else None."""
    if not isinstance(p, Poly):
        return None
    s = p.single_symbol()
    if s is None:
        return None
    k = sym_key(s)
    if k[0] == "leaf":
        return k[1], k[2]
    return None


def leaf_names(p):
    """Set of leaf array names p depends on (looking through fn symbols)."""
    out = set()
    seen = set()

    def walk_sym(i):
        if i in seen:
            return
        seen.add(i)
        k = sym_key(i)
        if k[0] == "leaf":
            out.add(k[1])
        elif k[0] == "fn":
            for a in k[2]:
                walk_key(a)
        elif k[0] == "cut":
            walk_key(("P", k[1]))
        elif k[0] == "sg":
            pass  # protected by stop_gradient: not a differentiable dependence

    def walk_key(a):
        if is_pk(a):
            for m, _c in sym_key(a[1])[1]:
                for z in m:
                    walk_sym(z)
            return
        if isinstance(a, tuple):
            for item in a:
                if is_pk(item):
                    walk_key(item)
                elif isinstance(item, tuple) and len(item) == 2 and isinstance(item[0], tuple) and all(isinstance(z, int) for z in item[0]):
                    for z in item[0]:
                        walk_sym(z)
                else:
                    walk_key(item)

    if isinstance(p, Poly):
        for m in p.terms:
            for i in m:
                walk_sym(i)
    return out


def leaves_of(p):
    """Set of (name, idx) leaf elements p depends on (looking through fn symbols)."""
    out = set()
    seen = set()

    def walk_sym(i):
        if i in seen:
            return
        seen.add(i)
        k = sym_key(i)
        if k[0] == "leaf":
            out.add((k[1], k[2]))
        elif k[0] == "fn":
            for a in k[2]:
                walk_key(a)
        elif k[0] == "cut":
            walk_key(("P", k[1]))
        elif k[0] == "sg":
            pass  # protected by stop_gradient: not a differentiable dependence

    def walk_key(a):
        if is_pk(a):
            for m, _c in sym_key(a[1])[1]:
                for z in m:
                    walk_sym(z)
            return
        if isinstance(a, tuple):
            for item in a:
                if is_pk(item):
                    walk_key(item)
                elif isinstance(item, tuple) and len(item) == 2 and isinstance(item[0], tuple) and all(isinstance(z, int) for z in item[0]):
                    for z in item[0]:
                        walk_sym(z)
                else:
                    walk_key(item)

    if isinstance(p, Poly):
        for m in p.terms:
            for i in m:
                walk_sym(i)
    return out
