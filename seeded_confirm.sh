#!/bin/bash
# usage: seeded_confirm.sh <seed-id> <PROP> [other props to run]   (seed dir /tmp/seed_<id>)
# confirms in MY OWN scratch worktree (fresh checkout of /repo HEAD + the patch), never in the agent's
id=$1; prop=$2; shift 2
sd=/tmp/seed_$id; cw=/tmp/cw_$id
git -C /repo worktree remove --force $cw 2>/dev/null
git -C /repo worktree add -q $cw HEAD || exit 1
git -C $cw apply $sd/patch.diff || { echo "PATCH DOES NOT APPLY"; git -C /repo worktree remove --force $cw; exit 1; }
echo "== demo on scratch worktree with the patch (expect non-zero)"
(cd $cw && JAX_PLATFORMS=cpu PYTHONPATH=$cw/src timeout 2400 /venv/bin/python $sd/demo.py > /tmp/demo_mod_$id.log 2>&1; echo "exit=$?")
git -C /repo worktree remove --force $cw
echo "== demo on /repo (expect 0)"
(cd /repo && JAX_PLATFORMS=cpu PYTHONPATH=/repo/src timeout 2400 /venv/bin/python $sd/demo.py > /tmp/demo_orig_$id.log 2>&1; echo "exit=$?")
echo "== checks with the patch applied to /repo"
git -C /repo apply $sd/patch.diff || { echo "PATCH DOES NOT APPLY"; exit 1; }
for p in $prop "$@"; do
  GINVERIF_NO_EVIDENCE=1 GINVERIF_REPLAY_DIR=/tmp/seedreplay /verif/check $p --tier quick > /tmp/seedcheck_${id}_$p.log 2>&1; echo "$p exit=$? $(grep -m1 '^  \|ANALYSIS' /tmp/seedcheck_${id}_$p.log | cut -c1-260)"
done
git -C /repo checkout -- . ; git -C /repo status --short | head -3
