#!/bin/bash
# usage: seeded_confirm.sh <seed-id> <PROP> [other props to run]   (seed dir /tmp/seed_<id>, worktree /tmp/wt_<id>)
id=$1; prop=$2; shift 2
sd=/tmp/seed_$id; wt=/tmp/wt_$id
echo "== demo on modified worktree (expect non-zero)"
(cd $wt && JAX_PLATFORMS=cpu PYTHONPATH=$wt/src timeout 1500 /venv/bin/python $sd/demo.py > /tmp/demo_mod_$id.log 2>&1; echo "exit=$?")
echo "== demo on /repo (expect 0)"
(cd /repo && JAX_PLATFORMS=cpu PYTHONPATH=/repo/src timeout 1500 /venv/bin/python $sd/demo.py > /tmp/demo_orig_$id.log 2>&1; echo "exit=$?")
echo "== checks with the patch applied to /repo"
git -C /repo apply $sd/patch.diff || { echo "PATCH DOES NOT APPLY"; exit 1; }
for p in $prop "$@"; do
  GINVERIF_NO_EVIDENCE=1 /verif/check $p --tier quick > /tmp/seedcheck_${id}_$p.log 2>&1; echo "$p exit=$? $(grep -m1 '^  ' /tmp/seedcheck_${id}_$p.log | cut -c1-260)"
done
git -C /repo checkout -- . ; git -C /repo status --short | head -3
